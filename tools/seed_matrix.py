#!/usr/bin/env python3
"""tools/seed_matrix.py [--benign] [--jobs N] [--tier quick] [--only C01,C03-2,...]
Regression suite of the checks themselves: every confirmed independent change under seeded/<ID>-<n>/ is applied to a scratch
worktree of /repo HEAD (never /repo itself), the property's check is run against the worktree, and the exit code and the
violation keys are written to seeded/MATRIX.json.  A seed that is no longer caught is printed as `MISSED`; the tool
exits 1 if any seed that meta.json marks as caught is missed.  Scratch worktrees are removed as soon as each run ends.
With --benign the same is done for benign/<ID>-<n>/ (independent changes that alter internals but keep the property):
there the check must exit 0; an alarm is printed as `FALSE-ALARM`; results go to benign/MATRIX.json."""
import concurrent.futures
import json
import os
import re
import subprocess
import sys
import tempfile

ROOT = os.path.dirname(os.path.dirname(os.path.abspath(__file__)))
args = sys.argv[1:]
jobs = int(args[args.index('--jobs') + 1]) if '--jobs' in args else 4
tier = args[args.index('--tier') + 1] if '--tier' in args else 'quick'
only = args[args.index('--only') + 1].split(',') if '--only' in args else None
BENIGN = '--benign' in args
TARGETS = args[args.index('--targets') + 1].split(',') if '--targets' in args else None   # only runs of these checks (own and cross together)
CROSS = '--cross' in args          # with --benign: run every OTHER check that exercises a file the patch touches
KIND = 'benign' if BENIGN else 'seeded'
# which checks exercise which source files (prefix match on the path in the diff)
USES = {
    'lbry/blob/blob_file.py': 'C01 C02 C10 C18 C19', 'lbry/blob/writer.py': 'C01 C02 C10', 'lbry/blob/blob_manager.py': 'C18 C19 C10 C02',
    'lbry/blob/disk_space_manager.py': 'C19', 'lbry/blob_exchange/': 'C10', 'lbry/extras/daemon/storage.py': 'C18 C19 C02 C01',
    'lbry/stream/descriptor.py': 'C02 C18 C19', 'lbry/dht/protocol/routing_table.py': 'C11 C12 C17', 'lbry/dht/protocol/data_store.py': 'C12 C17',
    'lbry/dht/protocol/protocol.py': 'C12 C17 C11', 'lbry/dht/protocol/iterative_find.py': 'C12', 'lbry/dht/serialization/': 'C17 C12',
    'lbry/dht/peer.py': 'C11 C12 C17', 'lbry/dht/node.py': 'C12', 'lbry/wallet/account.py': 'C03 C06 C09 C13 C14', 'lbry/wallet/bip32.py': 'C04 C06 C13 C03',
    'lbry/wallet/transaction.py': 'C03 C04 C05 C09 C14 C15', 'lbry/wallet/script.py': 'C15 C03 C04 C05 C09', 'lbry/wallet/coinselection.py': 'C03 C14',
    'lbry/wallet/database.py': 'C03 C09 C14 C06', 'lbry/wallet/ledger.py': 'C03 C08 C09 C14', 'lbry/wallet/header.py': 'C07 C08 C09',
    'lbry/wallet/wallet.py': 'C13', 'lbry/wallet/dewies.py': 'C20', 'lbry/wallet/util.py': 'C20 C03', 'lbry/wallet/bcd_data_stream.py': 'C05 C04 C15',
    'lbry/wallet/mnemonic.py': 'C06 C13', 'lbry/wallet/hash.py': 'C13 C06 C04', 'lbry/crypto/': 'C06 C13 C04', 'lbry/schema/': 'C16 C04 C03',
}


def related(seed):
    own = seed.split('-')[0]
    if own == 'X':          # a cross-cutting benign change: every property its meta.json says it touches
        meta = json.load(open(os.path.join(ROOT, KIND, seed, 'meta.json')))
        return sorted(p for p in meta.get('touches', []) if re.fullmatch(r'C\d\d', p))
    props = set()
    for ln in open(os.path.join(ROOT, KIND, seed, 'patch.diff')):
        if ln.startswith('+++ b/'):
            f = ln[6:].strip()
            for pre, ps in USES.items():
                if f.startswith(pre):
                    props |= set(ps.split())
    return sorted(props - {own})


def one(job):
    seed, prop = job
    patch = os.path.join(ROOT, KIND, seed, 'patch.diff')
    wt = tempfile.mkdtemp(prefix=f'wt-mx-{seed}-{prop}-')
    os.rmdir(wt)
    subprocess.run(['git', '-C', '/repo', 'worktree', 'add', '--detach', wt, 'HEAD'], check=True, capture_output=True)
    try:
        r = subprocess.run(['git', '-C', wt, 'apply', patch], capture_output=True, text=True)
        if r.returncode != 0:
            return job, {'exit': None, 'error': 'patch does not apply: ' + r.stderr[-300:]}
        env = dict(os.environ, VERIF_REPO=wt, VERIF_EVIDENCE_DIR=os.path.join(wt, '.evidence'))
        r = subprocess.run([os.path.join(ROOT, 'check'), prop, '--tier', tier], env=env, capture_output=True, text=True)
        keys = {}
        for m in re.finditer(r'^  violations\[(.+)\] = (\d+)$', r.stdout, re.M):
            keys[m.group(1)] = int(m.group(2))
        out = {'exit': r.returncode, 'keys': keys}
        if r.returncode == 2:
            out['error'] = (r.stdout[-600:] + r.stderr[-600:])
        return job, out
    finally:
        subprocess.run(['git', '-C', '/repo', 'worktree', 'remove', '--force', wt], capture_output=True)


def main():
    seeds = sorted(d for d in os.listdir(os.path.join(ROOT, KIND))
                   if re.fullmatch(r'(C\d\d|X)-\d+', d) and os.path.exists(os.path.join(ROOT, KIND, d, 'patch.diff')))
    if only:
        seeds = [s for s in seeds if s in only or s.split('-')[0] in only]
    path = os.path.join(ROOT, KIND, 'MATRIX.json')
    matrix = json.load(open(path)) if os.path.exists(path) else {}
    bad = 0
    work = [(s_, p_) for s_ in seeds for p_ in related(s_)] if CROSS else \
        [(s_, p_) for s_ in seeds for p_ in ([s_.split('-')[0]] if s_[0] == 'C' else related(s_))]
    if TARGETS:
        work = sorted({(s_, p_) for s_ in seeds for p_ in set(related(s_)) | ({s_.split('-')[0]} if s_[0] == 'C' else set()) if p_ in TARGETS})
    with concurrent.futures.ThreadPoolExecutor(jobs) as ex:
        for (seed, prop), out in ex.map(one, work):
            meta = json.load(open(os.path.join(ROOT, KIND, seed, 'meta.json')))
            expected = meta.get('expected', 'quiet' if BENIGN else 'caught')
            if BENIGN:
                verdict = 'quiet' if out['exit'] == 0 else 'FALSE-ALARM' if out['exit'] == 1 else 'MACHINERY'
            else:
                verdict = 'caught' if out['exit'] == 1 else 'MISSED' if out['exit'] == 0 else 'MACHINERY'
            out['verdict'], out['tier'] = verdict, tier
            matrix[seed if prop == seed.split('-')[0] else f'{seed}@{prop}'] = out
            print(f'{seed}@{prop}: {verdict} (expected {expected}) {sorted(out.get("keys", {}))[:4]}', flush=True)
            if verdict != expected and expected in ('caught', 'quiet'):
                bad += 1
    json.dump(matrix, open(path, 'w'), indent=1, sort_keys=True)
    sys.exit(1 if bad else 0)


main()
