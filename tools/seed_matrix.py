#!/usr/bin/env python3
"""tools/seed_matrix.py [--benign] [--jobs N] [--tier quick] [--only C01,C03-2,...]
Regression suite of the checks themselves: every confirmed independent change under seeded/<ID>-<n>/ is applied to a scratch
worktree of /repo HEAD (never /repo itself), the property's check is run against the worktree, and the exit code and the
violation keys are written to seeded/MATRIX.json.  A seed that is no longer caught is printed as `MISSED`; the tool
exits 1 if any seed that meta.json marks as caught is missed.  Scratch worktrees are removed as soon as each run ends.
With --benign the same is done for benign/<ID>-<n>/ (independent changes that alter internals but keep the property):
there the check must exit 0; an alarm is printed as `FALSE-ALARM`; results go to benign/MATRIX.json."""
import concurrent.futures
import json
import os
import re
import subprocess
import sys
import tempfile

ROOT = os.path.dirname(os.path.dirname(os.path.abspath(__file__)))
args = sys.argv[1:]
jobs = int(args[args.index('--jobs') + 1]) if '--jobs' in args else 4
tier = args[args.index('--tier') + 1] if '--tier' in args else 'quick'
only = args[args.index('--only') + 1].split(',') if '--only' in args else None
BENIGN = '--benign' in args
KIND = 'benign' if BENIGN else 'seeded'


def one(seed):
    prop = seed.split('-')[0]
    patch = os.path.join(ROOT, KIND, seed, 'patch.diff')
    wt = tempfile.mkdtemp(prefix=f'wt-mx-{seed}-')
    os.rmdir(wt)
    subprocess.run(['git', '-C', '/repo', 'worktree', 'add', '--detach', wt, 'HEAD'], check=True, capture_output=True)
    try:
        r = subprocess.run(['git', '-C', wt, 'apply', patch], capture_output=True, text=True)
        if r.returncode != 0:
            return seed, {'exit': None, 'error': 'patch does not apply: ' + r.stderr[-300:]}
        env = dict(os.environ, VERIF_REPO=wt, VERIF_EVIDENCE_DIR=os.path.join(wt, '.evidence'))
        r = subprocess.run([os.path.join(ROOT, 'check'), prop, '--tier', tier], env=env, capture_output=True, text=True)
        keys = {}
        for m in re.finditer(r'^  violations\[(.+)\] = (\d+)$', r.stdout, re.M):
            keys[m.group(1)] = int(m.group(2))
        out = {'exit': r.returncode, 'keys': keys}
        if r.returncode == 2:
            out['error'] = (r.stdout[-600:] + r.stderr[-600:])
        return seed, out
    finally:
        subprocess.run(['git', '-C', '/repo', 'worktree', 'remove', '--force', wt], capture_output=True)


def main():
    seeds = sorted(d for d in os.listdir(os.path.join(ROOT, KIND))
                   if re.fullmatch(r'C\d\d-\d+', d) and os.path.exists(os.path.join(ROOT, KIND, d, 'patch.diff')))
    if only:
        seeds = [s for s in seeds if s in only or s.split('-')[0] in only]
    path = os.path.join(ROOT, KIND, 'MATRIX.json')
    matrix = json.load(open(path)) if os.path.exists(path) else {}
    bad = 0
    with concurrent.futures.ThreadPoolExecutor(jobs) as ex:
        for seed, out in ex.map(one, seeds):
            meta = json.load(open(os.path.join(ROOT, KIND, seed, 'meta.json')))
            expected = meta.get('expected', 'quiet' if BENIGN else 'caught')
            if BENIGN:
                verdict = 'quiet' if out['exit'] == 0 else 'FALSE-ALARM' if out['exit'] == 1 else 'MACHINERY'
            else:
                verdict = 'caught' if out['exit'] == 1 else 'MISSED' if out['exit'] == 0 else 'MACHINERY'
            out['verdict'], out['tier'] = verdict, tier
            matrix[seed] = out
            print(f'{seed}: {verdict} (expected {expected}) {sorted(out.get("keys", {}))[:4]}', flush=True)
            if verdict != expected and expected in ('caught', 'quiet'):
                bad += 1
    json.dump(matrix, open(path, 'w'), indent=1, sort_keys=True)
    sys.exit(1 if bad else 0)


main()
