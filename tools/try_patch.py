#!/usr/bin/env python3
"""tools/try_patch.py <PROP> <patch.diff> [--demo demo.py] [--tests] [--tier quick]
Applies a patch to a scratch worktree of /repo HEAD (never /repo itself); optionally confirms the seed (demo fails with the
patch and passes without; the pinned 39 tests still pass); runs ./check <PROP> against the worktree; removes the worktree."""
import os
import subprocess
import sys
import tempfile

args = sys.argv[1:]
prop, patch = args[0], os.path.abspath(args[1])
demo = os.path.abspath(args[args.index('--demo') + 1]) if '--demo' in args else None
tests = '--tests' in args
tier = args[args.index('--tier') + 1] if '--tier' in args else 'quick'
wt = tempfile.mkdtemp(prefix='wt-seed-')
os.rmdir(wt)
subprocess.run(['git', '-C', '/repo', 'worktree', 'add', '--detach', wt, 'HEAD'], check=True, capture_output=True)
env0 = dict(os.environ, PYTHONPATH=f'{wt}:/verif/harness/shims', PROTOCOL_BUFFERS_PYTHON_IMPLEMENTATION='python', PYTHONDONTWRITEBYTECODE='1')


def run_demo():
    r = subprocess.run(['/venv/bin/python', demo], env=env0, capture_output=True, text=True, cwd=wt, timeout=900)
    return r.returncode, (r.stdout + r.stderr)[-400:]


try:
    if demo:
        rc, out = run_demo()
        print(f'demo without patch: exit {rc}')
        if rc != 0:
            print(out)
    r = subprocess.run(['git', '-C', wt, 'apply', patch], capture_output=True, text=True)
    if r.returncode != 0:
        print('PATCH-DOES-NOT-APPLY', r.stderr[-500:])
        sys.exit(3)
    if demo:
        rc, out = run_demo()
        print(f'demo with patch: exit {rc}')
        print('   ', out.strip().splitlines()[-1] if out.strip() else '')
    if tests:
        r = subprocess.run(['/venv/bin/python', '-m', 'pytest', '-q', '-p', 'no:cacheprovider', '--timeout=900', '--continue-on-collection-errors'],
                           cwd=wt, capture_output=True, text=True, env={k: v for k, v in os.environ.items() if k != 'LBRYIO_LBRY_SDK_VERIF'})
        print('tests:', r.stdout.strip().splitlines()[-1])
    env = dict(os.environ, VERIF_REPO=wt, VERIF_EVIDENCE_DIR=os.path.join(wt, '.evidence'))
    r = subprocess.run(['/verif/check', prop, '--tier', tier], env=env, capture_output=True, text=True)
    lines = [ln for ln in r.stdout.splitlines() if ln.startswith(('  violations[', 'MACHINERY', prop))]
    print('\n'.join(lines[-6:]))
    print('check exit', r.returncode)
    if r.returncode == 2:
        print(r.stdout[-1500:], r.stderr[-1500:])
finally:
    subprocess.run(['git', '-C', '/repo', 'worktree', 'remove', '--force', wt], capture_output=True)
