#!/usr/bin/env python3
"""Regenerates /verif/MANIFEST.json from the table below (one source of truth; validated against the schema)."""
import json
import os
import sys

HERE = os.path.dirname(os.path.dirname(os.path.abspath(__file__)))
GUARD = 'LBRYIO_LBRY_SDK_VERIF'

# id -> (spec modules, category, text, note, technique, design_ref)
CHECKS = {}


def check(pid, engine, text, note, technique, ref, category='model_checking'):
    CHECKS[pid] = dict(engine=engine, text=text, note=note, technique=technique, ref=ref, category=category)


check('C20', 'specs/Dewies.tla + harness/c20_dewies.py',
      'TLC enumerates the whole bounded case space of Dewies.tla (digit sequences at every digit-length boundary up to 18 '
      'digits, around 2^52..2^57 and the coin supply, both signs; all strings up to length 4 (5 thorough) over a 10-symbol '
      'alphabet and every string within one edit of a grammar string at the digit limits), checks the round-trip laws on the '
      'model, and emits each case with the expected result computed in TLA+; every TLC state is then one call of the real '
      'dewies_to_lbc / lbc_to_dewies whose result must equal the specification\'s.',
      'Trusted: Python int<->decimal-string conversion; value-equivalent spellings (leading/trailing zeros) are not told apart; '
      'non-ASCII decimal digits are outside the claim (DESIGN 8).',
      'case-analytic TLA+ spec, TLC-enumerated cases replayed into the real functions', 'DESIGN.md 5/C20')

check('C19', 'specs/DiskClean.tla + specs/DiskCleanTrace.tla + harness/c19_diskclean.py',
      'Leg A: TLC explores DiskClean.tla (content pass + network pass of clean() transcribed with the whole-MB accounting and '
      'the SQL scan orders; <=3 blobs (4 thorough) x 4 classes x 4 sizes x 5x5 limits, two passes with a blob added in between, '
      '3.8M states) against ten invariants = the clauses of the property, with reachability witnesses. Leg C: 400 (3000) seeded '
      'scenarios are built through the real storage API with real files, the real DiskSpaceManager.clean() runs, and TLC '
      'validates each recorded pass against DiskCleanTrace.tla: every clause is evaluated on the real before/after state and '
      'the reported usage must equal the specified accounting; a different-but-allowed choice of blobs is reported as drift, not as a violation.',
      'Trusted: sqlite; sparse files stand in for blob bytes (cleanup accounts from the database); one stream per data blob.',
      'TLC exhaustive model + TLC trace validation of real cleanup passes', 'DESIGN.md 5/C19')

check('C11', 'specs/RoutingTable.tla + specs/RoutingTableTrace.tla + harness/c11_routing.py',
      'Leg A: TLC explores RoutingTable.tla (add_peer with same-address eviction, same-id refresh, split, join, the '
      'bad/unknown/recently-replied eviction rule with every probe outcome, remove_peer; B=4, K=2, <=4 contacts (5 and K=3 '
      'thorough), symmetric addresses) against Partition, Membership, Capacity, NoDupId, NoDupAddr, NoIndexError, '
      'LiveNotDisplaced, CloserAdmitted, with nine reachability witnesses. Leg C: 250 (1500) seeded histories of 20-135 '
      'calls run on the real TreeRoutingTable (K=8, 384-bit ids sharing 0..383 prefix bits with the own id incl. exact bucket '
      'boundaries, liveness book-keeping through PeerManager, scripted probe outcomes); the full bucket structure after every '
      'call is logged rank-compressed and TLC evaluates the same invariants on every real state, the two action clauses on '
      'every real (pre, post, call), and recomputes every find_close_peers answer from logged XOR ranks.',
      'Trusted: rank compression preserves order/equality (all the clauses use); Python int XOR as the metric; add_peer is not '
      'interleaved with other table calls inside one probe (the protocol serialises them).',
      'TLC exhaustive model + TLC trace validation of real routing-table histories', 'DESIGN.md 5/C11')

check('C01', 'specs/BlobWrite.tla + specs/BlobWriteTrace.tla + specs/BlobBufferTrace.tla + specs/BlobWriteReplay.tla + harness/c01_blob.py',
      'Leg A: TLC explores BlobWrite.tla - up to 3 concurrent HashBlobWriters on one blob, every declared length (right, short, '
      'long), every chunking and good/bad unit, the asyncio ready queue as an explicit FIFO (close_handle / remove_writer / '
      'writer_finished_callback, the save task, executor completion, update_events, completed callback), optionally bare-API '
      'writers and close()/delete() - against Integrity, NoBadFile, OnlyRightLength, OnceOnly, QuiescentComplete, the action '
      'property VerifiedStable and, under weak fairness, delivered ~> verified and verified ~> every other writer shut down, with '
      'reachability witnesses. Leg C: 700 (6000) seeded schedules on real BlobFile objects (1 B .. 2 MiB, 1-3 real writers sending '
      'correct/corrupted/truncated/over-long/unrelated data, single loop callbacks and executor completions interleaved by the '
      'driver) are recorded through the public API and validated by TLC against BlobWriteTrace.tla: every clause on every real '
      'state, the completion clause at quiescence; what was delivered is computed from what the driver fed, never read back. '
      'The same peer asking again under its address and port, late set_length(), and in-memory BlobBuffer objects in rounds ending '
      'with the one-shot read (BlobBufferTrace.tla: readable only what was delivered, exactly the content) are part of the schedules; '
      'a liveness control (the same properties refuted without fairness) guards the liveness checking itself.',
      'Trusted: SHA-384 collision resistance (abstracted); asyncio delivers a connection\'s next chunk after the callbacks of the '
      'previous one; delete() racing with an in-flight save is outside the quantifier (noted in DESIGN).',
      'TLC exhaustive model with liveness + TLC trace validation of real writer schedules', 'DESIGN.md 5/C01')

check('C18', 'specs/BlobBook.tla + specs/BlobBookTrace.tla + harness/c18_blobbook.py',
      'Leg A: TLC explores BlobBook.tla - deliveries in their real steps (executor file write, completed-callback, queued database '
      'write), pending rows, API deletions with and without the row, files removed/added behind the daemon, a process death at '
      'any point (between file write and database write, inside the three awaits of setup()), start-up transcribed await by '
      'await - 3 blobs, <=6 (8) operations, against the four clauses of the property with reachability witnesses. Leg B: 220 (1500) '
      'TLC -simulate behaviours are replayed action by action into a real BlobManager + SQLiteStorage (sqlite file) + blob '
      'directory under the deterministic loop (crash = abandon loop and objects) and the real (listdir, blob table, '
      'completed_blob_hashes) is compared with the model state after every action (difference = spec drift, reported). Leg C: the '
      'observations of those replays and of 120 (800) longer seeded histories over 4 blobs are validated by TLC against '
      'BlobBookTrace.tla: the clauses on the real state right after every start-up, the exactness clause on every second clean start-up.',
      'Trusted: a crash loses exactly the unfinished executor jobs and memory (sqlite transaction = one job); no external file '
      'change inside the three steps of one start-up.',
      'TLC exhaustive model + model behaviours replayed into the real blob manager + TLC trace validation', 'DESIGN.md 5/C18')

check('C05', 'specs/TxWire.tla + harness/c05_txwire.py',
      'The Bitcoin/LBRY transaction encoding (compact size, fixed-width LE integers, push-data prefixes, every script kind the public '
      'constructors build, segwit marker/flag/witness, txid preimage) is an explicit TLA+ layout function with an inverse parser. TLC '
      'checks Parse(Ser(tx))=tx, Ser(Parse(b))=b, the sans-witness/txid-preimage laws and the size law on every enumerated shape: counts '
      '{1,2,252,253,300}^2, every push-data and compact-size boundary of every script kind, every combination of 32-bit boundary values '
      'with 64-bit boundary amounts, all pairs of 12 witness stacks, legacy and segwit, plus seeded random shapes. Every TLC state is one '
      'case for the real code: the transaction is built through the public constructors and tx.raw must equal the rendered layout, '
      'Transaction(raw) is compared field by field and must re-serialise identically, tx.id must be the reversed double SHA-256 of the '
      'layout without witness; BCDataStream primitives are compared up to 2^64-1 and the main-net transactions of the upstream test module '
      'must be reproduced byte for byte by the specification from the fields the real parser extracted.',
      'Trusted: hashlib SHA-256. Payload bytes are opaque seeded random bytes; only counts, prefixes, widths and field order are decided in '
      'TLA+. The library cannot build segwit transactions, so segwit is exercised on the parse/id path with bytes rendered from the '
      'specification; no main-net segwit sample exists in the pinned test module. Bounded: <=300 inputs/outputs, payloads <= ~65.5 KB.',
      'TLA+ layout-function spec, TLC case enumeration with round-trip invariants, every state replayed against the real serialiser/parser/txid',
      'DESIGN.md 5/C05')

check('C14', 'specs/Reserve.tla + specs/ReserveTrace.tla + harness/c14_reserve.py',
      'Leg A: TLC explores Reserve.tla - 3 (4) builders, 5 outputs, two rounds per build, the FIFO reservation lock, read / select / '
      'reserve as separate database jobs versus the sqlite strategy\'s single transaction, failure with release, broadcast or abandon - '
      'against NoShare, HeldUnavailable, AllAvailableAtEnd and the action property SnapshotClean, with the negative control that the '
      'model without the lock violates NoShare. Leg C: 310 (2500) schedules of 2-12 concurrent real Transaction.create calls on one real '
      'ledger / sqlite database under the deterministic loop - every arrival point of a second build enumerated, 2-12 builders with seeded '
      'arrival points, every coin-selection strategy, multi-round builds over coins barely worth their fee, each finished build broadcast '
      'or abandoned after a seeded delay - are recorded (inputs of each returned transaction; is_reserved column and spent set after every '
      'scheduler step, read by a separate connection) and validated by TLC against ReserveTrace.tla.',
      'Trusted: AIOSQLite runs one database job at a time (so arrival points are the scheduling freedom); broadcast is modelled by storing '
      'the transaction with its inputs as wallet sync does; sqlite transaction isolation.',
      'TLC exhaustive model with negative control + TLC trace validation of concurrent real builds', 'DESIGN.md 5/C14')

check('C03', 'specs/TxFund.tla + specs/MCTxFund.tla + specs/TxFundTrace.tla + harness/c03_txfund.py',
      'Leg A: TLC explores TxFund.tla - the five-round balancing loop of Transaction.create with DECLARATIVE coin selection (any set of '
      'useful unreserved coins covering the deficit), scaled constants - on two instances (coins around every threshold with payments and '
      'pre-chosen inputs; coins barely worth their fee with nothing requested, reaching five rounds) against Conservation, FeeLower, '
      'FeeUpper <= 5(coc+1)+dust (a tighter bound is refuted as a negative control), SingleChange, HonestRefusal. Leg C: 500 (6000) seeded '
      'real Transaction.create calls on a real ledger / sqlite database / two accounts (0-12, sometimes 80/250 coins around the input fee, '
      'dust and up to 1.5 LBC, mixed confirmation and ownership, some reserved; payments, claims with and without name fee, supports, '
      'purchases; pre-chosen inputs; fee rates 1/50/200; every strategy; totals just below/at/above what is spendable; directed dust and '
      '1..9-dewies-deficit cases) are logged and every outcome is judged by TLC against TxFundTrace.tla: outputs preserved, inputs legit and '
      'distinct, conservation, fee at least the signed byte/name fee and at most the bound above it, one change output on the change chain, '
      'honest refusal, no other failure, nothing left reserved after a failure.',
      'Trusted: sums below 2^31 dewies (64-bit range is C05); selection itself is not judged (only its legitimacy); a refusal is judged with a '
      'tolerance of one change-output cost; branch_and_bound as the only strategy judged on <=12 coins with a requested output.',
      'TLC model of the balancing loop with declarative selection + TLC validation of real create() outcomes', 'DESIGN.md 5/C03')

check('C02', 'specs/Stream.tla + harness/c02_stream.py',
      'TLC checks Stream.tla exhaustively with scaled constants (BS=4, CH=11, every file length 1..36, every single-field/order/terminator/JSON '
      'tamper of every blob, each also with a recomputed stream hash; blob-size law, reassembly, numbering, terminator, Load accepts iff '
      'Consistent, every tamper refused, structure refused even when recommitted), with an off-by-one negative control, then re-runs the model '
      'with the real constants over the rescaled size classes and emits every case. Each PUB case is a real file published by '
      'StreamDescriptor.create_stream under the deterministic loop: blob count/lengths/numbering/<=2 MiB must equal the prediction, every SHA-384 '
      'commitment (blob names, stream hash, sd hash) is recomputed with hashlib by interpreting the specification\'s hash terms, and all blobs are '
      'decrypted in descriptor order with the real blob.decrypt and compared byte for byte. Each TAM case is the tampered descriptor made concrete, '
      'written as a new sd blob named by its own hash and loaded with the real from_stream_descriptor_blob: it must be refused exactly where Load '
      'refuses. Each NAME case (all token sequences up to 4 (6) over an 11-token grammar) goes through the real sanitize_file_name.',
      'Trusted: SHA-384 collision resistance (symbolic injective hash); AES-CBC/PKCS7 itself is not modelled (the real decrypt is the oracle); '
      'refused = no descriptor returned; control character = U+0000-U+001F (DESIGN 8). Two-field edits that shift characters across the '
      'un-delimited hash concatenation, a length re-typed as a JSON string and the uncommitted stream_type are accepted by the loader and are '
      'recorded but not judged (outside the single-field quantifier).',
      'case-analytic TLA+ spec with symbolic hash terms; TLC-enumerated publish/tamper/name cases replayed into the real code', 'DESIGN.md 5/C02')

check('C08', 'specs/Merkle.tla + harness/c08_merkle.py',
      'TLC enumerates, as initial states of Merkle.tla, every block of n = 1..32 transactions (thorough: 1..64 exhaustively plus 127..129), every '
      'index, every home height of a 4-header chain with every claimed height -2..6, and every single mutation of the genuine proof (each branch '
      'element replaced, each position bit flipped incl. above the branch, each element dropped, a hash inserted/appended at every level, another or '
      'a one-bit-altered transaction, the answer without merkle), over Bitcoin\'s Merkle tree with a symbolic injective pairing and the '
      'duplicate-last-node rule. On every case TLC checks soundness, completeness, no-header-never-verified and an exact characterisation of which '
      'mutations can still fold to the root, and emits the verdict computed by a line-by-line transcription of maybe_verify_transaction. Every '
      'emitted case (53 k quick / 316 k thorough) is executed three ways on the real Ledger (proof passed in, fetched via network.get_merkle, and '
      'through request_transactions) with real Transaction objects, an independent hashlib double-SHA-256 tree, and a real Headers object whose '
      'chain was stored by Headers.connect, and a fourth time on a Transaction object verified genuinely just before (no verdict may survive); half '
      'of the transactions are handed over in the segwit serialisation. The genuine proof must be accepted, every mutated proof the specification '
      'rejects must be rejected (refusing an altered proof that happens to fold to the root is right as well); a verified transaction carries the '
      'supplied position and height.',
      'Trusted: double-SHA-256 collision freedom and that a txid never equals an inner node; mutation=>rejection judged modulo symbolic fold '
      'equality (DESIGN 8: position bits above the branch and right-edge nodes paired with their own duplicate are accepted); local chain validated '
      'for linkage only (PoW is C07); claim_proofs.verify_proof (legacy, uncalled) not covered.',
      'case-analytic TLA+ Merkle/SPV spec, TLC-enumerated proofs and mutations replayed into the real Ledger/Headers', 'DESIGN.md 5/C08')

check('C16', 'specs/Url.tla + specs/ClaimApi.tla + specs/LangTag.tla + harness/c16_claimurl.py',
      'The URL grammar is transcribed into a TLA+ automaton. TLC enumerates every string over 13 character classes up to length 5 (6 thorough), '
      'plus grammar-generated URLs at the 1/2/39/40/41-digit and leading-zero boundaries and their one-edit neighbourhoods, checks the parse/print '
      'round-trip laws on the model and emits each case with its expected parts; every case is run through the real URL.parse / str(URL) in 2-3 '
      'concrete spellings (ASCII, BMP range edges, astral). The metadata builder and the Signable envelope are a key-value TLA+ model, checked '
      'exhaustively for all call sequences up to depth 4 (5) over small pools, with reachability witnesses; 500 (3000) TLC-generated API sequences '
      'over full value pools are replayed on real Claim/Stream/Channel/Repost/Collection/Support/Purchase objects and after every call the typed '
      'accessors, a plain protobuf parse of to_bytes() and from_bytes(to_bytes()) are all compared with the model state. LangTag.tla sweeps every '
      'member of the schema\'s language / script / country / UN-region enumerations (read from the protobuf descriptor) through languages.append and '
      'locations.append with the read-back computed in TLA+ (this found the RE/RO/RS/RU/RW defect). The recorded legacy claims must decode to their '
      'recorded field values.',
      'Trusted: the google.protobuf wire encoding (message bytes are opaque cells in the model); all characters of one class behave alike (2-3 '
      'representatives per class and position); bounded string length, names, call depth and pools; documented normalisations (tags, USD rounded up, '
      '8/7-decimal truncation, zero = unset) are by design; Stream.update() with its file and mime inspection is outside the model; URL printing '
      'judged modulo the code\'s canonical form.',
      'TLA+ case enumeration (grammar automaton) + TLA+ API-history model; TLC-generated cases and call sequences replayed on the real code', 'DESIGN.md 5/C16')

check('C04', 'specs/Sighash.tla + harness/c04_sighash.py',
      'Sighash.tla, a symbolic (Dolev-Yao) signing model, is checked exhaustively by TLC (1-3 inputs x 1-3 outputs x kinds of spent output x claim '
      'position x signing order x every single-field mutation x signing again; 9k states quick, 23k thorough) against a declarative binding table for '
      'SIGHASH_ALL and for channel signatures. Every TLC state is replayed on a real transaction built and signed by the wallet code with seeded keys. '
      'Each input must verify with a verifier independent of lbry-sdk: own wire parser, own encoders rendering the specification\'s preimage layout, '
      'hashlib, pure-Python ecdsa, and the carried public key must hash to what the spent output pays. Each claim verdict of the real is_signed_by '
      '(live and re-parsed) must equal the specification\'s, and an independent ecdsa verification over the specification\'s digest layout must agree. '
      'Mutations are single-bit flips inside the named field; recorded old-release claims (legacy and DER-key forms) must validate and react to '
      'mutations as specified; the wallet\'s own builders (pay, purchase, create, claim_create, claim_update, support) are covered.',
      'ECDSA/secp256k1 arithmetic, SHA-256 and RIPEMD-160 are trusted to the independent implementations (pure-Python ecdsa, hashlib); that part is '
      'differential checking attached to the model\'s cases. Bounds: <=3 inputs and outputs, p2pkh / claim-prefixed / time-lock script-hash spends only '
      '(no multisig). A refusal by exception counts as does-not-validate. ECDSA (r, n-s) malleability is outside the single-bit quantifier. Only three '
      'recorded old-release claims exist.',
      'TLA+ symbolic binding model (TLC exhaustive) + state-by-state replay on real signed transactions with an independent SIGHASH_ALL/ECDSA verifier',
      'DESIGN.md 5/C04')

check('C06', 'specs/HdKeys.tla + harness/c06_hdkeys.py',
      'TLC exhaustively checks HdKeys.tla: a symbolic BIP32 key tree (every sequence of private derivation, neutering and public derivation up to '
      'depth 3 (4/6 thorough) over hardened/normal indices 0, 1, 2^31-1, 2^31, 2^31+1, 2^32-1 and the out-of-range 2^32/-1, from the master key and '
      'from imported keys at depth 254/255) satisfies N(CKDpriv(k,i)) = CKDpub(N(k),i), fails exactly for hardened-from-public/out-of-range/depth-256 '
      'derivations, and Parse(Ext(k)) = k for the 78-byte layout; Base58 radix conversion round-trips on all byte strings <= 4 (6) bytes over boundary '
      'values; Base58Check rejects every single-byte corruption, truncation and extension; the mnemonic numeral decodes to what it encodes; the '
      'address-chain machine keeps chains contiguous, deterministic and restores the gap after any mark-used. Every TLC state is emitted as a case and '
      'replayed on the real PrivateKey/PublicKey/from_extended_key_string/Base58/Mnemonic objects for 20 (24) seeds of 16-64 bytes and on two real '
      'Accounts over real sqlite databases under a deterministic loop, comparing header bytes with the specified layout, both routes of each law, round '
      'trips, rejections, returned addresses and gap state.',
      'The numbers (HMAC-SHA512, secp256k1, SHA-256/RIPEMD-160, PBKDF2) are not expressible in TLA+: agreement with BIP32 is established by a differential '
      'cross-check (an independent hmac/hashlib + pure-Python ecdsa interpretation of every term TLC emits, and the published BIP32 test vectors 1-4), '
      'which is outside the model-checking claim. first4(SHA256d) treated as a perfect hash. Indices by classes, seeds by sampled lengths. All-zero Base58 '
      'strings, BIP32 invalid-key vectors, non-English mnemonic loading are outside the claim.',
      'TLA+/TLC symbolic-term and case-analytic model, exhaustive case emission replayed on the implementation, independent BIP32 interpreter as differential oracle',
      'DESIGN.md 5/C06')

check('C10', 'specs/BlobExchange.tla + specs/MCBlobExchange.tla + specs/BlobExchangeTrace.tla + harness/c10_blobexchange.py',
      'Leg A: TLC explores BlobExchange.tla - the client receive path (response parser, header/data gate, byte cap, single-writer hash check, the '
      'checks of _download_blob, both timeouts, fatal handler errors) against every stream of the honest set (header whole or split, every content '
      'incl. data that itself parses as a response) and of the misbehaviour catalogue (wrong hash, wrong length, corrupted at every position, '
      'truncated then silent, excess, unsolicited, garbage, second header, error responses), under every re-chunking, with the length known or unknown, '
      'for blobs of 2,3(,4) units: NeverPoisoned, HonestCompletes, Terminates, ClosedOnFailure, NoLengthPoison; negative controls: the header rule of '
      'the code as found violates HonestCompletes, the announced length kept on the shared blob object violates NoLengthPoison. Leg C: every stream TLC emits is made concrete and fed to the real BlobExchangeClientProtocol + '
      'BlobFile under every unit-level re-chunking plus 1-byte/64-byte/random cuts (1400 runs quick); a request catalogue (split, oversized, malformed, '
      'unknown and unverified blobs) runs against the real BlobServerProtocol over a real BlobManager, followed by a second connection; real client and '
      'real server exchange three blobs (1 B..2 MiB) on one connection under four re-chunkings. Every run is one record judged by TLC '
      '(BlobExchangeTrace.tla): never poisoned, no file left, honest completes, ends within the timeouts, closed on failure, server sends only '
      'verified blobs under an exact header, closes on garbage, keeps serving.',
      'Trusted: TCP replaced by driver-fed transports behaving like selector transports (a raising data_received closes the connection); virtual time. '
      'The length-poisoning defect (a wrong announced length sticking on a blob whose length was unknown) was a known finding and is now repaired (19ea4a3); the model keeps the old design as the negative control PERCONN = FALSE.',
      'TLC exhaustive protocol model with negative control + TLC-judged runs of the real client and server protocols', 'DESIGN.md 5/C10')

check('C15', 'specs/Script.tla + harness/c15_script.py',
      'TLC enumerates the bounded case space of Script.tla and checks the laws on the model with reachability witnesses: every push length around the '
      '75/76/255/256/65535/65536 boundaries and 70000, every template x value lengths at those boundaries x lock heights of every byte width up to 2^32-1, '
      'all token sequences up to length 4 over the alphabet of the parse mode, every sequence within 1 (thorough: 2) token edits of an instance of each of '
      'the 13 output, 4 input and the time-lock template, and all byte strings up to 3 (4) over a 22-byte alphabet plus every one-byte edit of a small '
      'instance of each output template. Laws: the push prefix is minimal and reads back; generate-then-parse gives the same template and values (incl. the '
      'inner time-lock script and a minimal script-number height); encode/decode of token sequences is inverse; at most one output template matches and it '
      'is the one whose shape the token kinds have; a script starting with a claim, support or update opcode is never a payment class, and conversely. '
      'Every TLC state (188 k quick, 1.88 M thorough) is run through the real Template.generate, the public constructors, OutputScript/InputScript(source) '
      '.template/.values/.tokens, the is_* predicates of OutputScript and Output, and Database.tx_to_row/txo_to_row; seeded random byte strings are judged '
      'by a Python transcription of the specification that must agree with TLC on every emitted case.',
      'Payload bytes are opaque; minimal push = shortest of direct/PUSHDATA1/2/4; any parse exception counts as classification none; where an expectation '
      'rests on a named truncation quirk of the tokeniser the code may equally refuse the script; multi-signature redeem templates are evaluated without '
      'judgement (outside the claim); sequences longer than 4 tokens only within 1-2 edits of template instances and by random strings.',
      'case-analytic TLA+ spec (tokeniser, template table, matcher, generator), TLC-enumerated cases replayed into the real generator/parser/predicates',
      'DESIGN.md 5/C15')

check('C17', 'specs/Bencode.tla + specs/DhtIngress.tla + harness/c17_dhtwire.py',
      'TLC enumerates every protocol message shape of Bencode.tla (4 requests, contact lists 0..16, findValue responses, errors with 0..999 bytes of text, '
      'compact addresses) and checks decode(encode(v)) = v with a reference decoder written from the bencode grammar inside the specification; the real '
      'encoders and decoders must reproduce those bytes and values, and the transcribed reference decoder must read the real bytes identically. '
      'DhtIngress.tla generates inputs structurally from 8 valid datagrams (every truncation, 1-3 position edits in 10 classes, type confusion per field, '
      'missing entries, oversized fields, nesting to depth 5000, all tiny strings), classifies each with the reference decoder and typing rules, and checks '
      'Total, GarbageDropped, FailureRecorded, StillServing and ten classification laws. Every case (27 k quick, 277 k thorough) is one call of the real '
      'KademliaProtocol.datagram_received on a fresh node under a watchdog: routing table, data store, failure record, replies and the pending request are '
      'compared with the specified state, and a follow-up ping must still be answered. Seeded random strings up to 65507 bytes are added on top.',
      'Payload bytes are opaque (ingress payloads avoid bencode structural bytes); typing is at datagram level (request-argument validation belongs to the RPC '
      'layer: compared and counted as drift, not judged); canonical-form deviations judged for totality only; deeply nested = deeper than 100; failure '
      'recording observed by wrapping PeerManager.report_failure; 3-position edits are windowed.',
      'case-analytic TLA+ specs with an in-spec reference bencode decoder; TLC-generated structural garbage replayed into the real datagram_received under a watchdog',
      'DESIGN.md 5/C17')

check('C09', 'specs/WalletSync.tla + specs/MCWalletSync.tla + specs/WalletSyncTrace.tla + harness/c09_walletsync.py',
      'Leg A: TLC explores WalletSync.tla - Ledger.update_history await by await (per-address lock, local status, remote history snapshot, input '
      'resolution from this address\'s remote history / pending batch / txo table / tx table, batch save resetting the stored history, set history) for two '
      'addresses, with the chain fund a1 -> spend to a2 + external -> re-spend to a1 added at arbitrary moments, one notification per touched address per '
      'transaction, every interleaving of up to six tasks (135 k states): HistoryConverged, UtxoConverged, NeverLoseTx, with quiescence shown reachable. '
      'Leg C: 120 (1500) seeded worlds: a server chain of real raw transactions (fund / spend wallet outputs; outputs to wallet addresses within the gap '
      'incl. exactly the last watched index, kinds pay/claim/support; third-party outputs of 15 script kinds incl. unparseable ones; confirmed or mempool, '
      'mempool later mined) grows WHILE a real Ledger / sqlite Database / Account syncs through a fake network under the deterministic loop; the driver '
      'chooses the notification order, starves single network replies, and picks which reply or database job completes next. Every quiescent point is '
      'judged by TLC against WalletSyncTrace.tla: no sync failure, stored history = server history for every address, account.get_utxos() = exactly the '
      'unspent pay outputs to wallet addresses computed in TLA+ from the logged chain, balance = their sum, claims/supports reported apart, gap maintained.',
      'Trusted: the server is the driver\'s own (its per-address histories are the truth); a notification carries the status current at delivery; a handful '
      'of transactions per address (<= 100); amounts below 2^31; headers not validated here (C07/C08).',
      'TLC exhaustive model of update_history interleavings + TLC-judged quiescent points of real wallet sync runs', 'DESIGN.md 5/C09')

check('C13', 'specs/WalletCrypt.tla + specs/WalletCryptTrace.tla + specs/AtomicSave.tla + specs/AtomicSaveTrace.tla + harness/c13_wallet.py',
      'TLC explores every API history (encrypt / lock / unlock / decrypt / save / reload / pack / unpack / add account) of a symbolic-encryption model of '
      'the wallet (<=3 accounts of all kinds, 2-3 passwords, 7-10 calls; also imported accounts with mixed ciphertexts) and checks the round trip, '
      'refusal-without-change and no-plaintext-in-the-written-file clauses, with reachability witnesses. TLC-generated behaviours and seeded random '
      'histories are executed on the real Wallet/Account/WalletStorage objects, each unlock preceded by ~100-250 random and near-miss wrong passwords; TLC '
      'validates every recorded observation (independently decrypted fields, byte scan of the wallet file, keys/addresses compared with the originals) '
      'against the same clauses while the model runs alongside (drift reported). A generic file-system model with crashes before and within every '
      'operation accepts the temp-file/flush/fsync/rename protocol and rejects seven non-atomic ones (negative controls); every real save is recorded by a '
      'process-wide shim around open/os.*, judged by that model in every crash outcome of every prefix, and each crash state is materialised on disk and '
      're-read by the real loader.',
      'AES/SHA-256/scrypt treated as perfect; a stored string is classified by an independent AES-CBC decryption under the history\'s passwords. A crash '
      'means process death (flushed data survives, any part of user-space buffers may survive); power loss is modelled but only reported. Rename within a '
      'directory assumed atomic; the Windows remove+rename fallback is shown non-atomic in the model only. Refusal is vacuous for watch-only accounts and '
      'for unlock on an unlocked wallet. Wallet merge / sync-apply not covered.',
      'TLC exhaustive models (symbolic crypto; generic crash file-system) + behaviours replayed on the real wallet + TLC trace validation of observations and recorded file-system operations',
      'DESIGN.md 5/C13')

check('C07', 'specs/Headers.tla + specs/HeadersTrace.tla + harness/c07_headers.py',
      'TLC explores every history of connect, close, crash cut, damage, open and chunk fetch in Headers.tla (scaled: stride 3, chunk 4, chains of at most 9 '
      'headers, one fork, every flaw, cut and damage class; 377 k states quick, 3.7 M thorough) and proves every clause of the property for the '
      'transcription of header.py with its four repairs, and produces a counterexample as soon as any one repair is switched off (code-as-found negative '
      'controls). 150 TLC -simulate behaviours with the real constants are replayed 1:1 on the real Headers object (drift reported). About 1350 histories '
      'run on the real Headers object over real files with real mined 112-byte headers (chains of 1000-1100 headers over a synthetic checkpoint table): '
      'every residue of the repair stride, every cut class, damage at every position class x every header field, forks, flawed batches (wrong prev / '
      'bits / insufficient PoW), split deliveries, checkpointed chunk fetches and a rounding-gap header; each history is judged by TLC (HeadersTrace.tla) '
      'clause by clause on the observed chain, the per-header truth (links, demanded bits, meets target) supplied by the driver\'s own integer '
      'implementation of the LBRY consensus rules.',
      'Trusted: the driver\'s transcription of lbrycrd\'s retarget, compact and PoW-hash rules (it accepts the 20 main-net headers shipped in the upstream '
      'test module). Easy max_target 2^248-1 and the driver\'s own genesis set through instance attributes. Damage = an overwrite after which the header no '
      'longer validates where it stands; a crash leaves a prefix of the file. Ledger.update_headers (the reorganisation driver) is not exercised.',
      'TLA+/TLC exhaustive model with switchable code-as-found transcription + 1:1 replay of simulated behaviours + TLC trace validation of real executions with mined headers',
      'DESIGN.md 5/C07')

check('C12', 'specs/DhtLookup.tla + specs/DhtStore.tla + specs/DhtPaging.tla + specs/MCDhtPaging.tla + specs/DhtTrace.tla + harness/c12_dht.py',
      'TLC exhaustively checks an iterative-lookup model (every reply kind - contacts, value pages with inflated page counts, malformed, error, silence - '
      'at every probe, <=6 remote nodes) for progress, rpc_timeout-bounded termination, probe-once-per-page and output validity (NodeResultsRepliedOnly, '
      'NeverSelf, ValueResultsWellFormed), with negative controls and the unbounded-paging behaviour of the code as found as a counterexample; a network '
      'model (XOR metric, k-buckets, join through a bootstrap node, store with token, duplicated and late stores, expiry at exactly 24 h) for Hit / '
      'NoHitAfter / StoredAtClosest over every saturated routing-table assignment; and the findValue page arithmetic for every n <= 100 with K = 8 (formula '
      'as found refuted at exactly 89, 97, 98). The same clauses are then judged by TLC (DhtTrace.tla) on records of 2..40 real Node objects running in '
      'one process on a driver-controlled datagram network under the deterministic loop: paging 1..100 announcers on one real node (real store datagrams, '
      'real IterativeValueFinder), every entry of a 42-item hostile-reply catalogue with dead nodes and loss, and value lookups from every other node '
      'fresh, 30 s before, 1/1024 s before, exactly at and 400 s after 24 h.',
      'UDP replaced by an in-process network (delay <= 0.2 s, duplication, reordering; loss only in the termination part), virtual time. Hit guarantee '
      'judged after a 4000 s warm-up (12000 s for N > 12); exact-closest storage only once every node knows its 8 nearest. Models use K = 2, ALPHA = 2 and '
      'treat a probe\'s end and its callback as one step; no stepwise conformance of the real finder against the model. A value lookup is judged '
      'non-terminating after 400 findValue requests to one peer.',
      'TLA+/TLC exhaustive protocol models + TLC-judged traces of real DHT nodes on a deterministic fault-injecting network', 'DESIGN.md 5/C12')

NOT_YET = 'check not built yet in this round (design in DESIGN.md section 5); will be claimed once its driver exists'
ALL = [f'C{i:02d}' for i in range(1, 21)]

manifest = {
    'version': 1,
    'setup_cmd': 'cd /verif && ./setup.sh',
    'hooks': {
        'guard': GUARD,
        'enable': f'checks export {GUARD}=1 (./check does); no hook is currently compiled into /repo - the drivers observe '
                  'through public API/state under a deterministic event loop (DESIGN 9)',
        'baseline_off_cmd': f'cd /repo && env -u {GUARD} /venv/bin/python -m pytest -ra -q -p no:cacheprovider --timeout=900 '
                            '--continue-on-collection-errors',
        'source_commits': [],
        'add_only': True,
    },
    'engines': [],
    'checks': [],
    'not_applicable': [],
    'notes': 'All checks: ./check <id> --tier quick|thorough. Exit 0 held / 1 violation / 2 machinery failure. '
             'Genuine defects repaired in /repo are "fix:" commits listed in known_findings.json (status fixed; 31 of them); no '
             'known finding is left on a listed property. Beyond the 20 listed properties the specification covers twelve more '
             'components (growth checks ./check G01..G12, statements in growth.jsonl, DESIGN 0.7; their findings are recorded as '
             'known under G0x and are not part of this manifest). seeded/ (144 independent property-breaking changes) and benign/ '
             '(independent property-preserving changes) with tools/seed_matrix.py are the regression suite of the checks.',
}
for pid in ALL:
    c = CHECKS.get(pid)
    if not c:
        manifest['not_applicable'].append({'property_id': pid, 'reason': NOT_YET})
        continue
    manifest['engines'].append({'name': c['engine'], 'path': c['engine'].split(' + ')[0], 'serves_properties': [pid],
                                'kind_free_text': c['technique']})
    manifest['checks'].append({
        'property_id': pid,
        'quick_cmd': f'./check {pid} --tier quick',
        'thorough_cmd': f'./check {pid} --tier thorough',
        'evidence_file': f'/verif/evidence/{pid}.json',
        'replay_cmd_template': f'./check {pid} --replay {{path}}',
        'engine': c['engine'],
        'level_claimed': {'category': c['category'], 'text': c['text'], 'design_ref': c['ref']},
        'level_note': c['note'],
        'technique': c['technique'],
    })
if not manifest['not_applicable']:
    del manifest['not_applicable']
with open(os.path.join(HERE, 'MANIFEST.json'), 'w') as f:
    json.dump(manifest, f, indent=1)
try:
    import jsonschema
    jsonschema.validate(manifest, json.load(open('/root/.vp/MANIFEST.schema.json')))
    print('MANIFEST.json valid,', len(manifest['checks']), 'checks')
except ImportError:
    print('jsonschema unavailable; not validated')
