#!/usr/bin/env python3
"""tools/try_mutant.py <PROP> <file-relative-to-repo> <old> <new> [--tier quick]
Applies a textual mutant to a scratch worktree of /repo (never /repo itself), runs ./check <PROP> against it with
VERIF_EVIDENCE redirected, prints the exit code and the violation summary, removes the worktree."""
import os
import subprocess
import sys
import tempfile

prop, rel, old, new = sys.argv[1:5]
wt = tempfile.mkdtemp(prefix='wt-mut-')
os.rmdir(wt)
subprocess.run(['git', '-C', '/repo', 'worktree', 'add', '--detach', wt, 'HEAD'], check=True, capture_output=True)
try:
    p = os.path.join(wt, rel)
    s = open(p).read()
    if old not in s:
        print('MUTANT-NOT-APPLICABLE: pattern not found')
        sys.exit(3)
    open(p, 'w').write(s.replace(old, new, 1))
    env = dict(os.environ, VERIF_REPO=wt, VERIF_EVIDENCE_DIR=os.path.join(wt, '.evidence'))
    r = subprocess.run(['/verif/check', prop] + sys.argv[5:], env=env, capture_output=True, text=True)
    lines = [ln for ln in r.stdout.splitlines() if ln.startswith(('VIOLATION', '  violations[', 'KNOWN', 'MACHINERY', prop))]
    print('\n'.join(lines[:3] + lines[-6:]))
    print('exit', r.returncode)
    if r.returncode == 2:
        print(r.stdout[-1500:], r.stderr[-1500:])
finally:
    subprocess.run(['git', '-C', '/repo', 'worktree', 'remove', '--force', wt], capture_output=True)
