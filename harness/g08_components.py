"""G08 (growth) -- daemon components start only after what they depend on and stop in reverse.

Specification: specs/Components.tla (ComponentManager.sort_components / start / stop and Component._setup / _stop
transcribed; skip set and depends_on relation are initial states; deviations D1-D6 in its header) and
specs/ComponentsTrace.tla.

Leg A   TLC, exhaustive: as-found model over EVERY (skipped set, depends_on relation) of 3 (quick) / 3 and 4 (thorough)
        registered components incl. cyclic and dangling ones, plus every acyclic relation up to renaming of 4 / 4 and 5
        components; all clauses that hold as found; witnesses; the statement clauses the code breaks (D1, D2, D4) shown
        violated as found and holding in the reference model (ABORTS, CANCELS); three negative controls.
Leg B   (i) every (skipped set, relation) TLC enumerates, with the stages or the rejection computed in TLA+, is handed
        to the real ComponentManager (fake Component subclasses registered through the real metaclass, skip_components,
        override kwargs): sort_components() / sort_components(reverse=True) must return exactly those stages or raise.
        (ii) TLC -simulate behaviours (start / a start returns or raises / start-up cancelled / stop / a stop returns or
        raises) are replayed event by event on the real manager under DetLoop: the driver resolves the futures the
        fake start()/stop() coroutines wait on in the order TLC chose; after every event the real state (who is
        starting / running / stopping, how start() and stop() stand, `started`) must equal the TLC state.
Leg C   the recordings of those runs, one driver-scheduled run for every accepted relation of (i), rejected relations
        and runs over the daemon's REAL dependency relation (read from lbry/extras/daemon/components.py) are judged by
        TLC in ComponentsTrace: every clause on what the real manager did, the observers against the model's functions,
        drift of the transcription, and FLAG lines for D1 / D2 (reported as findings).
"""
import ast
import asyncio
import os
import re
from concurrent.futures import ThreadPoolExecutor

from . import tlc
from .common import MachineryError, watchdog, REPO

AS_FOUND = dict(ABORTS=False, CANCELS=False, FORWARD=True, REVERSE=True, EAGER=False)
HOLD = ['TypeOK', 'StagesLaw', 'StartsAfterDeps', 'StopsBeforeDeps', 'RejectsCyclic', 'ConcurrentStage', 'StartsOnlyStopped',
        'StartOrder', 'StopsOnlyStarted', 'StopStage', 'ReverseOrder', 'StartedOnlyAtEnd', 'NothingWhenRejected',
        'WaitsForBatch', 'AllRunningIff', 'GetKnown']
STATEMENT = ['FailureStopsAll', 'NoStartOnFailedDep', 'StopLeavesNothing', 'StopsBeforeDepsStrict']   # broken as found (D1, D2)
WITNESSES = ['Rejected', 'RejectedStop', 'AllUp', 'DeepChain', 'WideStage', 'FailedDone', 'DepOnFailed', 'Cancelled',
             'LateRunning', 'StopFailed', 'StoppedAll', 'Restart', 'StopWhileDependentLate', 'Skipped']
ACTIONS = ['CallStart', 'CancelStart', 'CallStop', 'EndStarts', 'FailStarts', 'EndStops', 'FailStops']
TRACE_INVS = ['TypeOK', 'StartsAfterDeps', 'StopsBeforeDeps', 'RejectsCyclic', 'ConcurrentStage', 'StartsOnlyStopped',
              'StartOrder', 'StopsOnlyStarted', 'StopStage', 'ReverseOrder', 'StartedOnlyAtEnd', 'NothingWhenRejected',
              'StatusExact', 'HasKnownT', 'GetKnownT', 'AllRunningT']
KEY_D1 = 'failed-component-start-does-not-stop-startup'
KEY_D2 = 'cancelled-startup-leaves-starting-component-running-after-stop'
NAMES = ['a', 'b', 'c', 'd', 'e']
UNKNOWN = 'zz'


def consts(n, maxcalls, **sw):
    c = {'Comps': set(NAMES[:n]), 'MAXCALLS': maxcalls}
    c.update(AS_FOUND)
    c.update(sw)
    return c


# ------------------------------------------------------------------------------------------------ Leg A
def leg_a_jobs(ctx):
    """(label, callable) pairs; run in threads beside the real-code legs"""
    jobs = []

    def exhaustive(spec, n, maxcalls, label):
        def job():
            res = tlc.run('Components', tlc.make_cfg(spec=spec, constants=consts(n, maxcalls), invariants=HOLD), ctx,
                          workers=8 if ctx.thorough else 4, timeout=1500, label=label)
            if res.violated:
                return res, ('model:' + res.violated[0], f'as-found model: invariant {res.violated[0]} violated ({label})')
            tlc.require_coverage(res, ACTIONS, label)
            return res, None
        return (f'as found, {spec}, {n} components, <= {maxcalls} calls: {len(HOLD)} invariants', job)

    if ctx.thorough:
        jobs.append(exhaustive('Spec', 4, 2, 'Components-all4'))            # every relation of 4 components
        jobs.append(exhaustive('SpecCanon', 5, 2, 'Components-canon5'))     # every acyclic relation of 5, up to renaming
        jobs.append(exhaustive('SpecCanon', 4, 3, 'Components-canon4'))     # three calls (start / stop / start again ...)
        jobs.append(exhaustive('Spec', 3, 3, 'Components-all3'))
    else:
        jobs.append(exhaustive('Spec', 3, 3, 'Components-all3'))
        jobs.append(exhaustive('SpecCanon', 4, 2, 'Components-canon4'))

    def marks():
        cfg = tlc.make_cfg(spec='Spec', constants=consts(3, 2), constraint='Marks', postcondition='ReportMarks')
        res = tlc.run('Components', cfg, ctx, workers=1, coverage=False, timeout=900, label='Components-marks')
        got = dict(re.findall(r'<<"WITNESS", "(\w+)", (TRUE|FALSE)>>', res.out))
        missing = [w for w in WITNESSES if got.get(w) != 'TRUE']
        if missing:
            raise MachineryError(f'witnesses not reached (clauses may hold vacuously): {missing}')
        return res, None
    jobs.append(('witnesses (one run, registers)', marks))

    def broken(inv):
        def job():
            res = tlc.run('Components', tlc.make_cfg(spec='SpecCanon', constants=consts(3, 2), invariants=[inv]), ctx,
                          workers=2, coverage=False, timeout=600, label='found-' + inv)
            if inv not in res.violated:
                raise MachineryError(f'statement clause {inv} is NOT violated by the as-found model: the model no longer shows D1/D2/D4')
            return res, None
        return (f'as found: statement clause {inv} must be violated', job)
    for inv in STATEMENT + ['GetOnlyRunning']:
        jobs.append(broken(inv))

    def reference():
        res = tlc.run('Components', tlc.make_cfg(spec='Spec', constants=consts(3, 3, ABORTS=True, CANCELS=True),
                                                 invariants=HOLD + STATEMENT), ctx,
                      workers=4, timeout=900, label='Components-reference')
        if res.violated:
            raise MachineryError(f'reference model (failure stops everything, cancel cancels) violates {res.violated}: '
                                 f'the statement clauses are not satisfiable as written')
        return res, None
    jobs.append(('reference model ABORTS+CANCELS: as-found clauses + statement clauses hold', reference))

    def control(sw, inv):
        def job():
            res = tlc.run('Components', tlc.make_cfg(spec='SpecCanon', constants=consts(3, 2, **sw), invariants=[inv]), ctx,
                          workers=2, coverage=False, timeout=600, label='nc-' + '-'.join(sw))
            if inv not in res.violated:
                raise MachineryError(f'negative control {sw} not caught by {inv}')
            return res, None
        return (f'negative control {sw}: {inv} must be violated', job)
    jobs.append(control({'FORWARD': False}, 'StartsAfterDeps'))
    jobs.append(control({'REVERSE': False}, 'StopsBeforeDeps'))
    jobs.append(control({'EAGER': True}, 'StartsAfterDeps'))
    return jobs


# ------------------------------------------------------------------------------------------------ the real manager
class StartError(Exception):
    pass


class StopError(Exception):
    pass


class World:
    """one real ComponentManager over fake components; the driver resolves the futures start()/stop() wait on"""
    _conf = None
    _pm = None

    def __init__(self, registered, skipped, deps, override=()):
        import lbry.wallet  # noqa: F401  (before lbry.conf)
        from lbry.conf import Config
        from lbry.extras.daemon.componentmanager import ComponentManager
        from lbry.extras.daemon.component import Component
        from lbry.dht.peer import PeerManager
        from .detloop import DetLoop
        self.loop = DetLoop()
        self.registered = list(registered)
        self.present = [n for n in registered if n not in skipped]
        self.deps = {n: list(deps.get(n, ())) for n in registered}
        self.log = []            # (kind, name) as the fake coroutines run
        self.sfut, self.pfut = {}, {}
        self.start_task = self.stop_task = None
        self.calls = 0
        registry = ComponentManager.default_component_classes
        saved = dict(registry)
        registry.clear()
        try:
            kw = {}
            for name in registered:
                fake = _fake_class(Component, name, self.deps[name])
                if name in override:
                    # the registry holds a class that must never be instantiated; the manager gets the fake through the
                    # override keyword, as Daemon / the tests replace component classes
                    registry[name] = _poison_class(Component, name)
                    kw[name] = fake
                else:
                    registry[name] = fake
            with self.loop:
                if World._conf is None:
                    World._conf = Config()
                    World._pm = PeerManager(self.loop)
                with watchdog(20):
                    self.m = ComponentManager(World._conf, skip_components=list(skipped), peer_manager=World._pm, **kw)
            self.m.g08_world = self
        finally:
            registry.clear()
            registry.update(saved)

    # ---- driver moves
    def _drain(self):
        with watchdog(20):
            self.loop.drain(timers=False, jobs=False, limit=100000)

    def do(self, op, c=''):
        mark = len(self.log)
        if op == 'start':
            self.start_task = self.loop.spawn(self.m.start())
            self.stop_task = None
            self.calls += 1
        elif op == 'stop':
            self.stop_task = self.loop.spawn(self.m.stop())
            self.calls += 1
        elif op == 'cancel':
            self.start_task.cancel()
        elif op == 'es':
            self.sfut.pop(c).set_result(None)
        elif op == 'fs':
            self.sfut.pop(c).set_exception(StartError(c))
        elif op == 'ep':
            self.pfut.pop(c).set_result(None)
        elif op == 'fp':
            self.pfut.pop(c).set_exception(StopError(c))
        else:
            raise MachineryError(f'unknown op {op}')
        self._drain()
        new = self.log[mark:]
        for kind, n in new:
            if kind == 'cs':
                self.sfut.pop(n, None)
            elif kind == 'cp':
                self.pfut.pop(n, None)
        return {'op': op, 'c': c,
                'began': sorted(n for k, n in new if k == 'bs'), 'pbegan': sorted(n for k, n in new if k == 'bp'),
                'cancelled': sorted(n for k, n in new if k == 'cs'),
                'sres': self.task_state(self.start_task), 'pres': self.task_state(self.stop_task),
                'started': bool(self.m.started.is_set())}

    @staticmethod
    def task_state(t):
        from lbry.error import ComponentStartConditionNotMetError
        if t is None:
            return 'none'
        if not t.done():
            return 'wait'
        if t.cancelled():
            return 'cancelled'
        e = t.exception()
        if e is None:
            return 'done'
        if isinstance(e, ComponentStartConditionNotMetError):
            return 'rejected'
        return 'failed'

    # ---- observation through the public API
    def cst(self):
        out = {}
        status = self.m.get_components_status()
        for n in self.registered:
            if n in self.sfut:
                out[n] = 'starting'
            elif n in self.pfut:
                out[n] = 'stopping'
            else:
                out[n] = 'on' if status.get(n) else 'off'
        return out

    def observers(self, rng):
        m = self.m
        with watchdog(20):
            status = {str(k): bool(v) for k, v in m.get_components_status().items()}
            names = self.registered + [UNKNOWN]
            has = {n: bool(m.has_component(n)) for n in names}
            get = {}
            for n in names:
                try:
                    got = m.get_component(n)
                    get[n] = 'ok' if getattr(got, 'fake_name', None) == n else 'wrong-object'
                except NameError:
                    get[n] = 'NameError'
            qs = [[], list(self.present), [rng.choice(names)], [rng.choice(names), rng.choice(names)],
                  rng.sample(names, min(3, len(names)))]
            arq = []
            for q in qs:
                try:
                    r = 'T' if m.all_components_running(*q) else 'F'
                except NameError:
                    r = 'NameError'
                arq.append({'q': q, 'r': r})
        return {'status': status, 'has': has, 'get': get, 'arq': arq}

    def legal_moves(self, maxcalls):
        s, p = self.task_state(self.start_task), self.task_state(self.stop_task)
        mv = []
        quiet = not self.sfut and not self.pfut
        if s != 'wait' and p != 'wait' and quiet and self.calls < maxcalls:
            mv.append(('start', ''))
        if s == 'wait':
            mv.append(('cancel', ''))
        if s != 'wait' and p != 'wait' and not self.pfut and self.calls < maxcalls:
            mv.append(('stop', ''))
        for n in sorted(self.sfut):
            mv += [('es', n), ('fs', n)]
        for n in sorted(self.pfut):
            mv += [('ep', n), ('fp', n)]
        return mv

    def header(self):
        return {'present': list(self.present), 'deps': {n: self.deps[n] for n in self.present}}


_CLASSES = {}


def _fake_class(Component, name, deps):
    """Component subclasses are created through the real metaclass (which registers them); one class per
    (name, depends_on), the world it reports to is found through the manager that instantiated it"""
    key = (name, tuple(deps))
    if key in _CLASSES:
        return _CLASSES[key]

    class Fake(Component):
        component_name = name
        depends_on = list(deps)
        fake_name = name

        @property
        def component(self):
            return self

        async def start(self):
            world = self.component_manager.g08_world
            world.log.append(('bs', name))
            fut = world.loop.create_future()
            world.sfut[name] = fut
            try:
                await fut
            except asyncio.CancelledError:
                world.log.append(('cs', name))
                raise

        async def stop(self):
            world = self.component_manager.g08_world
            world.log.append(('bp', name))
            fut = world.loop.create_future()
            world.pfut[name] = fut
            try:
                await fut
            except asyncio.CancelledError:
                world.log.append(('cp', name))
                raise
    Fake.__name__ = Fake.__qualname__ = 'Fake_' + name
    _CLASSES[key] = Fake
    return Fake


def _poison_class(Component, name):
    if ('poison', name) in _CLASSES:
        return _CLASSES[('poison', name)]

    class Poison(Component):
        component_name = name
        depends_on = ['never-' + name]

        def __init__(self, manager):
            raise MachineryError(f'the registered default class of {name!r} was instantiated although an override was given')
    _CLASSES[('poison', name)] = Poison
    return Poison


# ------------------------------------------------------------------------------------------------ Leg B (i): stages
def emit_stages(ctx, n):
    cfg = tlc.make_cfg(init_next=('Init', 'NoNext'), constants=consts(n, 1), constraint='EmitStages')
    res = tlc.run('Components', cfg, ctx, workers=1, coverage=False, timeout=900, label=f'Components-emit{n}')
    cases = tlc.printed_json(res, 'CASE')
    expect = 17 ** n       # sum over skipped sets of 2^(n*k) relations = (1 + 2^n)^n
    if len(cases) != expect:
        raise MachineryError(f'stage emission n={n}: {len(cases)} cases, expected {expect}\n{res.out[-1500:]}')
    return res, cases


def stage_cases(ctx, n, cases):
    from lbry.error import ComponentStartConditionNotMetError
    reg = NAMES[:n]
    nacc = nrej = 0
    for i, c in enumerate(cases):
        present = c['present']
        deps = c['deps'] if isinstance(c['deps'], dict) else {}
        skipped = [x for x in reg if x not in present]
        w = World(reg, skipped, deps, override=reg[i % 3::3] if i % 5 == 0 else ())
        got = []
        for rev in (False, True):
            try:
                with watchdog(20):
                    st = w.m.sort_components(reverse=rev)
                got.append([[x.component_name for x in stage] for stage in st])
            except ComponentStartConditionNotMetError:
                got.append(None)
        ctx.count(('stages', n, i), nontrivial=len(present) >= 2)
        want = [sorted(s) for s in c['seq']] if c['ok'] else None
        rec = {'registered': reg, 'skipped': skipped, 'depends_on': deps, 'spec': want, 'sort_components': got[0],
               'sort_components_reverse': got[1]}
        if c['ok']:
            nacc += 1
            if got[0] is None or got[1] is None:
                ctx.violation('acyclic-relation-rejected', f'sort_components raised for an acyclic, closed relation {deps}', rec)
            elif got[0] != want or got[1] != want[::-1]:
                ctx.violation('sort-components-stages-differ', f'stages {got[0]} / reversed {got[1]}, specification {want}', rec)
        else:
            nrej += 1
            if got[0] is not None or got[1] is not None:
                ctx.violation('cyclic-or-dangling-relation-not-rejected',
                              f'sort_components returned {got[0]} for {deps} (present {present})', rec)
        if set(w.m.get_components_status()) != set(present):
            ctx.violation('skip-components-not-honoured', f'instantiated {sorted(w.m.get_components_status())}, expected {present}', rec)
        if i in (0, len(cases) // 2, len(cases) - 1):
            ctx.sample(rec)
    return nacc, nrej


def ctor_cases(ctx):
    """the constructor's contract around override keywords (outside the model: a driver-level sanity leg)"""
    from lbry.extras.daemon.componentmanager import ComponentManager
    w = World(['a', 'b'], [], {'b': ['a']}, override=['a', 'b'])
    ok = sorted(w.m.get_components_status()) == ['a', 'b'] and w.m.get_component('a').fake_name == 'a'
    # overriding a skipped component is accepted silently, an unknown keyword is refused
    w2 = World(['a', 'b'], ['b'], {}, override=['b'])
    ok = ok and sorted(w2.m.get_components_status()) == ['a']
    registry = ComponentManager.default_component_classes
    saved = dict(registry)
    try:
        registry.clear()
        try:
            with w.loop:
                ComponentManager(World._conf, peer_manager=World._pm, nosuch=object)
            refused = False
        except SyntaxError:
            refused = True
    finally:
        registry.clear()
        registry.update(saved)
    ctx.count(('ctor', 'override'), nontrivial=True, n=3)
    if not ok:
        ctx.violation('override-class-not-used', 'a component class given by keyword was not the one instantiated', None)
    if not refused:
        ctx.violation('unknown-override-accepted', 'ComponentManager(nosuch=...) did not raise', None)
    ctx.leg('ctor', override_used=ok, unknown_override_refused=refused)


# ------------------------------------------------------------------------------------------------ Leg B (ii): behaviours
def _set(v):
    return set(v['$set']) if isinstance(v, dict) and '$set' in v else set(v or [])


def _fn(v):
    if isinstance(v, dict) and '$fn' in v:
        return v['$fn']
    return v if isinstance(v, dict) else {}


def classify_step(prev, cur, action):
    """which event took the model from prev to cur (the component is read off the state change)"""
    if action == 'CallStart':
        return 'start', ''
    if action == 'CallStop':
        return 'stop', ''
    if action == 'CancelStart':
        return 'cancel', ''
    a, b = _fn(prev['cst']), _fn(cur['cst'])
    want = {'EndStarts': ('starting', 'on', 'es'), 'FailStarts': ('starting', 'off', 'fs'),
            'EndStops': ('stopping', 'off', 'ep'), 'FailStops': ('stopping', 'on', 'fp')}[action]
    cands = [n for n in a if a[n] == want[0] and b[n] == want[1]]
    if not cands:
        # a failed start whose component is restarted in the same instant cannot happen (stages ascend); a failed stop
        # leaves "on": unambiguous as well
        raise MachineryError(f'cannot read the component of {action} off the states {a} -> {b}')
    if len(cands) > 1:
        raise MachineryError(f'ambiguous {action}: {cands}')
    return want[2], cands[0]


def replay_behaviour(ctx, beh, rng, k):
    s0 = beh[0]['state']
    present = sorted(_set(s0['present']))
    depsf = _fn(s0['deps'])
    reg = sorted(depsf)
    deps = {n: sorted(_set(depsf[n])) for n in reg}
    w = World(reg, [n for n in reg if n not in present], deps, override=present[k % 2::2] if k % 4 == 0 else ())
    trace = dict(w.header(), ev=[], source='tlc-behaviour')
    ok = True
    for i in range(1, len(beh)):
        st = beh[i]['state']
        op, c = classify_step(beh[i - 1]['state'], st, beh[i]['action'])
        if (op, c) not in w.legal_moves(10 ** 6):
            raise MachineryError(f'behaviour {k} step {i}: {op} {c} not possible on the real manager although the states agreed')
        ev = w.do(op, c)
        ev.update(w.observers(rng))
        trace['ev'].append(ev)
        ctx.count(None, nontrivial=False)
        real = w.cst()
        model = {n: _fn(st['cst'])[n] for n in reg}
        diffs = []
        if real != model:
            diffs.append(('components', real, model))
        if ev['sres'] != st['sp']['pc']:
            diffs.append(('start-call', ev['sres'], st['sp']['pc']))
        if ev['pres'] != st['tp']['pc']:
            diffs.append(('stop-call', ev['pres'], st['tp']['pc']))
        if ev['started'] != st['started']:
            diffs.append(('started-event', ev['started'], st['started']))
        if diffs:
            f = diffs[0]
            ctx.violation(f'behaviour-differs-from-model:{op}:{f[0]}',
                          f'after {op} {c} (step {i}) the real manager has {f[0]} = {f[1]}, the model {f[2]}; '
                          f'present {present}, depends_on {deps}',
                          {'present': present, 'depends_on': deps, 'events': [(e["op"], e["c"]) for e in trace['ev']],
                           'differences': diffs})
            ok = False
            break
    return trace, ok


def simulate(ctx, n, num, depth, maxcalls):
    simdir = ctx.mkdir('g08-sim')
    cfg = tlc.make_cfg(spec='SpecAccepted', constants=consts(n, maxcalls), invariants=['TypeOK'])
    res = tlc.run('Components', cfg, ctx, workers=1, simulate=f'file={simdir}/tr,num={num}', depth=depth, seed=ctx.seed + 8,
                  timeout=900, label='Components-sim')
    ctx.add_tlc(res, f'Components -simulate num={num} depth={depth}, {n} components, accepted relations (behaviours for replay)')
    if res.violated:
        ctx.violation('model:' + res.violated[0], 'model invariant violated in simulation', res.error_trace[:4000])
    behs = tlc.parse_simulate_dir(simdir, 'tr')
    if not behs:
        raise MachineryError('no simulated behaviours')
    return behs


# ------------------------------------------------------------------------------------------------ Leg C: driver-scheduled runs
def random_run(ctx, rng, reg, skipped, deps, maxcalls=3, maxlen=40, source='driver-schedule', p_fail=0.12, p_cancel=0.1, override=()):
    w = World(reg, skipped, deps, override=override)
    trace = dict(w.header(), ev=[], source=source)
    for _ in range(maxlen):
        mv = w.legal_moves(maxcalls)
        if not mv:
            break
        weights = []
        for op, _c in mv:
            weights.append({'start': 3.0, 'stop': 1.0, 'cancel': p_cancel * 4, 'es': 2.0, 'ep': 2.0,
                            'fs': 2.0 * p_fail / (1 - p_fail), 'fp': 2.0 * p_fail / (1 - p_fail)}[op])
        op, c = rng.choices(mv, weights)[0]
        ev = w.do(op, c)
        ev.update(w.observers(rng))
        trace['ev'].append(ev)
        ctx.count(None, nontrivial=False)
    return trace


def daemon_graph():
    """component_name / depends_on of every Component subclass in lbry/extras/daemon/components.py, read from the source
    (importing the module needs libtorrent)"""
    path = os.path.join(REPO, 'lbry', 'extras', 'daemon', 'components.py')
    tree = ast.parse(open(path).read())
    const = {}
    for node in tree.body:
        if isinstance(node, ast.Assign) and len(node.targets) == 1 and isinstance(node.targets[0], ast.Name) \
                and isinstance(node.value, ast.Constant) and isinstance(node.value.value, str):
            const[node.targets[0].id] = node.value.value

    def val(x):
        if isinstance(x, ast.Constant):
            return x.value
        if isinstance(x, ast.Name):
            return const[x.id]
        raise MachineryError(f'cannot read {ast.dump(x)} in components.py')
    graph = {}
    for node in tree.body:
        if isinstance(node, ast.ClassDef) and any(isinstance(b, ast.Name) and b.id == 'Component' for b in node.bases):
            name, deps = None, []
            for st in node.body:
                if isinstance(st, ast.Assign) and isinstance(st.targets[0], ast.Name):
                    if st.targets[0].id == 'component_name':
                        name = val(st.value)
                    elif st.targets[0].id == 'depends_on':
                        deps = [val(x) for x in st.value.elts]
            if name:
                graph[name] = deps
    if len(graph) < 8:
        raise MachineryError(f'only {len(graph)} components found in components.py')
    return graph


# ------------------------------------------------------------------------------------------------ trace validation
def validate(ctx, traces, comps, label):
    """tlc.validate_traces plus the FLAG lines of ComponentsTrace"""
    c = {'Comps': set(comps), 'MAXCALLS': 10 ** 6}
    c.update(AS_FOUND)
    cfg = tlc.make_cfg(spec='TSpec', constants=c, invariants=TRACE_INVS, constraint='Reached', postcondition='Report')
    out = []
    chunk = 1500
    for base in range(0, len(traces), chunk):
        part = traces[base:base + chunk]
        path = os.path.join(ctx.mkdir('traces'), f'{label}-{base}.json')
        import json
        with open(path, 'w') as f:
            json.dump([{k: v for k, v in t.items() if k != 'source'} for t in part], f)
        res = tlc.run('ComponentsTrace', cfg, ctx, workers=1, coverage=False, env={'TRACE_FILE': path}, timeout=1500,
                      label=f'{label}-{base}', deque=True, cont=True)
        ctx.add_tlc(res, f'ComponentsTrace [{label} {base}:{base + len(part)}]')
        seen = {}
        for ln in res.printed:
            m = re.match(r'^<<"TRACE", (\d+), "(accepted|rejected)", (-?\d+), (\d+)>>', ln)
            if m:
                seen[int(m.group(1))] = {'tid': base + int(m.group(1)) - 1, 'accepted': m.group(2) == 'accepted',
                                         'matched': int(m.group(3)), 'len': int(m.group(4)), 'invariant': None,
                                         'drift': False, 'flags': {}}
        if len(seen) != len(part):
            raise MachineryError(f'trace validation {label}: {len(seen)} verdicts for {len(part)} traces\n{res.out[-2500:]}')
        for ln in res.printed:
            m = re.match(r'^<<"DRIFT", (\d+)>>', ln)
            if m:
                seen[int(m.group(1))]['drift'] = True
            m = re.match(r'^<<"FLAG", (\d+), "(\w+)", (\d+)>>', ln)
            if m:
                seen[int(m.group(1))]['flags'][m.group(2)] = int(m.group(3))
        if res.violated:
            for blk in re.split(r'Error: Invariant ', res.out)[1:]:
                name = blk.split(' ', 1)[0]
                mt = re.findall(r'/\\ tid = (\d+)', blk)
                if mt and int(mt[-1]) in seen and seen[int(mt[-1])]['invariant'] is None:
                    v = seen[int(mt[-1])]
                    v['invariant'] = name
                    ml = re.findall(r'/\\ l = (\d+)', blk)
                    v['inv_event'] = int(ml[-1]) - 2 if ml else None
                    v['accepted'] = False
        out += [seen[k] for k in sorted(seen)]
    return out


def judge(ctx, traces, verdicts, stats):
    for v in verdicts:
        tr = traces[v['tid']]
        small = {'present': tr['present'], 'depends_on': tr['deps'], 'source': tr['source'],
                 'events': [[e['op'], e['c'], {'began': e['began'], 'stop_began': e['pbegan'], 'start()': e['sres'],
                                               'stop()': e['pres'], 'status': e['status']}] for e in tr['ev']]}
        if v['invariant']:
            k = v.get('inv_event')
            ev = tr['ev'][k] if k is not None and 0 <= k < len(tr['ev']) else {}
            ctx.violation(f"clause-{v['invariant']}", f"clause {v['invariant']} violated by the real manager at event {k} "
                          f"({ev.get('op')} {ev.get('c')}); present {tr['present']}, depends_on {tr['deps']}", small)
        elif not v['accepted']:
            raise MachineryError(f"trace {v['tid']} stopped at event {v['matched']} of {v['len']} without a violated clause")
        if v['drift']:
            stats['drift'] += 1
        if 'D1' in v['flags']:
            stats['D1'] += 1
            i = v['flags']['D1'] - 1
            ctx.violation(KEY_D1, f"a component's start raised ({[e['c'] for e in tr['ev'][:i + 1] if e['op'] == 'fs']}) and start-up "
                          f"went on: after event {i} start() is {tr['ev'][i]['sres']!r}, began {tr['ev'][i]['began']}, nothing "
                          f"stopped; present {tr['present']}, depends_on {tr['deps']}", small)
        if 'D2' in v['flags']:
            stats['D2'] += 1
            i = v['flags']['D2'] - 1
            inflight = set()
            for e in tr['ev'][:i + 1]:
                inflight |= set(e['began'])
                inflight -= set(e['cancelled']) | ({e['c']} if e['op'] in ('es', 'fs') else set())
            ctx.violation(KEY_D2, f"start() cancelled while {sorted(inflight)} was starting; stop() passes it over: after event {i} "
                          f"({tr['ev'][i]['op']} {tr['ev'][i]['c']}) stop() is {tr['ev'][i]['pres']!r}, status {tr['ev'][i]['status']}, "
                          f"start of {sorted(inflight)} still in flight; present {tr['present']}, depends_on {tr['deps']}", small)


# ------------------------------------------------------------------------------------------------ run
def run(ctx):
    pool = ThreadPoolExecutor(max_workers=6 if ctx.thorough else 5)
    futs = [(label, pool.submit(job)) for label, job in leg_a_jobs(ctx)]
    traces = []
    rng = ctx.rng

    # Leg B (i): every relation against sort_components
    nstage = 4
    resE, cases = emit_stages(ctx, nstage)
    ctx.add_tlc(resE, f'Components: emission of every (skipped set, relation) over {nstage} components with its stages')
    nacc, nrej = stage_cases(ctx, nstage, cases)
    ctor_cases(ctx)
    ctx.leg('B-stages', relations=len(cases), accepted=nacc, rejected=nrej)
    if ctx.violations:
        pool.shutdown(wait=True, cancel_futures=True)
        return

    # Leg B (ii): TLC behaviours replayed
    behs = simulate(ctx, 4, 6000 if ctx.thorough else 1200, 40, 3)
    relseen, nsteps, agreed = set(), 0, 0
    for k, beh in enumerate(behs):
        if len(beh) < 2:
            continue
        tr, ok = replay_behaviour(ctx, beh, rng, k)
        relseen.add(repr((tr['present'], tr['deps'])))
        nsteps += len(tr['ev'])
        agreed += ok
        ctx.count(('beh', repr((tr['present'], tr['deps'])), tuple((e['op'], e['c']) for e in tr['ev'])), nontrivial=len(tr['ev']) >= 4)
        traces.append(tr)
        if k < 2:
            ctx.sample({'present': tr['present'], 'depends_on': tr['deps'], 'events': [(e['op'], e['c'], e['began'], e['pbegan']) for e in tr['ev']]})
    ctx.leg('B-behaviours', behaviours=len(behs), steps=nsteps, agreed=agreed, accepted_relations_covered=len(relseen), accepted_relations=nacc)

    # Leg C: one driver-scheduled run per accepted relation, rejected relations, the daemon's own relation
    reg = NAMES[:nstage]
    acc = [c for c in cases if c['ok'] and c['present']]
    rej = [c for c in cases if not c['ok']]
    reps = 3 if ctx.thorough else 1
    for c in acc:
        for _ in range(reps):
            deps = c['deps'] if isinstance(c['deps'], dict) else {}
            tr = random_run(ctx, rng, reg, [x for x in reg if x not in c['present']], deps)
            ctx.count(('run', repr((tr['present'], tr['deps'])), tuple((e['op'], e['c']) for e in tr['ev'])), nontrivial=len(tr['ev']) >= 4)
            traces.append(tr)
    for c in rng.sample(rej, 600 if ctx.thorough else 150):
        deps = c['deps'] if isinstance(c['deps'], dict) else {}
        tr = random_run(ctx, rng, reg, [x for x in reg if x not in c['present']], deps, source='rejected-relation')
        ctx.count(('rej', repr((tr['present'], tr['deps']))), nontrivial=True)
        traces.append(tr)
    graph = daemon_graph()
    gnames = sorted(graph)
    dtraces = []
    for k in range(400 if ctx.thorough else 80):
        skipped = [] if k % 2 == 0 else rng.sample(gnames, rng.choice([1, 1, 2, 3, 5]))
        tr = random_run(ctx, rng, gnames, skipped, graph, maxlen=90, source='daemon-relation', p_fail=0.05, p_cancel=0.04,
                        override=gnames if k % 3 == 0 else ())
        ctx.count(('daemon', tuple(skipped), tuple((e['op'], e['c']) for e in tr['ev'])), nontrivial=True)
        dtraces.append(tr)
    stats = {'drift': 0, 'D1': 0, 'D2': 0}
    v1 = validate(ctx, traces, reg, 'small')
    judge(ctx, traces, v1, stats)
    v2 = validate(ctx, dtraces, gnames, 'daemon')
    judge(ctx, dtraces, v2, stats)
    ctx.cov['traces_validated_against_impl'] += len(traces) + len(dtraces)
    ctx.leg('C', traces=len(traces) + len(dtraces), events=sum(len(t['ev']) for t in traces + dtraces),
            from_tlc_behaviours=len([t for t in traces if t['source'] == 'tlc-behaviour']),
            per_accepted_relation=len(acc) * reps, rejected_relations=len([t for t in traces if t['source'] == 'rejected-relation']),
            daemon_relation=len(dtraces), daemon_components=len(gnames),
            daemon_runs_rejected_by_skipping=len([t for t in dtraces if t['ev'] and t['ev'][0]['sres'] == 'rejected']),
            spec_drift=stats['drift'], flagged_D1=stats['D1'], flagged_D2=stats['D2'])
    if stats['drift']:
        print(f"NOTE: {stats['drift']} real runs differ from the algorithm transcribed in Components.tla (not a violation; "
              f"the clauses were judged on what the manager did)")
    if not stats['D1'] or not stats['D2']:
        print(f"NOTE: deviation no longer observed on the real manager: D1 flagged {stats['D1']}, D2 flagged {stats['D2']} "
              f"(drift towards the statement)")

    # Leg A results
    la = []
    for label, f in futs:
        res, vio = f.result()
        ctx.add_tlc(res, label)
        la.append({'run': label, 'states': res.distinct, 'wall_s': round(res.wall, 1)})
        if vio:
            ctx.violation(vio[0], vio[1], res.error_trace[:6000])
    pool.shutdown()
    ctx.leg('A', runs=la, invariants=HOLD, statement_clauses_broken_as_found=STATEMENT + ['GetOnlyRunning'],
            witnesses_reached=WITNESSES, negative_controls=['FORWARD=FALSE', 'REVERSE=FALSE', 'EAGER=TRUE'])
    ctx.cov['rule'] = ('Leg A: every state of Components.tla for every (skipped set, depends_on relation) of the stated universe, <= 3 '
                       'start()/stop() calls, every interleaving of returning / raising start and stop coroutines and of cancelling the '
                       'start-up. Leg B: every relation of 4 registered components (83521 incl. skipped subsets, cyclic and dangling) '
                       'against sort_components; TLC -simulate behaviours replayed with a state comparison after every event. Leg C: those '
                       'recordings + one (thorough: three) driver-scheduled run per accepted relation + sampled rejected relations + runs '
                       'over the 14-component relation of components.py with random skip sets, judged by ComponentsTrace. Distinct = '
                       'distinct (relation, event sequence); non-trivial = at least 4 events.')
    ctx.assumptions += ['components are fakes whose start()/stop() wait on driver-resolved futures (every start and stop takes at least one loop turn)',
                        'start() is called only when no start or stop coroutine is in flight, stop() only after start() has returned or been '
                        'cancelled (what Daemon.start / Daemon.stop do); overlapping start()/stop() calls are outside the model',
                        'the wallet component that Daemon.stop() stops by hand before ComponentManager.stop() is outside the model']
