"""C08 -- SPV: a transaction is marked verified only with a Merkle proof to its header.

Leg A: specs/Merkle.tla -- Bitcoin's Merkle tree over symbolic leaves (injective pairing, duplicate-last-node rule), the
       code's fold and maybe_verify_transaction transcribed; TLC enumerates every block size n, index i, home height and
       every single mutation of the genuine proof as initial states, checks the laws (Sound, Complete, FoldGenuine,
       NoHeader, ModuloFold and the per-mutation characterisations) and emits every case with the verdict it computed.
Leg B: every emitted case is concretised: real Transaction objects as leaves, an INDEPENDENT double-SHA-256 Merkle tree
       (hashlib, in this file), a real Headers object whose chain (validated by Headers.connect) carries that root at the
       case's height, a real Ledger with a fake network; the real Ledger.maybe_verify_transaction is called three ways
       (proof passed in, proof fetched through network.get_merkle, and through request_transactions -> _single_batch)
       and tx.is_verified / tx.position must equal the specification's verdict."""
import hashlib
import json
import struct

from . import tlc
from .common import MachineryError, Hang, watchdog

INVS = ['Sound', 'Complete', 'FoldGenuine', 'NoHeader', 'ModuloFold', 'LeafRejected', 'LengthRejected',
        'HeightRejected', 'NoMerkleRejected', 'ReplaceIff', 'FlipIff']
KINDS = ['none', 'height', 'replace', 'flip', 'drop', 'dropshift', 'insert', 'leaf', 'nomerkle']
HLEN = 4
PATHS = ('arg', 'net', 'batch')


def dsha(b):
    return hashlib.sha256(hashlib.sha256(b).digest()).digest()


# --------------------------------------------------------------------------------- independent Bitcoin Merkle tree

def merkle_levels(leaves):
    """the PADDED levels of Bitcoin's tree, leaves first; the last level is [root]"""
    levels, cur = [], list(leaves)
    while len(cur) > 1:
        if len(cur) % 2:
            cur = cur + [cur[-1]]
        levels.append(cur)
        cur = [dsha(cur[k] + cur[k + 1]) for k in range(0, len(cur), 2)]
    levels.append(cur)
    return levels


def merkle_branch(levels, index):
    out = []
    for lv in levels[:-1]:
        out.append(lv[index ^ 1])
        index >>= 1
    return out


def fold_reference(branch, pos, leaf):
    """the statement's own wording, written independently: hash the id up the branch, sides chosen by the position"""
    w = leaf
    for k, other in enumerate(branch):
        w = dsha(other + w) if (pos >> k) & 1 else dsha(w + other)
    return w


# --------------------------------------------------------------------------------- real objects

def make_raw_tx(rng):
    """a well-formed one-input one-output transaction with random content (so its id is a random 32-byte value)"""
    rb = lambda k: bytes(rng.getrandbits(8) for _ in range(k))  # noqa: E731
    script = bytes([72]) + rb(72) + bytes([33]) + rb(33)                      # <signature> <pubkey>
    return (struct.pack('<I', 1) + b'\x01' + rb(32) + struct.pack('<I', rng.randrange(4)) + bytes([len(script)]) + script
            + struct.pack('<I', 0xffffffff) + b'\x01' + struct.pack('<Q', rng.randrange(1, 10 ** 12)) + bytes([25])
            + b'\x76\xa9\x14' + rb(20) + b'\x88\xac' + struct.pack('<I', 0))


def alter_tx_byte(raw, rng):
    """flip one bit in a payload byte (previous-output hash, signature, amount low bytes, address hash): still parses"""
    safe = list(range(5, 37)) + list(range(43, 115)) + list(range(116, 149)) + list(range(154, 158)) + list(range(166, 186))
    off = rng.choice(safe)
    b = bytearray(raw)
    b[off] ^= 1 << rng.randrange(8)
    return bytes(b)


def to_segwit(raw, rng):
    """the same transaction in the BIP144 serialisation (marker, flag, one witness stack for its one input): same id, other bytes"""
    item = bytes(rng.getrandbits(8) for _ in range(rng.choice([1, 33, 72])))
    return raw[:4] + b'\x00\x01' + raw[4:-4] + b'\x01' + bytes([len(item)]) + item + raw[-4:]


def flip_bit(b32, byte, rng):
    b = bytearray(b32)
    b[byte] ^= 1 << rng.randrange(8)
    return bytes(b)


def pack_header(prev, root, claim_root, ts, bits, nonce):
    """112-byte LBRY block header, packed independently of Headers.serialize"""
    h = struct.pack('<I', 1) + prev + root + claim_root + struct.pack('<III', ts, bits, nonce)
    assert len(h) == 112
    return h


class _Stream:
    def listen(self, *a, **k):
        pass


class FakeNet:
    """minimal wallet-server client a real Ledger accepts (DESIGN A.10)"""
    on_header = on_status = _Stream()
    is_connected = True

    def __init__(self):
        self.merkle = {}
        self.batch = {}
        self.calls = []

    async def retriable_call(self, f, *a, **k):
        return await f(*a, **k)

    async def get_merkle(self, tx_hash, height):
        self.calls.append(('get_merkle', tx_hash, height))
        return dict(self.merkle)

    async def get_transaction_batch(self, txids, restricted=True):
        self.calls.append(('get_transaction_batch', tuple(txids)))
        return {t: self.batch[t] for t in txids}


class Block:
    """one concrete block of n transactions, its independent tree, and a real local header chain holding its root"""

    def __init__(self, n, blk, real_indices, rng, loop):
        from lbry.wallet import Ledger, Database, Headers, Transaction
        self.Transaction = Transaction
        self.n, self.blk, self.rng, self.loop = n, blk, rng, loop
        self.raws = {j: make_raw_tx(rng) for j in real_indices}
        self.leaves = [dsha(self.raws[j]) if j in self.raws else bytes(rng.getrandbits(8) for _ in range(32)) for j in range(n)]
        self.levels = merkle_levels(self.leaves)
        self.root = self.levels[-1][0]
        self.foreign_nodes = {}
        self.altered = {}
        self.wire = {}            # legacy bytes -> the bytes handed to the wallet (half of the transactions travel in segwit form)
        chain, prev = [], b'\0' * 32
        for h in range(HLEN):
            # the other blocks' roots are NEAR MISSES of this block's root (one bit differs: first, last or a random byte),
            # so a comparison that looks at part of the root only is noticed by the other-height cases
            root = self.root if h == blk else flip_bit(self.root, (0, 31, rng.randrange(1, 31), 16)[h % 4], rng)
            hdr = pack_header(prev, root, bytes(rng.getrandbits(8) for _ in range(32)), 1_600_000_000 + 150 * h, 0x207fffff, rng.getrandbits(32))
            chain.append(hdr)
            prev = dsha(hdr)
        self.chain = b''.join(chain)

        class LocalHeaders(Headers):          # regtest-style: any genesis, no proof of work; links ARE validated by connect()
            validate_difficulty = False
            genesis_hash = None
            checkpoints = {}
        with loop:
            self.headers = LocalHeaders(':memory:')
            self.net = FakeNet()
            self.ledger = Ledger({'db': Database(':memory:'), 'headers': self.headers, 'network': self.net})
        self.headers.checkpoints = {}
        loop.run(self.headers.open(), limit=10_000)
        added = loop.run(self.headers.connect(0, self.chain), limit=10_000)
        if added != HLEN or len(self.headers) != HLEN:
            raise MachineryError(f'could not build the local header chain: connect() stored {added}, len={len(self.headers)}')

    def node(self, d):
        lvl, x = d
        if lvl < 0:
            if x not in self.foreign_nodes:
                self.foreign_nodes[x] = bytes(self.rng.getrandbits(8) for _ in range(32))
            return self.foreign_nodes[x]
        return self.levels[lvl][x]

    def raw_for(self, leaf, i):
        if leaf >= 0:
            return self.raws[leaf]
        if i not in self.altered:
            self.altered[i] = alter_tx_byte(self.raws[i], self.rng)
        return self.altered[i]

    def wire_for(self, raw):
        if raw not in self.wire:
            self.wire[raw] = to_segwit(raw, self.rng) if self.rng.random() < 0.5 else raw
        return self.wire[raw]

    def response(self, case):
        if not case['hasm']:
            return {'block_height': self.blk}
        return {'merkle': [x[::-1].hex() for x in self.branch(case)], 'pos': case['pos'], 'block_height': self.blk}

    def branch(self, case):
        out = [self.node(d) for d in case['branch']]
        if case['kind'] == 'replace' and case['branch'][case['k'] - 1][0] < 0:
            # "altering the branch": the foreign substitute is the genuine element with one bit flipped
            key = ('near', case['k'])
            if key not in self.foreign_nodes:
                lvl = case['k'] - 1
                self.foreign_nodes[key] = flip_bit(self.levels[lvl][(case['i'] >> lvl) ^ 1], self.rng.randrange(32), self.rng)
            out[case['k'] - 1] = self.foreign_nodes[key]
        return out


def call_real(ledger, net, loop, Transaction, raw, hc, resp, path, wire=None, reuse=None):
    """one real evaluation; returns (is_verified, position, height, exception-name).  raw = legacy bytes (they define the id),
    wire = the serialisation handed to the wallet; reuse = a Transaction object that has been through a verification already"""
    net.merkle, net.calls = resp, []
    wire = wire or raw
    try:
        with watchdog(20):
            if reuse is not None:
                tx = reuse
                loop.run(ledger.maybe_verify_transaction(tx, hc, dict(resp)), limit=100_000)
            elif path == 'batch':
                txid = dsha(raw)[::-1].hex()
                net.batch = {txid: (wire.hex(), dict(resp))}

                async def fetch():
                    got = {}
                    async for txs in ledger.request_transactions(((txid, hc),)):
                        got.update(txs)
                    return got
                got = loop.run(fetch(), limit=100_000)
                if set(got) != {txid}:
                    return None, None, None, f'request_transactions returned {sorted(got)} for {txid}'
                tx = got[txid]
            else:
                tx = Transaction(wire)
                loop.run(ledger.maybe_verify_transaction(tx, hc, dict(resp) if path == 'arg' else None), limit=100_000)
    except Hang:
        return None, None, None, 'Hang'
    except Exception as e:  # pylint: disable=broad-except
        return None, None, None, type(e).__name__
    return tx.is_verified, tx.position, tx.height, None


def judge(ctx, case, path, got, make_replay):
    ver, pos, height, exc = got
    kind = case['kind']
    if exc is None and ver is case['verified'] and (not ver or (pos == case['position'] and height == case['height'])):
        if not ver and pos != case['position']:
            # what tx.position holds on a transaction that is NOT verified is not part of the property: spec drift only
            ctx.leg('B', drift_position_of_unverified_tx=1)
        return
    if exc is None and ver is False and kind != 'none' and case['verified']:
        # an ALTERED proof that happens to fold to the same root (position bits above the branch, a right-edge node paired
        # with its own duplicate): the statement asks for altered proofs to fail, so refusing it is right; accepting it is
        # tolerated (fold equality, DESIGN 8).  Only the genuine proof must be accepted.
        ctx.leg('B', altered_fold_equal_proofs_refused=1)
        return
    replay = make_replay()
    if exc is not None:
        ctx.violation(f'raises:{kind}:{exc}', f'maybe_verify_transaction raised {exc} on case {brief(case)} via {path}', replay)
        return
    if ver is not True and ver is not False:
        ctx.violation(f'is_verified-not-bool:{kind}', f'tx.is_verified = {ver!r} on case {brief(case)} via {path}', replay)
        return
    if ver != case['verified']:
        if case['verified']:
            key = 'genuine-proof-rejected' if kind == 'none' else f'fold-equal-proof-rejected:{kind}'
        elif not 0 < case['hc'] < HLEN:
            key = f'verified-without-header:height={"neg" if case["hc"] < 0 else "0" if case["hc"] == 0 else "len+" + str(case["hc"] - HLEN)}'
        else:
            key = f'mutated-proof-accepted:{kind}'
        ctx.violation(key, f'tx.is_verified = {ver}, specification says {case["verified"]} on case {brief(case)} via {path}', replay)
        return
    if pos != case['position']:
        if not 0 < case['hc'] < HLEN:
            ctx.violation(f'position-set-without-header:{kind}', f'tx.position = {pos!r} at claimed height {case["hc"]} with {HLEN} headers on case '
                          f'{brief(case)} via {path}', replay)
            return
        ctx.violation(f'position-wrong:{kind}', f'tx.position = {pos!r}, specification says {case["position"]} on case {brief(case)} via {path}', replay)
        return
    if ver and height != case['height']:
        ctx.violation(f'verified-at-other-height:{kind}', f'tx.height = {height!r} after verification at {case["hc"]} on case {brief(case)} via {path}', replay)


def brief(case):
    return {k: case[k] for k in ('n', 'i', 'blk', 'kind', 'k', 'pos', 'leaf', 'hc', 'hasm')}


# --------------------------------------------------------------------------------- legs

def check_vacuity(cases, nmax):
    """coverage guard for the `A => B` laws of Merkle.tla: every antecedent must occur, both verdicts where an IFF is claimed"""
    import collections
    c = collections.Counter((x['kind'], x['verified']) for x in cases)
    need = [(k, False) for k in KINDS] + [('none', True)]
    if nmax >= 3:
        need += [('flip', True)]
    missing = [x for x in need if not c[x]]
    if missing:
        raise MachineryError(f'vacuous case space: no case with (kind, verified) in {missing}')
    if not any(not 0 < x['hc'] < HLEN for x in cases) or not any(x['hc'] == HLEN for x in cases) or not any(x['hc'] == 0 for x in cases):
        raise MachineryError('vacuous case space: no out-of-range height cases')
    return {f'{k}:{"verified" if v else "rejected"}': nn for (k, v), nn in sorted(c.items())}


def reorg_probe(ctx, b, loop, i, stats):
    """The block at the home height is replaced by another one (a reorganisation connected through Headers.connect) AFTER its
    header has been used: the old genuine proof must stop verifying (its root is no longer the stored one) and a genuine
    proof from the new block must verify -- the header consulted is the one CURRENTLY stored at that height."""
    blk, rng = b.blk, b.rng
    if not 0 < blk < HLEN:
        return
    old_raw = b.raws[i]
    old_resp = {'merkle': [x[::-1].hex() for x in merkle_branch(b.levels, i)], 'pos': i, 'block_height': blk}
    new_raws = [make_raw_tx(rng) for _ in range(rng.choice([1, 2, 3, 5]))]
    levels = merkle_levels([dsha(r) for r in new_raws])
    prev = dsha(b.chain[(blk - 1) * 112:blk * 112])
    chain = []
    for h in range(blk, HLEN):
        root = levels[-1][0] if h == blk else bytes(rng.getrandbits(8) for _ in range(32))
        hdr = pack_header(prev, root, bytes(rng.getrandbits(8) for _ in range(32)), 1_600_000_000 + 150 * h + 7, 0x207fffff, rng.getrandbits(32))
        chain.append(hdr)
        prev = dsha(hdr)
    added = loop.run(b.headers.connect(blk, b''.join(chain)), limit=10_000)
    if added != HLEN - blk or len(b.headers) != HLEN:
        raise MachineryError(f'could not connect the replacing branch: connect() stored {added}, len={len(b.headers)}')
    j = rng.randrange(len(new_raws))
    new_resp = {'merkle': [x[::-1].hex() for x in merkle_branch(levels, j)], 'pos': j, 'block_height': blk}
    for label, raw, resp, want in (('old-proof-after-reorg', old_raw, old_resp, False), ('new-proof-after-reorg', new_raws[j], new_resp, True)):
        got = call_real(b.ledger, b.net, loop, b.Transaction, raw, blk, resp, 'arg')
        stats['evaluations'] = stats.get('evaluations', 0) + 1
        stats['reorg_probes'] = stats.get('reorg_probes', 0) + 1
        ctx.count(('reorg', b.n, i, blk, label), nontrivial=True)
        if got[3] is not None or got[0] is not want:
            ctx.violation('stale-header-used-after-reorg:' + label,
                          f'after the block at height {blk} was replaced, {label}: is_verified={got[0]} raised={got[3]}, expected {want}',
                          {'n': b.n, 'i': i, 'blk': blk, 'label': label, 'raw_tx': raw.hex(), 'response': resp})


def run_shard(ctx, nmin, nmax, leafall, stats):
    from .detloop import DetLoop
    consts = {'NMIN': nmin, 'NMAX': nmax, 'HLEN': HLEN, 'LEAFALL': leafall, 'EMIT': True}
    cfg = tlc.make_cfg(constants=consts, invariants=INVS, constraint='Emit')
    res = tlc.run('Merkle', cfg, ctx, workers=1, coverage=False, timeout=3000, label=f'Merkle-{nmin}-{nmax}')
    ctx.add_tlc(res, f'Merkle exhaustive over the case space {consts} (Leg A laws {INVS} + emission)')
    if res.violated:
        ctx.violation('model:' + ','.join(res.violated), 'specification law violated in the model', res.error_trace[:4000])
        return False
    cases = tlc.printed_json(res, 'CASE')
    res.out, res.printed = '', []
    if len(cases) != res.distinct:
        raise MachineryError(f'emitted {len(cases)} cases but TLC found {res.distinct} distinct states')
    for k, v in check_vacuity(cases, nmax).items():
        stats[k] = stats.get(k, 0) + v
    groups = {}
    for c in cases:
        groups.setdefault((c['n'], c['i'], c['blk']), []).append(c)
    loop = DetLoop()
    rng = ctx.rng
    for (n, i, blk), group in groups.items():
        real = {i} | {c['leaf'] for c in group if c['leaf'] >= 0}
        b = Block(n, blk, real, rng, loop)
        genuine = merkle_branch(b.levels, i)
        for c in group:
            branch = b.branch(c)
            resp = b.response(c)
            raw = b.raw_for(c['leaf'], i)
            # the specification's tree against the independent one (a disagreement is a broken check, not a product defect)
            if c['kind'] == 'none' and branch != genuine:
                raise MachineryError(f'Merkle.tla and the independent tree disagree on the branch of n={n} i={i}')
            if c['hasm']:
                eq = fold_reference(branch, c['pos'], dsha(raw)) == b.root
                if c['hc'] == blk and 0 < blk < HLEN and eq != c['verified']:
                    raise MachineryError(f'symbolic and double-SHA-256 fold disagree on {brief(c)}')
                if c['changed'] and c['verified']:
                    stats['changed_yet_fold_equal'] = stats.get('changed_yet_fold_equal', 0) + 1
                if c['kind'] == 'flip' and c['k'] < len(genuine) and n <= 16:
                    stats['flips_in_branch_n<=16'] = stats.get('flips_in_branch_n<=16', 0) + 1
                    stats['flips_in_branch_n<=16_verified'] = stats.get('flips_in_branch_n<=16_verified', 0) + int(c['verified'])
            wire = b.wire_for(raw)
            for path in PATHS + (('reuse',) if c['leaf'] == i and c['hasm'] and 0 < c['hc'] < HLEN and 0 < blk < HLEN else ()):
                reuse = None
                if path == 'reuse':
                    # the SAME Transaction object, verified genuinely a moment ago, is checked again with this case's height and
                    # proof: a verdict must never survive from the earlier call
                    reuse = b.Transaction(wire)
                    first = call_real(b.ledger, b.net, loop, b.Transaction, raw, blk, {'merkle': [x[::-1].hex() for x in genuine], 'pos': i, 'block_height': blk},
                                      'arg', wire, reuse)
                    if first[0] is not True:
                        continue          # the genuine proof itself is refused: reported by the case of kind "none"
                got = call_real(b.ledger, b.net, loop, b.Transaction, raw, c['hc'], resp, path, wire, reuse)
                stats['evaluations'] = stats.get('evaluations', 0) + 1
                ctx.count(stats['evaluations'], nontrivial=n >= 2)      # TLC states are distinct, so every (case, path) is
                judge(ctx, c, path, got, lambda c=c, path=path, got=got, raw=raw, resp=resp: {
                    'case': c, 'path': path, 'raw_tx': raw.hex(), 'wire_tx': wire.hex(), 'response': resp, 'claimed_height': c['hc'],
                    'genuine_first': {'merkle': [x[::-1].hex() for x in genuine], 'pos': i, 'block_height': blk} if path == 'reuse' else None,
                    'header_chain': b.chain.hex(), 'expected': {'verified': c['verified'], 'position': c['position']},
                    'observed': {'is_verified': got[0], 'position': got[1], 'height': got[2], 'raised': got[3]}})
            if n in (5, 7) and i == n - 1 and blk == 1 + ((n + i) % (HLEN - 1)) and c['kind'] in ('none', 'flip'):
                ctx.sample({'case': brief(c), 'branch': [x[::-1].hex()[:16] + '..' for x in branch], 'txid': dsha(raw)[::-1].hex(),
                            'spec_verified': c['verified'], 'real_is_verified': got[0], 'real_position': got[1]}, cap=8)
        if n <= 9 or (n + i) % 7 == 0:
            reorg_probe(ctx, b, loop, i, stats)
        if loop.exceptions:
            raise MachineryError(f'exceptions escaped into the loop: {loop.exceptions[:2]}')
    ctx.cov['traces_validated_against_impl'] += len(cases)
    stats['cases'] = stats.get('cases', 0) + len(cases)
    stats['blocks_built'] = stats.get('blocks_built', 0) + len(groups)
    return True


def replay_one(ctx):
    """./check C08 --replay <file>: re-run exactly the recorded concrete evaluation on the real code"""
    from lbry.wallet import Ledger, Database, Headers, Transaction
    from .detloop import DetLoop
    with open(ctx.replay) as f:
        r = json.load(f)['replay']
    loop = DetLoop()

    class LocalHeaders(Headers):
        validate_difficulty = False
        genesis_hash = None
        checkpoints = {}
    with loop:
        headers, net = LocalHeaders(':memory:'), FakeNet()
        ledger = Ledger({'db': Database(':memory:'), 'headers': headers, 'network': net})
    headers.checkpoints = {}
    loop.run(headers.open())
    loop.run(headers.connect(0, bytes.fromhex(r['header_chain'])))
    wire = bytes.fromhex(r.get('wire_tx') or r['raw_tx'])
    reuse = None
    if r['path'] == 'reuse':
        reuse = Transaction(wire)
        call_real(ledger, net, loop, Transaction, bytes.fromhex(r['raw_tx']), r['genuine_first']['block_height'], r['genuine_first'], 'arg', wire, reuse)
    got = call_real(ledger, net, loop, Transaction, bytes.fromhex(r['raw_tx']), r['claimed_height'], r['response'], r['path'], wire, reuse)
    ctx.count(('replay', r['path']))
    print(f'replay: observed is_verified={got[0]} position={got[1]} height={got[2]} raised={got[3]}; expected {r["expected"]}', flush=True)
    judge(ctx, r['case'], r['path'], got, lambda: r)


def run(ctx):
    import lbry.wallet  # noqa: F401  (before lbry.conf)
    if ctx.replay:
        replay_one(ctx)
        return
    if ctx.thorough:
        shards = [(1, 16, 16), (17, 32, 32), (33, 44, 16), (45, 54, 16), (55, 64, 16), (127, 129, 0)]
    else:
        shards = [(1, 16, 16), (17, 32, 8)]
    stats = {}
    for (nmin, nmax, leafall) in shards:
        if not run_shard(ctx, nmin, nmax, leafall, stats):
            return
    if stats.get('flips_in_branch_n<=16') != 494 or stats.get('flips_in_branch_n<=16_verified') != 26:
        raise MachineryError(f'flip census for n<=16 differs from the design-round measurement 26/494: {stats}')
    ctx.cov['exhaustive'] = True
    ctx.cov['rule'] = ('every TLC initial state of Merkle.tla is one case: block size n (quick 1..32, thorough 1..64 and 127..129), every '
                       'index i, every home height 0..3 of a 4-header chain with the genuine proof and every claimed height -2..6, and at '
                       'one valid home height every single mutation: each branch element replaced (foreign hash, the node itself, every '
                       'other branch element, for n<=LEAFALL every node of that level), each position bit flipped (incl. two bits above the '
                       'branch), each element dropped (with and without shifting the position), a foreign hash or the node itself inserted '
                       'at every level / appended, another transaction of the block or the transaction with one bit altered, and the '
                       "answer without a 'merkle' key. Each case is evaluated on the real code three ways (arg / net / batch), and, where the "
                       'claimed height has a header, a fourth time on a Transaction object that was verified genuinely just before (reuse); '
                       'half of the transactions are handed over in the segwit serialisation (same id, other bytes). '
                       'Distinct = (case, path); non-trivial = n >= 2.')
    ctx.leg('A', laws=INVS, shards=[dict(NMIN=a, NMAX=b, LEAFALL=c, HLEN=HLEN) for a, b, c in shards])
    ctx.leg('B', **stats)
    ctx.assumptions += [
        'double-SHA-256 is collision free and a transaction id never equals an inner node (the symbolic injective pairing); '
        'the 64-byte-transaction ambiguity of Bitcoin trees is outside the model',
        'mutation => rejection is judged modulo symbolic fold equality (DESIGN 8): position bits above the branch length and '
        'right-edge nodes paired with their own duplicate fold to the same root and are accepted',
        'the local header chain is built through Headers.connect with proof-of-work validation off (regtest style); '
        'header validation itself is C07',
        'a re-used Transaction object is only judged at claimed heights the wallet has a header for (both callers in the product '
        'construct a fresh object; at other heights the unchanged code leaves the object as it was)',
        'claim_proofs.verify_proof (legacy claim-trie checker, no caller in the wallet) is not modelled here',
    ]
