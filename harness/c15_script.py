"""C15 -- script templates: generation and parsing mutually inverse and unambiguous (DESIGN C15).

specs/Script.tla defines the push encoding, the tokeniser, the template table, the matcher (with the code's
quirks named), first-match classification and Generate; TLC enumerates the cases (push lengths at every boundary,
template x value lengths x lock heights, ALL token sequences up to a length bound, every sequence within
1 (2) token edits of an instance of every template, concrete byte strings) and emits each one with the expected
result computed in TLA+.  This driver turns every TLC state into calls of the real code
(Template.generate via OutputScript/InputScript(template=, values=), Script(source).template/.values/.tokens,
the is_* predicates of OutputScript and Output, Database.tx_to_row/txo_to_row without a database) and compares.
A transcription of the specification's tokeniser/matcher in Python (driven by the template table TLC emitted, and
required to agree with TLC on EVERY emitted case) judges seeded random byte strings in addition."""
import hashlib
import os
import random
from concurrent.futures import ThreadPoolExecutor

from . import tlc
from .common import MachineryError, Hang, watchdog

INVS = ['PushMinimal', 'PushReadBack', 'GenRoundTrip', 'GenHeightExact', 'SeqEncodeDecode', 'Aligned',
        'OutUnambiguous', 'OutDeclarative', 'ClaimNeverPayment', 'PaymentNeverClaim', 'InAmbiguityOnlyMultisig']
WITNESSES = ['WitClaimFirst', 'WitClaimClass', 'WitAmbiguous', 'WitGenTL']
CLAIM_OPS = {0xb5: 'claim', 0xb6: 'support', 0xb7: 'update'}
CLAIM_CLASSES = {'claim', 'update', 'support', 'support_data'}
PAY_CLASSES = {'payment', 'script_hash', 'pubkey_full', 'segwit', 'data', 'purchase_data'}
CLAIM_TXO_TYPES = {'stream', 'channel', 'collection', 'repost'}


# ---------------------------------------------------------------- concretisation of the specification's byte streams

def fill(tag, n, salt):
    """payload bytes for an opaque run; never starts with 'P' (the specification's reading of an opaque run)"""
    if n == 0:
        return b''
    if tag == 'pm':       # body of a Purchase message: field 1 (claim hash), 20 bytes
        body = b'\x0a\x14' + hashlib.sha1(f'claim/{salt}'.encode()).digest()
        if len(body) != n:
            raise MachineryError(f'purchase body is {len(body)} bytes, the specification says {n}')
        return body
    # printable ASCII, so that a payload standing where a claim name is expected can be stored by txo_to_row (it decodes names)
    b = bytes(0x21 + x % 94 for x in hashlib.shake_128(f'{tag}/{n}/{salt}'.encode()).digest(n))
    return (b'Q' + b[1:]) if b[0] == 0x50 else b


def concretise(items, salt=0):
    out = bytearray()
    for it in items:
        if len(it) == 1:
            out.append(it[0])
        else:
            out += fill(it[1], it[0], salt)
    return bytes(out)


def limbs_to_int(h):
    return sum(x << (8 * i) for i, x in enumerate(h))


# ---------------------------------------------------------------- transcription of Script.tla (tokeniser, matcher, classes)

class Spec:
    """Tokenise / Parse / Classify / ClassOf of specs/Script.tla over concrete bytes. The template table is the one
    TLC emitted (kind "tpl"); agreement with TLC is checked on every emitted case before it judges anything."""

    def __init__(self, tpls):
        self.by_name = {t['name']: t for t in tpls}
        self.out = [t for t in tpls if t['table'] == 'out']
        self.inp = [t for t in tpls if t['table'] == 'in']
        self.timelock = self.by_name['timelock']
        self.outside = {t['name'] for t in tpls if t['outside']}

    @staticmethod
    def tokens(bs):
        toks, i, n, tr = [], 0, len(bs), False
        while i < n:
            b = bs[i]
            i += 1
            if 1 <= b <= 78:                                   # is_push_data_token
                if b < 76:
                    toks.append(('data', 0, bs[i:i + b]))      # QuirkShortRead
                    tr = tr or i + b > n
                    i += b
                else:
                    w = {76: 1, 77: 2, 78: 4}[b]
                    avail = n - i
                    if avail == 0:
                        toks.append(('data', 0, b''))          # QuirkLengthAtEof
                        tr = True
                    elif avail < w:
                        return 'struct_error', toks, True      # QuirkTruncatedLength
                    else:
                        ln = int.from_bytes(bs[i:i + w], 'little')
                        i += w
                        toks.append(('data', 0, bs[i:i + ln]))
                        tr = tr or i + ln > n
                        i += ln
            elif 81 <= b <= 96:
                toks.append(('int', b - 80, b''))
            else:
                toks.append(('op', b, b''))
        return 'ok', toks, tr

    @staticmethod
    def parse(ops, toks):
        ti = oi = 0
        bind = [''] * len(toks)
        nt, no = len(toks), len(ops)
        while ti < nt and oi < no:
            k, v, _ = toks[ti]
            op = ops[oi]
            as_empty = k == 'op' and v == 0 and op['k'] == 'single'       # QuirkOpZeroOnlyForPushSingle
            if k == 'data' or as_empty:
                if op['k'] in ('single', 'integer', 'sub'):               # QuirkLazySubscript
                    bind[ti] = op['name']
                    ti += 1
                    oi += 1
                elif op['k'] == 'many':
                    dr = 0
                    while ti + dr < nt and toks[ti + dr][0] == 'data':
                        dr += 1
                    pr = 0
                    while oi + pr < no and ops[oi + pr]['k'] in ('single', 'integer', 'many', 'sub'):
                        pr += 1
                    if sum(1 for j in range(oi, oi + pr) if ops[j]['k'] == 'many') > 1 or pr > dr:
                        return None
                    n_many = dr - (pr - 1)                                # QuirkManyNeedsOne
                    for j in range(ti, ti + n_many):
                        bind[j] = op['name']
                    for j in range(ti + n_many, ti + dr):
                        bind[j] = ops[oi + 1 + (j - (ti + n_many))]['name']
                    ti += dr
                    oi += pr
                else:
                    return None
            elif k == 'int':
                if op['k'] != 'smallint':
                    return None
                bind[ti] = op['name']
                ti += 1
                oi += 1
            elif op['k'] == 'op' and op['v'] == v:
                ti += 1
                oi += 1
            else:
                return None
        if ti < nt or oi < no:
            return None
        return bind

    def cands(self, mode):
        return self.out if mode == 'out' else self.inp if mode == 'in' else [self.timelock] + self.inp

    def classify(self, mode, st, toks):
        """-> (template name, bind, set of matching names)"""
        if st != 'ok':
            return 'none', [], set()
        if not toks and mode != 'tl':
            return 'no_script', [], set()
        first, fbind, amb = None, None, set()
        for t in self.cands(mode):
            b = self.parse(t['ops'], toks)
            if b is not None:
                amb.add(t['name'])
                if first is None:
                    first, fbind = t['name'], b
        if first is None:
            return 'none', [''] * len(toks), amb
        return first, fbind, amb

    def class_of(self, name, toks, bind):
        if name in ('none', 'no_script'):
            return name
        t = self.by_name[name]
        pre, lock = t['pre'], t['lock']
        if pre:
            return {'claim_name': 'claim', 'update_claim': 'update', 'support_claim': 'support',
                    'support_claim+data': 'support_data'}[pre]
        if lock == 'return_data':
            for i, f in enumerate(bind):
                if f == 'data' and toks[i][2][:1] == b'P':
                    return 'purchase_data'
            return 'data'
        return 'payment' if lock == 'pubkey_hash' else lock

    def judge(self, mode, bs):
        st, toks, tr = self.tokens(bs)
        name, bind, amb = self.classify(mode, st, toks)
        return {'st': st, 'tr': tr, 'toks': toks, 'name': name, 'bind': bind, 'amb': amb,
                'class': self.class_of(name, toks, bind)}

    def expected_values(self, name, toks, bind):
        if name in ('none', 'no_script'):
            return {}
        kinds = {op['name']: op['k'] for op in self.by_name[name]['ops'] if op['k'] != 'op'}
        vals = {}
        for (k, v, pl), f in zip(toks, bind):
            if not f:
                continue
            fk = kinds[f]
            if fk == 'many':
                vals.setdefault(f, []).append(bytes(pl))
            elif fk == 'integer':
                vals[f] = int.from_bytes(pl, 'little')
            elif fk == 'smallint':
                vals[f] = v
            elif fk == 'sub':
                vals[f] = ('script', bytes(pl))
            else:
                vals[f] = bytes(pl)
        return vals


# ---------------------------------------------------------------- the real code

class Real:
    def __init__(self):
        import lbry.wallet  # noqa: F401  (before lbry.conf)
        from lbry.wallet import script as S
        from lbry.wallet.transaction import Output, Transaction
        from lbry.wallet.database import Database, TXO_TYPES
        from lbry.wallet import Ledger
        self.S, self.Output, self.Transaction = S, Output, Transaction
        self.txo_types = {v: k for k, v in TXO_TYPES.items()}
        self.db = Database(':memory:')        # never opened: tx_to_row / txo_to_row only read self.ledger
        self.db.ledger = Ledger               # hash160_to_address / hash160_to_script_address are classmethods
        self.tpl = {}
        self.real_templates = list(S.OutputScript.templates) + list(S.InputScript.templates) + \
            [S.InputScript.TIME_LOCK_SCRIPT, S.InputScript.MULTI_SIG_SCRIPT]
        for t in self.real_templates:
            self.tpl[t.name] = t
        self.alias = {}           # the code's template name -> the specification's, where they differ (see bind_by_structure)
        self.pay = S.OutputScript.pay_pubkey_hash(b'\x07' * 20)

    def signature(self, t):
        """the opcode pattern of a real template, independent of how the template is called"""
        S = self.S
        kinds = {'PUSH_SINGLE': 'single', 'PUSH_INTEGER': 'integer', 'PUSH_MANY': 'many', 'PUSH_SUBSCRIPT': 'sub', 'SMALL_INTEGER': 'smallint'}
        out = []
        for o in t.opcodes:
            if isinstance(o, int):
                out.append(('op', o))
            else:
                out.append((kinds.get(type(o).__name__, type(o).__name__), o.name))
        return tuple(out)

    def bind_by_structure(self, tpls):
        """The specification identifies a template by its opcode pattern; the NAME is only a label.  A template of the
        specification that the code does not have under the same name is looked up by its pattern, and the code's name
        for it is translated wherever the driver reads `template.name`.  Returns the templates that have no counterpart."""
        def spec_sig(t):
            return tuple(('op', op['v']) if op['k'] == 'op' else (op['k'], op['name']) for op in t['ops'])
        taken = {t['name'] for t in tpls if t['name'] in self.tpl}
        missing = []
        for t in tpls:
            if t['name'] in self.tpl:
                continue
            cands = [r for r in self.real_templates if r.name not in taken and self.signature(r) == spec_sig(t)]
            if len(cands) == 1:
                self.tpl[t['name']] = cands[0]
                self.alias[cands[0].name] = t['name']
                taken.add(cands[0].name)
            else:
                missing.append(t['name'])
        return missing

    def spec_name(self, name):
        return self.alias.get(name, name)

    def cls(self, mode):
        return self.S.OutputScript if mode == 'out' else self.S.InputScript

    def norm_values(self, values):
        out = {}
        for k, v in values.items():
            if isinstance(v, self.S.Script):
                out[k] = ('script', bytes(v.source))
            elif isinstance(v, (list, tuple)):
                out[k] = [bytes(x) for x in v]
            elif isinstance(v, (bytes, bytearray)):
                out[k] = bytes(v)
            else:
                out[k] = v
        return out

    def parse(self, mode, src):
        """-> dict(name, values, script) ; any exception from construction / parse is the classification 'none'"""
        try:
            with watchdog(10):
                if mode == 'tl':
                    s = self.S.InputScript.from_source_with_template(src, self.S.InputScript.TIME_LOCK_SCRIPT)
                else:
                    s = self.cls(mode)(src)
                name = self.spec_name(s.template.name)
                values = s.values
            return {'name': name, 'values': self.norm_values(values), 'script': s, 'exc': None}
        except Hang:
            return {'name': 'hang', 'values': {}, 'script': None, 'exc': 'Hang'}
        except Exception as e:  # pylint: disable=broad-except
            return {'name': 'none', 'values': {}, 'script': None, 'exc': type(e).__name__}

    def tokens(self, mode, src):
        S = self.S
        try:
            with watchdog(10):
                toks = self.cls(mode)(src).tokens
        except Hang:
            return 'hang', []
        except Exception as e:  # pylint: disable=broad-except
            return ('struct_error' if type(e).__name__ == 'error' else 'exc:' + type(e).__name__), []
        out = []
        for t in toks:
            if isinstance(t, S.DataToken):
                out.append(('data', 0, bytes(t.value)))
            elif isinstance(t, S.SmallIntegerToken):
                out.append(('int', t.value, b''))
            else:
                out.append(('op', t.value, b''))
        return 'ok', out

    def predicates(self, s):
        o = self.Output(1000, s)
        p = {n: bool(getattr(s, n)) for n in
             ('is_pay_pubkey', 'is_pay_pubkey_hash', 'is_pay_script_hash', 'is_return_data', 'is_claim_name',
              'is_update_claim', 'is_support_claim', 'is_support_claim_data', 'is_claim_involved')}
        p['is_claim'] = bool(o.is_claim)
        p['is_pubkey_hash'] = bool(o.is_pubkey_hash)
        extra = {'is_support': bool(o.is_support), 'is_support_data': bool(o.is_support_data),
                 'is_purchase_data': bool(o.is_purchase_data)}
        return p, extra

    @staticmethod
    def class_from(name, p, extra):
        """the class the downstream code acts on, read off the real predicates (same decision order as txo_to_row)"""
        if p['is_claim_name']:
            return 'claim'
        if p['is_update_claim']:
            return 'update'
        if p['is_support_claim_data']:
            return 'support_data'
        if p['is_support_claim']:
            return 'support'
        if extra['is_purchase_data']:
            return 'purchase_data'
        if p['is_return_data']:
            return 'data'
        if p['is_pay_pubkey_hash']:
            return 'payment'
        if p['is_pay_script_hash']:
            return 'script_hash'
        if p['is_pay_pubkey']:
            return 'pubkey_full'
        if name == 'pay_script_hash+segwit':
            return 'segwit'
        return name

    def txo_rows(self, src):
        """tx with outputs [plain payment, candidate]; -> (txo_type of the candidate, txo_type of output 0 after tx_to_row)"""
        tx = self.Transaction()
        tx.add_outputs([self.Output(1000, self.S.OutputScript(self.pay.source)), self.Output(1000, self.S.OutputScript(src))])
        self.db.tx_to_row(tx)
        rows = [self.db.txo_to_row(tx, tx.outputs[i]) for i in (0, 1)]
        return [self.txo_types.get(r.get('txo_type', 0), r.get('txo_type')) for r in rows]


# ---------------------------------------------------------------- TLC

JVM = {'_JAVA_OPTIONS': '-Xmx4g'}     # the case spaces are small; keep several emission runs side by side in memory


def iter_tlc(ctx, ex, consts, nparts, label):
    """one emission run (single worker) per partition, several side by side; yields (partition, cases) in order, so that
    the real code is driven with one partition while TLC still enumerates the next ones"""
    def one(part):
        k = dict(consts, PART=part, NPARTS=nparts)
        cfg = tlc.make_cfg(constants=k, invariants=INVS, constraint='Emit')
        res = tlc.run('Script', cfg, ctx, workers=1, coverage=False, timeout=3000, label=f'{label}-p{part}', env=JVM)
        got = None
        if res.finished and not res.violated:
            got = tlc.printed_json(res, 'CASE')
        res.out = ''
        res.printed = []
        return res, got
    futs = [ex.submit(one, part) for part in range(nparts)]
    for part, fut in enumerate(futs):
        res, got = fut.result()
        ctx.add_tlc(res, f'Script.tla case space {consts}, partition {part}/{nparts} (Leg A invariants + emission)')
        if res.violated:
            ctx.violation('model:' + ','.join(sorted(set(res.violated))), 'specification law violated in the model',
                          res.error_trace[:6000])
            yield part, None
            return
        if got is None:
            raise MachineryError(f'{label} partition {part}: TLC did not finish (rc={res.rc})')
        if len(got) != res.distinct:
            raise MachineryError(f'{label} partition {part}: {len(got)} distinct cases emitted, TLC found {res.distinct} distinct states')
        yield part, got


def run_witnesses(ctx):
    consts = {'MAXLEN': 1, 'EDITS': 1, 'BYTELEN': 0, 'FULLGEN': False, 'EMIT': False, 'PART': 0, 'NPARTS': 1}
    cfg = tlc.make_cfg(constants=consts, invariants=WITNESSES)
    res = tlc.run('Script', cfg, ctx, workers=2, coverage=False, timeout=600, label='Script-witness', cont=True, env=JVM)
    missing = [w for w in WITNESSES if w not in res.violated]
    if missing:
        raise MachineryError(f'vacuous laws: witnesses not reached: {missing}')
    return res


# ---------------------------------------------------------------- judging one source against an expectation

class Judge:
    def __init__(self, ctx, spec, real, preds):
        self.ctx, self.spec, self.real, self.preds = ctx, spec, real, preds
        self.n = {'unmatched_predicates': 0, 'gen': 0, 'seq': 0, 'bytes': 0, 'random': 0, 'push': 0, 'outside_claim': 0, 'rows': 0, 'row_exceptions': 0,
                  'inner': 0, 'safety_antecedents': 0, 'truncation_rejected': 0, 'truncation_cases': 0}
        self.names_seen = set()
        self.classes_seen = set()
        self.row_exc = {}

    def judge(self, kind, mode, src, exp, replay):
        """exp: dict(st, toks, name, bind, amb, class [, inner]); compares the real parser / predicates / rows on src"""
        ctx, real, spec = self.ctx, self.real, self.spec
        rp = real.parse(mode, src)
        got = rp['name']
        replay = dict(replay, mode=mode, source=src.hex() if len(src) <= 5000 else None, expected=exp['name'], got=got,
                      exception=rp['exc'], tier=ctx.tier)
        if got == 'hang':
            ctx.violation(f'hang:{mode}', f'parser did not return for {src[:40].hex()}', replay)
            return
        outside = bool(set(exp['amb']) & spec.outside) or exp['name'] in spec.outside
        if outside:
            self.n['outside_claim'] += 1        # multi-signature redeem scripts: evaluated, not judged
            return
        self.names_seen.add(exp['name'])
        if mode == 'out':
            self.classes_seen.add(exp['class'])
        if exp.get('tr') and got == 'none':
            self.n['truncation_rejected'] += exp['name'] != 'none'   # the expectation rests on a truncation quirk; refusing is also right
            return
        if got != exp['name']:
            first = src[0] if src else -1
            if mode == 'out' and first in CLAIM_OPS and got in self.preds and not self.preds[got]['is_claim_involved']:
                key = 'safety:claim-opcode-classified-as-' + got
            elif mode == 'out' and got in self.preds and self.preds[got]['is_claim_involved'] and exp['name'] == 'none':
                key = 'classify:non-template-accepted-as-' + got
            else:
                key = f'classify:{mode}:{exp["name"]}->{got}'
            ctx.violation(key, f'{mode} script {src[:60].hex()} is {exp["name"]!r} by its opcodes, the code says {got!r} ({rp["exc"]})', replay)
            return
        if got == 'none':
            if mode == 'out' and (not src or src[0] in CLAIM_OPS or self.n['unmatched_predicates'] % 7 == 0):
                # a byte string that matches no template is NOTHING: asked directly (on a fresh object, before anything has
                # parsed it) no classification predicate may answer yes -- refusing to answer (the parse error) is fine
                for pred in ('is_claim_involved', 'is_claim_name', 'is_update_claim', 'is_support_claim', 'is_pay_pubkey_hash',
                             'is_pay_script_hash'):
                    try:
                        with watchdog(10):
                            ans = getattr(real.S.OutputScript(src), pred)
                    except Exception:  # pylint: disable=broad-except
                        continue
                    if ans:
                        ctx.violation(f'predicate-true-on-unmatched-script:{pred}',
                                      f'{pred} answers yes for {src[:60].hex()}, which matches no template', dict(replay, predicate=pred))
                        break
            self.n['unmatched_predicates'] += 1
            return
        want = spec.expected_values(exp['name'], exp['toks'], exp['bind'])
        if rp['values'] != want:
            bad = sorted(k for k in set(want) | set(rp['values']) if want.get(k) != rp['values'].get(k))
            ctx.violation(f'values:{got}.{bad[0]}', f'{mode} script {src[:60].hex()} parsed as {got} with {bad} wrong', dict(replay, fields=bad))
            return
        inner = exp.get('inner')
        if inner and inner.get('known'):
            self.n['inner'] += 1
            try:
                sub = rp['script'].values['script']
                iname, ivals = real.spec_name(sub.template.name), real.norm_values(sub.values)
            except Exception as e:  # pylint: disable=broad-except
                iname, ivals = 'none', {}
            if iname != inner['name']:
                ctx.violation(f'inner:{inner["name"]}->{iname}', f'inner script of {src[:60].hex()} is {inner["name"]!r}, the code says {iname!r}', replay)
                return
            if iname != 'none' and iname not in spec.outside and ivals != inner['vals']:
                ctx.violation(f'inner-values:{iname}', f'inner script values differ for {src[:60].hex()}', replay)
                return
        if mode != 'out':
            return
        # predicates, class, safety core, rows
        p, extra = real.predicates(rp['script'])
        if got != 'no_script':
            for name, val in self.preds[got].items():
                if p[name] != val:
                    ctx.violation(f'predicate:{name}@{got}', f'{name} is {p[name]} for a {got} script ({src[:40].hex()})', replay)
                    return
        rclass = real.class_from(got, p, extra)
        if rclass != exp['class'] or extra['is_support'] != (exp['class'] in ('support', 'support_data')) \
                or extra['is_support_data'] != (exp['class'] == 'support_data'):
            ctx.violation(f'class:{exp["class"]}->{rclass}', f'script {src[:60].hex()} is a {exp["class"]} by its opcodes, the predicates say {rclass}', replay)
            return
        first = src[0] if src else -1
        if first in CLAIM_OPS:
            self.n['safety_antecedents'] += 1
            if rclass in PAY_CLASSES:
                ctx.violation('safety:claim-opcode-classified-as-' + rclass, f'{src[:60].hex()} begins with a claim opcode and is treated as {rclass}', replay)
                return
        if rclass in CLAIM_CLASSES and CLAIM_OPS.get(first) != {'claim': 'claim', 'update': 'update'}.get(rclass, 'support'):
            ctx.violation('safety:payment-classified-as-' + rclass, f'{src[:60].hex()} does not begin with the opcode of a {rclass}', replay)
            return
        if got == 'no_script' or len(src) > 2000:
            return
        try:
            with watchdog(10):
                row0_type, row_type = real.txo_rows(src)
        except Hang:
            ctx.violation('hang:txo_to_row', f'txo_to_row did not return for {src[:40].hex()}', replay)
            return
        except Exception as e:  # pylint: disable=broad-except
            self.n['row_exceptions'] += 1       # payload decoding etc.: the output is not stored at all; not this property
            self.row_exc[type(e).__name__] = self.row_exc.get(type(e).__name__, 0) + 1
            return
        self.n['rows'] += 1
        if exp['class'] in ('claim', 'update'):
            ok = row_type in CLAIM_TXO_TYPES
        elif exp['class'] in ('support', 'support_data'):
            ok = row_type == 'support'
        else:
            ok = row_type in ('other', 'purchase')
        if not ok:
            ctx.violation(f'txo-type:{exp["class"]}->{row_type}', f'txo_to_row stores {src[:60].hex()} ({exp["class"]}) as txo_type {row_type}', replay)
            return
        if exp.get('purchase_decodable') and row0_type != 'purchase':
            ctx.violation('txo-type:purchase-not-recognised', f'output 0 next to purchase data {src[:60].hex()} stored as {row0_type}', replay)


def tok_key(st, toks, rst, rtoks):
    """which kind of token the real tokeniser reads differently"""
    if st != rst:
        return f'tokenise:{st}->{rst}'
    for a, b in zip(toks, rtoks):
        if (a[0], a[1], bytes(a[2])) != b:
            return f'tokenise:{a[0]}-read-as-{b[0]}' if a[0] != b[0] else f'tokenise:{a[0]}-wrong-{"payload" if a[0] == "data" else "value"}'
    return 'tokenise:token-count'


def exp_from_tlc(c, toks):
    return {'st': c.get('st', 'ok'), 'tr': c.get('tr', False), 'toks': toks, 'name': c['name'], 'bind': c.get('bind', []), 'amb': c.get('amb', []),
            'class': c.get('class', ''), 'inner': None}


def check_transcription(spec, mode, src, exp, what):
    j = spec.judge(mode, src)
    same = j['st'] == exp['st'] and j['tr'] == exp['tr'] and j['name'] == exp['name'] and (exp['st'] != 'ok' or (
        [(k, v, bytes(p)) for k, v, p in j['toks']] == [(k, v, bytes(p)) for k, v, p in exp['toks']]
        and list(j['bind']) == list(exp['bind']) and set(j['amb']) == set(exp['amb']) and (not exp['class'] or j['class'] == exp['class'])))
    if not same:
        raise MachineryError(f'the Python transcription of Script.tla disagrees with TLC on {what}: {src[:80].hex()} '
                             f'transcription={j["name"]}/{j["class"]}/{j["bind"]} TLC={exp["name"]}/{exp["class"]}/{exp["bind"]}')


# ---------------------------------------------------------------- random byte strings

def random_sources(rng, n, instances):
    interesting = [0x00, 0x01, 0x02, 0x14, 0x21, 0x4b, 0x4c, 0x4d, 0x4e, 0x4f, 0x50, 0x51, 0x52, 0x60, 0x61, 0x69, 0x6a, 0x6d, 0x75,
                   0x76, 0x87, 0x88, 0xa9, 0xac, 0xae, 0xb1, 0xb5, 0xb6, 0xb7, 0xff]

    def push(data, style):
        ln = len(data)
        if style == 0 and ln < 76:
            return bytes([ln]) + data
        if style <= 1 and ln <= 255:
            return b'\x4c' + bytes([ln]) + data
        if style <= 2 and ln <= 65535:
            return b'\x4d' + ln.to_bytes(2, 'little') + data
        return b'\x4e' + ln.to_bytes(4, 'little') + data

    for i in range(n):
        r = i % 5
        if r == 0:                                         # uniform bytes
            yield 'uniform', bytes(rng.randrange(256) for _ in range(rng.randrange(0, 40)))
        elif r == 1:                                       # opcode soup
            yield 'soup', bytes(rng.choice(interesting) for _ in range(rng.randrange(1, 24)))
        elif r == 2:                                       # byte-level damage of a well-formed instance
            b = bytearray(rng.choice(instances))
            for _ in range(rng.randrange(1, 3)):
                op = rng.randrange(4)
                pos = rng.randrange(len(b)) if b else 0
                if op == 0 and b:
                    b[pos] = rng.choice(interesting) if rng.random() < .7 else rng.randrange(256)
                elif op == 1:
                    b.insert(pos, rng.choice(interesting))
                elif op == 2 and b:
                    del b[pos]
                elif b:
                    del b[rng.randrange(len(b)):]         # truncate
            yield 'damaged', bytes(b)
        elif r == 3:                                       # well-formed token soup with every push style
            parts = []
            for _ in range(rng.randrange(1, 12)):
                if rng.random() < .45:
                    ln = rng.choice([0, 1, 2, 20, 33, 75, 76, 77, 255, 256, 300])
                    d = bytes(rng.randrange(256) for _ in range(ln))
                    if rng.random() < .2 and ln:
                        d = b'P' + d[1:]
                    parts.append(push(d, rng.randrange(4)))
                else:
                    parts.append(bytes([rng.choice(interesting[9:])]))
            yield 'tokens', b''.join(parts)
        else:                                              # instance with re-encoded (non-minimal) pushes / swapped first opcode
            b = bytearray(rng.choice(instances))
            if b and rng.random() < .5:
                b[0] = rng.choice([0xb5, 0xb6, 0xb7, 0x76, 0xa9, 0x6a, 0x00])
            yield 'retagged', bytes(b)


# ---------------------------------------------------------------- run

def drive(ctx, real, state, part, cases):
    """evaluate the cases of one partition on the real code; partition 0 carries the tables"""
    by = {}
    for c in cases:
        by.setdefault(c['kind'], []).append(c)
    if part == 0:
        tpls = sorted(by.get('tpl', []), key=lambda t: t['idx'])
        syms = {s['idx']: s for s in by.get('sym', [])}
        if len(tpls) != 19 or len(syms) != 26:
            raise MachineryError(f'template / symbol tables incomplete: {len(tpls)} templates, {len(syms)} symbols')
        state['spec'] = spec = Spec(tpls)
        preds = {t['name']: t['preds'] for t in tpls if t['table'] == 'out'}
        state['J'] = J = Judge(ctx, spec, real, preds)
        state['symtok'] = {i: (s['tok']['k'], s['tok']['v'], s['tok']['pl'], s['lay']) for i, s in syms.items()}
        missing = real.bind_by_structure(tpls)
        if real.alias:
            print(f'NOTE: templates bound by opcode pattern, the code calls them differently: {real.alias}', flush=True)
        if missing:
            # a template of the specification that the code no longer has: its generate cases cannot be driven
            ctx.violation('template-missing:' + missing[0], f'templates {missing} do not exist in the code', {'missing': missing})
            return False
        if ctx.replay:
            replay(ctx, state, by)
            return False
    spec, J, symtok, instances = state['spec'], state['J'], state['symtok'], state['instances']

    # ---- (i) push prefixes
    for c in by.get('push', []):
        push_case(ctx, J, real, c)

    # ---- (i) generate / parse back
    for c in by.get('gen', []):
        gen_case(ctx, J, spec, real, c, instances)

    # ---- (ii) token sequences
    for c in by.get('seq', []):
        parts, toks = [], []
        for pos, si in enumerate(c['syms'], 1):
            k, v, pl, lay = symtok[si]
            parts.append(concretise(lay, pos))
            toks.append((k, v, concretise(pl, pos)))
        src = b''.join(parts)
        exp = exp_from_tlc(c, toks)
        check_transcription(spec, c['mode'], src, exp, f'seq {c["syms"]}')
        if c['inner']['known']:
            exp['inner'] = {'known': True, 'name': c['inner']['name'],
                            'vals': inner_values(spec, c['inner'], c['syms'], c['bind'])}
        exp['purchase_decodable'] = any(f == 'data' and si == 18 for f, si in zip(c['bind'], c['syms']))
        state['nseq'] += 1
        J.n['seq'] += 1
        ctx.count(('seq', c['mode'], tuple(c['syms'])), nontrivial=len(c['syms']) >= 2)
        J.judge('seq', c['mode'], src, exp, {'kind': 'seq', 'syms': c['syms']})
        if c['name'] not in ('none', 'no_script') and len(ctx.cov['samples']) < 4 and state['nseq'] % 97 == 0:
            ctx.sample({'tokens': c['syms'], 'mode': c['mode'], 'source': src.hex()[:160], 'spec_template': c['name'], 'spec_class': c['class']})
        if c['name'] != 'none' and c['mode'] == 'out' and len(src) < 120:
            instances.append(src)

    # ---- (ii') concrete byte strings
    for c in by.get('bytes', []):
        src = bytes(c['bs'])
        toks = [(t['k'], t['v'], concretise(t['pl'])) for t in c['toks']]
        exp = exp_from_tlc(c, toks)
        check_transcription(spec, c['mode'], src, exp, f'bytes {c["bs"]}')
        J.n['bytes'] += 1
        ctx.count(('bytes', c['mode'], src), nontrivial=len(src) >= 2)
        rst, rtoks = real.tokens(c['mode'], src)
        J.n['truncation_cases'] += bool(c['tr'])
        if c['tr'] and rst != 'ok':
            J.n['truncation_rejected'] += c['st'] == 'ok'       # a reader that refuses truncated pushes is within the property
            continue
        if rst != c['st'] or (rst == 'ok' and rtoks != toks):
            ctx.violation(tok_key(c['st'], toks, rst, rtoks), f'{src.hex()} tokenises as {rst} {[(k, v, p.hex()) for k, v, p in rtoks]}; '
                          f'the specification says {c["st"]} {[(k, v, p.hex()) for k, v, p in toks]}', {'kind': 'bytes', 'mode': c['mode'], 'source': src.hex()})
            continue
        J.judge('bytes', c['mode'], src, exp, {'kind': 'bytes'})

    return True


def run(ctx):
    thorough = ctx.thorough
    consts = {'MAXLEN': 4, 'EDITS': 2 if thorough else 1, 'BYTELEN': 4 if thorough else 3, 'FULLGEN': bool(thorough), 'EMIT': True}
    nparts, side_by_side = (16, 6) if thorough else (6, 6)
    if ctx.replay:
        import json
        with open(ctx.replay) as f:
            rep = json.load(f).get('replay') or {}
        if not isinstance(rep, dict) or 'kind' not in rep:
            raise MachineryError('not a C15 case replay file (a model counterexample is replayed by running the tier again)')
        consts = {'MAXLEN': 0, 'EDITS': 1, 'BYTELEN': 0, 'FULLGEN': rep['kind'] == 'gen' and rep.get('tier') == 'thorough', 'EMIT': True}
        nparts = 1
    real = Real()
    st = {'spec': None, 'J': None, 'symtok': None, 'instances': [], 'nseq': 0, 'replay': rep if ctx.replay else None}
    with ThreadPoolExecutor(max_workers=side_by_side + 1) as ex:
        wit = ex.submit(run_witnesses, ctx)
        try:
            for part, cases in iter_tlc(ctx, ex, consts, nparts, 'Script-emit'):
                if cases is None:
                    return
                if not drive(ctx, real, st, part, cases):
                    return
        finally:
            ex.shutdown(wait=True, cancel_futures=True)
        ctx.add_tlc(wit.result(), 'Script.tla reachability witnesses for the antecedents of the laws (each must be violated)')
    if ctx.replay:
        return
    spec, J, instances = st['spec'], st['J'], st['instances']
    tpls = list(spec.by_name.values())

    # ---- coverage guards (vacuity): every template in the claim and every class was expected somewhere
    want_names = {t['name'] for t in tpls if not t['outside']} | {'none', 'no_script'}
    if not want_names <= J.names_seen:
        raise MachineryError(f'vacuous: templates never expected by any judged case: {sorted(want_names - J.names_seen)}')
    want_classes = CLAIM_CLASSES | PAY_CLASSES | {'none', 'no_script'}
    if not want_classes <= J.classes_seen:
        raise MachineryError(f'vacuous: classes never expected by any judged case: {sorted(want_classes - J.classes_seen)}')
    if not ctx.violations and (J.n['safety_antecedents'] == 0 or J.n['rows'] == 0 or J.n['inner'] == 0):
        raise MachineryError(f'vacuous: {J.n}')

    # ---- (iii) seeded random byte strings judged by the transcription
    nrand = 400000 if thorough else 40000
    rng = random.Random(ctx.seed * 1000003 + 15)
    if not instances:
        raise MachineryError('no template instances to damage')
    instances = instances[:4000]
    kinds = {}
    for style, src in random_sources(rng, nrand, instances):
        for mode in (('out',) if style in ('damaged', 'retagged') else ('out', 'in')):
            j = spec.judge(mode, src)
            J.n['random'] += 1
            kinds[j['name']] = kinds.get(j['name'], 0) + 1
            ctx.count(('random', mode, src), nontrivial=j['name'] != 'none')
            rst, rtoks = real.tokens(mode, src)
            J.n['truncation_cases'] += bool(j['tr'])
            if j['tr'] and rst != 'ok':
                J.n['truncation_rejected'] += j['st'] == 'ok'
                continue
            if rst != j['st'] or (rst == 'ok' and rtoks != [(k, v, bytes(p)) for k, v, p in j['toks']]):
                ctx.violation(tok_key(j['st'], j['toks'], rst, rtoks), f'{src.hex()} tokenises as {rst}; the specification says {j["st"]}',
                              {'kind': 'random', 'mode': mode, 'source': src.hex()})
                continue
            J.judge('random', mode, src, dict(j, inner=None), {'kind': 'random', 'style': style})
    ctx.leg('B', push_cases=J.n['push'], gen_cases=J.n['gen'], seq_cases=J.n['seq'], byte_cases=J.n['bytes'], random_strings=J.n['random'],
            outside_claim_not_judged=J.n['outside_claim'], txo_rows_checked=J.n['rows'], txo_row_exceptions_not_judged=J.n['row_exceptions'], txo_row_exception_types=J.row_exc,
            inner_scripts_checked=J.n['inner'], truncated_scripts=J.n['truncation_cases'], truncated_scripts_refused_where_the_quirk_would_accept=J.n['truncation_rejected'], safety_antecedents=J.n['safety_antecedents'],
            random_by_spec_template=dict(sorted(kinds.items(), key=lambda kv: -kv[1])[:12]), constants=consts)
    ctx.cov['traces_validated_against_impl'] = J.n['push'] + J.n['gen'] + J.n['seq'] + J.n['bytes']
    ctx.cov['exhaustive'] = True
    ctx.cov['rule'] = ('every TLC state of Script.tla is one case evaluated on the real code: push = one payload length; gen = template x '
                       'value lengths at {0,1,75,76,255,256,65535,65536,70000} (one field varied against typical lengths, all fields equal; '
                       'thorough: full cross product) x lock heights of every byte width; seq = ALL token sequences up to length 4 over the '
                       "mode's alphabet (19 symbols for output scripts) plus every sequence within EDITS token edits over the 26-symbol alphabet "
                       'of an instance of each of the 13 output, 4 input and the time-lock template; bytes = all byte strings up to BYTELEN over '
                       'a 22-byte alphabet plus one byte edit of a small instance of every output template. Random strings are extra and '
                       'judged by the transcription of the specification (which must agree with TLC on every emitted case). '
                       'Distinct = distinct (kind, mode, input); non-trivial = at least two tokens/bytes resp. parses to a template.')
    ctx.assumptions += [
        'payload bytes are opaque: the code inspects them only for the purchase start byte and when a sub-script is parsed on demand',
        'any exception from Script(source).template/.values is the classification "none" (parse failure)',
        'where the expectation rests on a truncation quirk of the tokeniser (short read, length field at/over the end) the code may '
        'equally refuse the script; it may not classify it as anything else',
        'minimal push = the shortest of direct/PUSHDATA1/2/4 for the LENGTH (OP_1..OP_16 for one-byte values is not demanded)',
        'multi-signature redeem templates take part in first-match classification but cases they match are evaluated without judgement',
        'Database.tx_to_row / txo_to_row are called on an unopened Database with the Ledger class as ledger (no sqlite)',
        'exceptions while txo_to_row decodes a claim/support payload are not part of this property',
    ]


def inner_values(spec, inner, syms, bind):
    """values of the on-demand parsed inner script, concretised with the salt of the token that carries it"""
    pos = [i for i, f in enumerate(bind, 1) if f == 'script'][0]
    if inner['name'] in ('none', 'no_script'):
        return {}
    kinds = {op['name']: op['k'] for op in spec.by_name[inner['name']]['ops'] if op['k'] != 'op'}
    vals = {}
    for v in inner['vals']:
        f = v['f']
        if not f:
            continue
        pl = concretise(v['pl'], pos)
        if kinds[f] == 'integer':
            vals[f] = int.from_bytes(pl, 'little')
        elif kinds[f] == 'many':
            vals.setdefault(f, []).append(pl)
        elif kinds[f] == 'sub':
            vals[f] = ('script', pl)
        else:
            vals[f] = pl
    return vals


def push_case(ctx, J, real, c):
    n = c['n']
    data = fill('x', n, 0)
    J.n['push'] += 1
    ctx.count(('push', n), nontrivial=True)
    got = b''.join(real.S.push_data(data))
    want = bytes(c['prefix']) + data
    if got != want:
        ctx.violation(f'push-prefix:len={n}', f'push_data of {n} bytes starts {got[:6].hex()}, the minimal encoding is {bytes(c["prefix"]).hex()}',
                      {'kind': 'push', 'n': n, 'got': got[:8].hex(), 'want': bytes(c['prefix']).hex()})
        return
    st, toks = real.tokens('out', got)
    wtok = [('op', 0, b'')] if n == 0 else [('data', 0, data)]
    if st != 'ok' or toks != wtok:
        ctx.violation(f'push-readback:len={n}', f'a minimal push of {n} bytes tokenises as {st} {[(k, v, len(p)) for k, v, p in toks]}',
                      {'kind': 'push', 'n': n, 'got': got[:8].hex()})


def gen_case(ctx, J, spec, real, c, instances):
    S = real.S
    t = spec.by_name[c['tpl']]
    fields = [op for op in t['ops'] if op['k'] != 'op']

    def build(tname, flds, vals):
        out = {}
        for op, v in zip(flds, vals):
            if op['k'] == 'single':
                out[op['name']] = fill(op['name'], v['n'], 0)
            elif op['k'] == 'integer':
                out[op['name']] = limbs_to_int(v['h'])
            elif op['k'] == 'sub':
                it = spec.by_name[op['hint']]
                out[op['name']] = S.InputScript(template=real.tpl[op['hint']],
                                                values=build(op['hint'], [o for o in it['ops'] if o['k'] != 'op'], v['s']))
            else:
                raise MachineryError(f'gen case with a {op["k"]} field')
        return out

    J.n['gen'] += 1
    key = ('gen', c['tpl'], repr(c['vals']))
    ctx.count(key, nontrivial=True)
    want = concretise(c['lay'], 0)
    cls = real.cls('out' if c['mode'] == 'out' else 'in')
    replay = {'kind': 'gen', 'tpl': c['tpl'], 'vals': c['vals'], 'tier': ctx.tier}
    try:
        with watchdog(20):
            values = build(c['tpl'], fields, c['vals'])
            script = cls(template=real.tpl[c['tpl']], values=dict(values))
            got = script.source
    except Hang:
        ctx.violation(f'hang:generate:{c["tpl"]}', 'generate did not return', replay)
        return
    except Exception as e:  # pylint: disable=broad-except
        ctx.violation(f'generate-raises:{c["tpl"]}', f'generate raised {type(e).__name__}: {e}', replay)
        return
    if got != want:
        i = next((k for k in range(min(len(got), len(want))) if got[k] != want[k]), min(len(got), len(want)))
        ctx.violation(f'generate-bytes:{c["tpl"]}', f'generated script differs from the specified layout at byte {i}: '
                      f'{got[max(0, i - 2):i + 6].hex()} vs {want[max(0, i - 2):i + 6].hex()} (lengths {len(got)}/{len(want)})',
                      dict(replay, at=i))
        return
    # public constructors must pick the same template
    ctor = {'pay_pubkey_hash': 'pay_pubkey_hash', 'pay_script_hash': 'pay_script_hash', 'return_data': 'return_data',
            'claim_name+pay_pubkey_hash': 'pay_claim_name_pubkey_hash', 'update_claim+pay_pubkey_hash': 'pay_update_claim_pubkey_hash',
            'support_claim+pay_pubkey_hash': 'pay_support_pubkey_hash', 'support_claim+data+pay_pubkey_hash': 'pay_support_data_pubkey_hash',
            'pubkey_hash': 'redeem_pubkey_hash'}.get(c['tpl'])
    if ctor:
        try:
            alt = getattr(cls, ctor)(**values).source
        except Exception as e:  # pylint: disable=broad-except
            alt = f'{type(e).__name__}: {e}'
        if alt != want:
            ctx.violation(f'constructor:{ctor}', f'{cls.__name__}.{ctor} does not produce the {c["tpl"]} script', replay)
            return
    if c['tpl'] == 'script_hash+timelock':
        h = limbs_to_int(c['vals'][2]['s'][0]['h'])
        if h:
            try:
                pkh = values['script'].values['pubkey_hash']
                b = cls.redeem_time_lock_script_hash(values['signature'], values['pubkey'], script_source=values['script'].source).source
                a = cls.redeem_time_lock_script_hash(values['signature'], values['pubkey'], height=h, pubkey_hash=pkh).source if pkh else b
                b = b or cls.redeem_time_lock_script_hash(values['signature'], values['pubkey'], script_source=values['script'].source).source
            except Exception as e:  # pylint: disable=broad-except
                a = b = f'{type(e).__name__}: {e}'
            if a != want or b != want:
                ctx.violation('constructor:redeem_time_lock_script_hash', 'redeem_time_lock_script_hash does not produce the specified script', replay)
                return
    # parse back
    rp = real.parse(c['mode'], got)
    if rp['name'] != c['name']:
        ctx.violation(f'roundtrip-template:{c["tpl"]}->{rp["name"]}', f'a generated {c["tpl"]} script parses back as {rp["name"]!r} ({rp["exc"]}); '
                      f'value lengths {[v["n"] for v in c["vals"]]}', replay)
        return
    want_vals = real.norm_values(values)
    if rp['values'] != want_vals:
        bad = sorted(k for k in set(want_vals) | set(rp['values']) if want_vals.get(k) != rp['values'].get(k))
        ctx.violation(f'roundtrip-values:{c["tpl"]}.{bad[0]}', f'a generated {c["tpl"]} script parses back with different {bad}', dict(replay, fields=bad))
        return
    if c['tpl'] == 'script_hash+timelock':
        J.n['inner'] += 1
        try:
            sub = rp['script'].values['script']
            iname, ivals = real.spec_name(sub.template.name), real.norm_values(sub.values)
        except Exception as e:  # pylint: disable=broad-except
            iname, ivals = f'none ({type(e).__name__})', {}
        if iname != c['inner']['name'] or ivals != real.norm_values(values['script'].values):
            ctx.violation(f'roundtrip-inner:{iname}', f'the time-lock script inside a generated redeem script parses back as {iname} {ivals}', replay)
            return
    # the transcription of the specification must read the layout the same way TLC did
    j = spec.judge(c['mode'], got)
    if j['name'] != c['name']:
        raise MachineryError(f'transcription disagrees with TLC on gen case {c["tpl"]}: {j["name"]}')
    J.names_seen.add(c['name'])
    if c['mode'] == 'out':
        p, extra = real.predicates(rp['script'])
        for name, val in J.preds[c['tpl']].items():
            if p[name] != val:
                ctx.violation(f'predicate:{name}@{c["tpl"]}', f'{name} is {p[name]} for a generated {c["tpl"]} script', replay)
                return
        if len(got) < 120:
            instances.append(got)
    if J.n['gen'] % 211 == 1:
        ctx.sample({'generate': c['tpl'], 'value_lengths': [v['n'] for v in c['vals']], 'source_prefix': got[:24].hex(), 'bytes': len(got),
                    'parsed_back': rp['name']})


def replay(ctx, state, by):
    """re-judge the one recorded case: a gen case is looked up among the cases TLC emits again (same expected layout), a token
    sequence is rebuilt from the symbol table, everything else is a literal source judged by the transcription of Script.tla"""
    rep, spec, J = state['replay'], state['spec'], state['J']
    ctx.cov['rule'] = 'replay of one recorded case'
    if rep['kind'] == 'gen':
        for c in by.get('gen', []):
            if c['tpl'] == rep['tpl'] and c['vals'] == rep['vals']:
                gen_case(ctx, J, spec, J.real, c, [])
                return
        raise MachineryError('the recorded generate case is not in the case space TLC enumerates for its tier')
    if rep['kind'] == 'push':
        for c in by.get('push', []):
            if c['n'] == rep['n']:
                push_case(ctx, J, J.real, c)
                return
        raise MachineryError('the recorded push length is not in the case space')
    mode = rep.get('mode', 'out')
    if rep.get('source') is not None:
        src = bytes.fromhex(rep['source'])
    elif rep['kind'] == 'seq':
        src = b''.join(concretise(state['symtok'][si][3], pos) for pos, si in enumerate(rep['syms'], 1))
    else:
        raise MachineryError('replay file has no source')
    j = spec.judge(mode, src)
    ctx.count(('replay', mode, src))
    rst, rtoks = J.real.tokens(mode, src)
    if j['tr'] and rst != 'ok':
        return
    if rst != j['st'] or (rst == 'ok' and rtoks != [(k, v, bytes(p)) for k, v, p in j['toks']]):
        ctx.violation(tok_key(j['st'], j['toks'], rst, rtoks), f'{src.hex()} tokenises as {rst}; the specification says {j["st"]}', rep)
        return
    J.judge('replay', mode, src, dict(j, inner=None), {'kind': 'replay'})
