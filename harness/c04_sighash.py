"""C04 -- signatures: what the wallet's input signatures and channel signatures bind.

specs/Sighash.tla is a symbolic signing model.  TLC checks the binding laws on it (Leg A) and emits every state
(shape of the transaction x signing order x one mutated field x expected verdict of every Check, together with the
field-by-field LAYOUT of each signed message).  Every emitted state is replayed on REAL objects (Leg B):

  * transactions are built and signed by the real wallet code (Transaction / Input.spend / Output.pay_* / Output.sign /
    Transaction.sign with keys of real seeded Accounts);
  * "Check(i) is true" for an input is computed INDEPENDENTLY of lbry-sdk: the driver parses the wire bytes with its own
    reader, renders the specification's layout with its own primitive encoders, double-SHA-256es it and verifies the
    DER signature and the public key found in the input script with the pure-Python `ecdsa` package; the public key
    must hash (sha256 + ripemd160) to what the spent output pays to;
  * "Check(claim) is true" is the real Output.is_signed_by (live objects and objects re-parsed from the wire), and an
    independent `ecdsa` verification over the specification's digest layout;
  * a mutation is a single-bit flip inside the named field of the wire bytes / spent output / channel transaction.

Old-release signatures: the transactions recorded in tests/unit/wallet/test_schema_signing.py are read as data (ast).
A last leg drives the wallet's own builders (Transaction.pay / purchase / create / claim_create / claim_update / support).
`./check C04 --replay <file>` evaluates the transaction stored in a violation's replay file again.
"""
import ast
import hashlib
import os
import random
import struct

from . import tlc
from .common import MachineryError, REPO, watchdog

INVS = ['NewNothing', 'ClaimSignedFirst', 'TxSignedFirst', 'LateClaimStalesInputs', 'SignedAllTrue', 'MutationLaw',
        'ResignLaw', 'PreimageIgnoresScriptSigs']
ACTIONS = ['SignClaimFirst', 'SignTx', 'SignClaimLate', 'Mutate', 'Resign']
PHASES = ['new', 'csigned', 'txfirst', 'stale', 'signed', 'mutated', 'resigned']
CHAN_ID_KEY = 'is_signed_by-accepts-other-channel-with-same-key'


class ProductRaised(Exception):
    """a signing call of the product raised where the specification has a Sign* step"""

    def __init__(self, where, exc):
        super().__init__(f'{where}: {type(exc).__name__}: {exc}')
        self.where, self.exc = where, exc

# =========================================================================== independent side: primitives


def u32(n):
    return struct.pack('<I', n)


def u64(n):
    return struct.pack('<Q', n)


def csize(n):
    if n < 253:
        return bytes([n])
    if n <= 0xffff:
        return b'\xfd' + struct.pack('<H', n)
    if n <= 0xffffffff:
        return b'\xfe' + struct.pack('<I', n)
    return b'\xff' + struct.pack('<Q', n)


def varstr(b):
    return csize(len(b)) + b


def sha256(b):
    return hashlib.sha256(b).digest()


def sha256d(b):
    return sha256(sha256(b))


def hash160(b):
    return hashlib.new('ripemd160', sha256(b)).digest()


class Rd:
    def __init__(self, b):
        self.b, self.i = b, 0

    def take(self, n):
        if self.i + n > len(self.b):
            raise ValueError('short read')
        v = self.b[self.i:self.i + n]
        self.i += n
        return v

    def u32(self):
        return struct.unpack('<I', self.take(4))[0]

    def u64(self):
        return struct.unpack('<Q', self.take(8))[0]

    def csize(self):
        c = self.take(1)[0]
        if c < 253:
            return c
        return struct.unpack({253: '<H', 254: '<I', 255: '<Q'}[c], self.take({253: 2, 254: 4, 255: 8}[c]))[0]

    def varstr(self):
        return self.take(self.csize())


def parse_tx(raw):
    """own reader of the legacy (non-witness) wire format"""
    r = Rd(raw)
    t = {'version': r.u32(), 'ins': [], 'outs': []}
    for _ in range(r.csize()):
        t['ins'].append({'txid': r.take(32), 'nout': r.u32(), 'script': r.varstr(), 'seq': r.u32()})
    for _ in range(r.csize()):
        t['outs'].append({'amount': r.u64(), 'script': r.varstr()})
    t['locktime'] = r.u32()
    if r.i != len(raw):
        raise ValueError('trailing bytes')
    return t


def ser_tx(t):
    out = [u32(t['version']), csize(len(t['ins']))]
    for n in t['ins']:
        out += [n['txid'], u32(n['nout']), varstr(n['script']), u32(n['seq'])]
    out.append(csize(len(t['outs'])))
    for o in t['outs']:
        out += [u64(o['amount']), varstr(o['script'])]
    out.append(u32(t['locktime']))
    return b''.join(out)


def copy_tx(t):
    return {'version': t['version'], 'locktime': t['locktime'], 'ins': [dict(n) for n in t['ins']],
            'outs': [dict(o) for o in t['outs']]}


def ops_of(script):
    """own script tokenizer: [(opcode, data | None, data_start, data_end)]"""
    out, i = [], 0
    while i < len(script):
        op = script[i]
        i += 1
        if 1 <= op <= 75:
            n = op
        elif op == 76:
            n = script[i]
            i += 1
        elif op == 77:
            n = struct.unpack('<H', script[i:i + 2])[0]
            i += 2
        elif op == 78:
            n = struct.unpack('<I', script[i:i + 4])[0]
            i += 4
        else:
            out.append((op, b'' if op == 0 else None, i, i))
            continue
        if i + n > len(script):
            raise ValueError('push beyond end of script')
        out.append((op, script[i:i + n], i, i + n))
        i += n
    return out


def tail_of(script):
    """('pkh', hash, start, end) for ... DUP HASH160 <20> EQUALVERIFY CHECKSIG; ('sh', ...) for ... HASH160 <20> EQUAL"""
    if len(script) >= 25 and script[-25:-22] == b'\x76\xa9\x14' and script[-2:] == b'\x88\xac':
        return ('pkh', script[-22:-2], len(script) - 22, len(script) - 2)
    if len(script) >= 23 and script[-23:-21] == b'\xa9\x14' and script[-1:] == b'\x87':
        return ('sh', script[-21:-1], len(script) - 21, len(script) - 1)
    return (None, b'', 0, len(script))


def flip(b, start, end, rnd):
    """one bit flipped inside b[start:end]"""
    if end <= start:
        raise MachineryError('empty field cannot be mutated')
    pos = rnd.randrange(start, end)
    bit = 1 << rnd.randrange(8)
    return b[:pos] + bytes([b[pos] ^ bit]) + b[pos + 1:]


def flip_int(v, bits, rnd):
    return v ^ (1 << rnd.randrange(bits))


# =========================================================================== independent side: ECDSA (pure Python)

_VK = {}


def _vk(pub):
    import ecdsa
    from ecdsa.ellipticcurve import PointJacobi
    ent = _VK.get(pub)
    if ent is None:
        try:
            vk = ecdsa.VerifyingKey.from_string(pub, curve=ecdsa.SECP256k1)   # validates the point
        except Exception:  # pylint: disable=broad-except
            vk = None
        ent = _VK[pub] = [vk, 0]
    ent[1] += 1
    if ent[1] == 3 and ent[0] is not None:      # a key that keeps coming back: precomputed multiples (2x faster)
        pt = ent[0].pubkey.point
        fast = PointJacobi(ecdsa.SECP256k1.curve, pt.x(), pt.y(), 1, ecdsa.SECP256k1.order, generator=True)
        ent[0] = ecdsa.VerifyingKey.from_public_point(fast, curve=ecdsa.SECP256k1)
    return ent[0]


_VERDICT = {}


def ecdsa_ok(pub, digest, sig, der):
    import ecdsa
    key = (pub, digest, sig, der)
    if key in _VERDICT:
        return _VERDICT[key]
    vk = _vk(pub)
    ok = False
    if vk is not None:
        try:
            ok = bool(vk.verify_digest(sig, digest, sigdecode=ecdsa.util.sigdecode_der if der else ecdsa.util.sigdecode_string))
        except (ecdsa.BadSignatureError, ecdsa.der.UnexpectedDER, ecdsa.util.MalformedSignature, ValueError,
                AssertionError, IndexError):
            ok = False
    if len(_VERDICT) < 200000:
        _VERDICT[key] = ok
    return ok


# =========================================================================== independent side: the two Checks

def render(layout, t, prevs):
    """the specification's Layout(t, i) rendered with the primitive encoders above"""
    out = []
    for d in layout:
        f, j = d['f'], d['j'] - 1
        if f == 'version':
            out.append(u32(t['version']))
        elif f == 'input_count':
            out.append(csize(len(t['ins'])))
        elif f == 'txid':
            out.append(t['ins'][j]['txid'])
        elif f == 'nout':
            out.append(u32(t['ins'][j]['nout']))
        elif f == 'spent_script':
            out.append(varstr(prevs[j]['script']))
        elif f == 'redeem_script':
            out.append(varstr(ops_of(t['ins'][j]['script'])[-1][1]))
        elif f == 'empty_script':
            out.append(varstr(b''))
        elif f == 'sequence':
            out.append(u32(t['ins'][j]['seq']))
        elif f == 'output_count':
            out.append(csize(len(t['outs'])))
        elif f == 'amount':
            out.append(u64(t['outs'][j]['amount']))
        elif f == 'out_script':
            out.append(varstr(t['outs'][j]['script']))
        elif f == 'locktime':
            out.append(u32(t['locktime']))
        elif f == 'hash_type_1':
            out.append(u32(1))
        else:
            raise MachineryError(f'unknown layout field {f}')
    return b''.join(out)


def check_input(t, prevs, i, layout):
    """CheckIn(t, i) of the specification on wire bytes; returns (ok, name of the first failing conjunct)"""
    try:
        ops = ops_of(t['ins'][i]['script'])
    except (ValueError, IndexError, struct.error):
        return False, 'scriptsig'
    if len(ops) not in (2, 3) or any(o[1] is None for o in ops) or len(ops[0][1]) < 2:
        return False, 'scriptsig'
    sig, pub = ops[0][1], ops[1][1]
    redeem = ops[2][1] if len(ops) == 3 else None
    kind, h, _, _ = tail_of(prevs[i]['script'])
    if kind == 'pkh':
        pays = redeem is None and hash160(pub) == h
    elif kind == 'sh':
        rk, rh, _, _ = tail_of(redeem) if redeem is not None else (None, b'', 0, 0)
        pays = redeem is not None and hash160(redeem) == h and rk == 'pkh' and rh == hash160(pub)
    else:
        pays = False
    want = 'redeem_script' if kind == 'sh' else 'spent_script'
    if not any(d['f'] == want and d['j'] == i + 1 for d in layout):
        raise MachineryError(f'layout of input {i + 1} does not carry a {want} field')
    if kind == 'sh' and redeem is None:
        return False, 'pays_to'
    digest = sha256d(render(layout, t, prevs))
    good = ecdsa_ok(pub, digest, sig[:-1], True)
    if sig[-1] != 1:
        return False, 'hash_type'
    if not pays:
        return False, 'pays_to'
    if not good:
        return False, 'ecdsa'
    return True, ''


def pb_fields(b):
    """minimal protobuf wire walker: [(field number, wire type, value, start of field, end of field)]"""
    out, i = [], 0

    def varint():
        nonlocal i
        v = s = 0
        while True:
            c = b[i]
            i += 1
            v |= (c & 0x7f) << s
            s += 7
            if not c & 0x80:
                return v
    while i < len(b):
        st = i
        key = varint()
        num, wt = key >> 3, key & 7
        if wt == 0:
            val = varint()
        elif wt == 2:
            n = varint()
            val = b[i:i + n]
            if i + n > len(b):
                raise ValueError('short')
            i += n
        elif wt == 1:
            val = b[i:i + 8]
            i += 8
        elif wt == 5:
            val = b[i:i + 4]
            i += 4
        else:
            raise ValueError('wire type')
        out.append((num, wt, val, st, i))
    return out


def pb_get(b, num):
    for (n, wt, val, _, _) in pb_fields(b):
        if n == num and wt == 2:
            return val
    return None


def claim_parts(script):
    """own reading of a claim / update / support-with-data output script"""
    ops = ops_of(script)
    op = ops[0][0]
    if op == 0xb5:
        name, cid, pay = ops[1], None, ops[2]
    elif op == 0xb7:
        name, cid, pay = ops[1], ops[2], ops[3]
    elif op == 0xb6:
        name, cid, pay = ops[1], ops[2], ops[3]
        if pay[1] is None:
            raise ValueError('support without data')
    else:
        raise ValueError('not a claim script')
    return {'op': op, 'name': name, 'claim_id': cid, 'payload': pay}


def signed_parts(payload):
    """(form, channel hash, signature, message / unsigned payload) of a claim payload"""
    if payload[:1] == b'\x01':
        return 'v2', payload[1:21], payload[21:85], payload[85:]
    if payload[:1] in (b'\x00', b'{'):
        return 'unsigned', b'', b'', payload[1:]
    sig = None
    unsigned = bytearray()
    for (num, wt, val, st, en) in pb_fields(payload):        # legacy_claim.proto: publisherSignature = 5
        if num == 5 and wt == 2:
            sig = val
        else:
            unsigned += payload[st:en]
    if sig is None:
        return 'unsigned', b'', b'', payload
    return 'legacy', pb_get(sig, 4)[::-1], pb_get(sig, 3), bytes(unsigned)     # certificateId = 4, signature = 3


def channel_identity(chan_raw, pos):
    """(claim hash, public key point bytes) of the channel output, read independently"""
    t = parse_tx(chan_raw)
    cp = claim_parts(t['outs'][pos]['script'])
    cid = hash160(sha256d(chan_raw) + struct.pack('>I', pos)) if cp['op'] == 0xb5 else cp['claim_id'][1]
    payload = cp['payload'][1]
    if payload[:1] == b'\x00':
        pk = pb_get(pb_get(payload[1:], 2), 1)            # claim.proto: channel = 2, public_key = 1
    elif payload[:1] == b'\x01':
        pk = pb_get(pb_get(payload[85:], 2), 1)
    else:
        pk = pb_get(pb_get(payload, 4), 4)                 # legacy: certificate = 4, publicKey = 4
    if pk is not None and len(pk) != 33:                   # DER SubjectPublicKeyInfo: ... BIT STRING 0x04 X Y
        pk = pk[-65:] if len(pk) >= 65 and pk[-65] == 4 else None
    return cid, pk


def check_claim(t, cpos, chan_raw, chan_pos, clayout):
    """CheckClaim of the specification on wire bytes, digest rendered from the specification's CLayout"""
    try:
        cp = claim_parts(t['outs'][cpos]['script'])
        form, chash, sig, msg = signed_parts(cp['payload'][1])
        cid, pk = channel_identity(chan_raw, chan_pos)
    except (ValueError, IndexError, TypeError, struct.error):
        return False, 'parse'
    if form == 'unsigned' or pk is None or len(sig) != 64:
        return False, 'unsigned'
    kind, h, _, _ = tail_of(t['outs'][cpos]['script'])
    fields = {'first_input_txid': t['ins'][0]['txid'], 'first_input_nout': u32(t['ins'][0]['nout']),
              'channel_hash': chash, 'message_bytes': msg,
              'address_prefix': b'\x55', 'claim_pubkey_hash': h, 'address_checksum': sha256d(b'\x55' + h)[:4],
              'unsigned_payload': msg, 'channel_hash_reversed': chash[::-1]}
    want_legacy = any(d['f'] == 'unsigned_payload' for d in clayout)
    if want_legacy != (form == 'legacy'):
        return False, 'form'
    digest = sha256(b''.join(fields[d['f']] for d in clayout))
    if chash != cid:
        return False, 'channel_id'
    if not ecdsa_ok(pk, digest, sig, False):
        return False, 'ecdsa'
    return True, ''


# =========================================================================== TLC leg

def leg_a(ctx):
    consts = {'MAXIN': 3, 'MAXOUT': 3, 'ALLKINDS': ctx.thorough, 'ALLCPOS': ctx.thorough, 'EMIT': True}
    cfg = tlc.make_cfg(constants=consts, invariants=INVS, constraint='Emit')
    res = tlc.run('Sighash', cfg, ctx, workers=1, coverage=True, timeout=1500, label='Sighash-emit')
    ctx.add_tlc(res, f'Sighash exhaustive {consts}: invariants {INVS} + emission of every state')
    if res.violated:
        ctx.violation('model:' + ','.join(res.violated), 'binding law violated in the specification', res.error_trace[:6000])
        return None
    tlc.require_coverage(res, ACTIONS, 'Sighash')
    cases = tlc.printed_json(res, 'CASE')
    if len(cases) != res.distinct:
        raise MachineryError(f'emitted {len(cases)} cases but TLC found {res.distinct} distinct states')
    # vacuity guards on what TLC reached (every `phase = X => ...` law has states with phase X; bound and unbound
    # mutations both occur for inputs and for claims)
    seen = {p: 0 for p in PHASES}
    for c in cases:
        seen[c['phase']] += 1
    if any(v == 0 for v in seen.values()):
        raise MachineryError(f'phases never reached: {seen}')
    mutated = [c for c in cases if c['phase'] == 'mutated']
    fields = {c['f'] for c in mutated}
    need = {'version', 'locktime', 'txid', 'nout', 'seq', 'samt', 'sscript', 'spre', 'redeem', 'sig', 'ht', 'pub', 'amount',
            'oscript', 'addin', 'addout', 'dropin', 'swapin', 'dropout', 'swapout', 'name', 'msg', 'chash', 'csig',
            'chan_pk', 'chan_id'}
    if fields != need:
        raise MachineryError(f'mutation fields differ from the expected set: {fields ^ need}')
    w = {'in_true': any(any(c['ins']) for c in mutated), 'in_false': any(not all(c['ins']) for c in mutated if c['ins']),
         'claim_valid': any(c['claim'] == 'valid' for c in mutated), 'claim_invalid': any(c['claim'] == 'invalid' for c in mutated),
         'legacy': any(c['ck'] == 'legacy' for c in mutated)}
    if not all(w.values()):
        raise MachineryError(f'vacuous emission: {w}')
    ctx.leg('A', constants=consts, invariants=INVS, states_per_phase=seen, mutation_fields=sorted(fields))
    return cases


# =========================================================================== real objects

class Env:
    """real ledger + wallet + seeded accounts under a deterministic loop"""

    def __init__(self, ctx):
        import lbry.wallet  # noqa: F401  pylint: disable=unused-import
        from lbry.wallet import Wallet, Account, Ledger, Database, Headers
        from lbry.wallet.bip32 import PrivateKey, KeyPath
        from .detloop import DetLoop
        self.ctx = ctx
        self.loop = DetLoop()
        with self.loop:
            self.ledger = Ledger({'db': Database(':memory:'), 'headers': Headers(':memory:')})
        self.run(self.ledger.db.open())
        self.wallet = Wallet()
        self.accounts = []
        self.pkhs = []
        gens = [None, None, {'name': 'single-address'}]
        for n, gen in enumerate(gens):
            d = {'seed': f'verif C04 account {n} seed {ctx.seed}'}
            if gen:
                d['address_generator'] = gen
            with self.loop:
                acc = Account.from_dict(self.ledger, self.wallet, d)
            self.accounts.append(acc)
            self.run(acc.ensure_address_gap())
            for a in self.run(acc.get_addresses()):
                self.pkhs.append(self.ledger.address_to_hash160(a))
        root = PrivateKey.from_seed(self.ledger, hashlib.sha512(f'verif C04 extra {ctx.seed}'.encode()).digest())
        self.extra_key = root.child(1)                                   # the time-lock key handed to sign()
        self.extra_pkh = hash160(self.extra_key.public_key.pubkey_bytes)
        self.channel_keys = [root.child(KeyPath.CHANNEL).child(i) for i in range(3)]
        self.channel_keys += [self.run(self.accounts[0].generate_channel_private_key()) for _ in range(2)]
        self.foreign_key = root.child(9)

    def run(self, coro):
        return self.loop.run(coro, limit=2_000_000)

    def sign_tx(self, tx):
        try:
            with watchdog(60):
                self.run(tx.sign(self.accounts, {'timelock': self.extra_key}))
        except Exception as e:  # pylint: disable=broad-except
            raise ProductRaised('Transaction.sign', e)

    @staticmethod
    def sign_claim(txo, channel):
        try:
            with watchdog(20):
                txo.sign(channel)
        except Exception as e:  # pylint: disable=broad-except
            raise ProductRaised('Output.sign', e)


def wire_from_attributes(tx):
    """the transaction as its public object state says (own encoders); used where the cached tx.raw may be stale"""
    return {'version': tx.version, 'locktime': tx.locktime,
            'ins': [{'txid': i.txo_ref.tx_ref.hash, 'nout': i.txo_ref.position, 'script': i.script.source, 'seq': i.sequence}
                    for i in tx.inputs],
            'outs': [{'amount': o.amount, 'script': o.script.source} for o in tx.outputs]}


NOUTS = [0, 1, 2, 7, 255, 256, 65535, 65536, 0xfffffffe]
SEQS = [0xffffffff, 0xffffffff, 0xfffffffe, 0, 1]
VERSIONS = [1, 1, 2, 0x7fffffff]
LOCKS = [0, 0, 1, 499999999, 500000000, 0xffffffff]
AMOUNTS = [1, 1000, 1000000, 100000000, 2100000000000000, 0xffffffffffffffff]


def rnd_text(rnd, n):
    return ''.join(rnd.choice('abcdefghij klmnopqrstuvwxyz0123456789') for _ in range(n))


class Scenario:
    """one real transaction of a given shape, its spent outputs, its channel"""

    def __init__(self, env, shape, rnd):
        from lbry.wallet import Transaction, Input, Output
        from lbry.wallet.script import InputScript, OutputScript
        from lbry.wallet.hash import TXRefImmutable
        from lbry.schema.claim import Claim
        from lbry.schema.support import Support
        from lbry.schema.purchase import Purchase
        self.env, self.shape, self.rnd = env, shape, rnd
        self.T = (Transaction, Input, Output, InputScript, OutputScript, TXRefImmutable, Claim, Support, Purchase)
        nin, nout, kinds, ck, cpos = shape
        self.cpos = cpos - 1 if ck != 'none' else None
        # ---- spent outputs
        self.prev_txos, inputs = [], []
        for j in range(nin):
            amount = rnd.choice(AMOUNTS[:5])
            pkh = rnd.choice(env.pkhs)
            if kinds[j] == 'pkh':
                prev = Output.pay_pubkey_hash(amount, pkh)
            elif kinds[j] == 'claimpkh':
                prev = self.claimish_output(amount, pkh, signed=False)
            else:
                redeem = InputScript(template=InputScript.TIME_LOCK_SCRIPT,
                                     values={'height': rnd.choice([1, 127, 128, 717738, 2 ** 31 - 1]), 'pubkey_hash': env.extra_pkh})
                prev = Output.pay_script_hash(amount, hash160(redeem.source))
            if j > 0 and rnd.random() < 0.4:
                # several inputs spend DIFFERENT outputs of the SAME previous transaction (same txid, another position)
                prev.tx_ref = self.prev_txos[0].tx_ref
                used = {p.position for p in self.prev_txos if p.tx_ref is prev.tx_ref}
                prev.position = next(n for n in list(NOUTS) + list(range(7, 60)) if n not in used)
            else:
                prev.tx_ref = TXRefImmutable.from_hash(rnd.randbytes(32), rnd.choice([-1, 0, 5, 1000000]))
                prev.position = rnd.choice(NOUTS)
            txi = Input.spend_time_lock(prev, redeem.source) if kinds[j] == 'timelock' else Input.spend(prev)
            txi.sequence = rnd.choice(SEQS) if rnd.random() < 0.8 else rnd.getrandbits(32)
            self.prev_txos.append(prev)
            inputs.append(txi)
        # ---- outputs
        outputs = []
        for k in range(nout):
            amount = rnd.choice(AMOUNTS) if rnd.random() < 0.8 else rnd.getrandbits(64)
            pkh = rnd.choice(env.pkhs) if rnd.random() < 0.5 else rnd.randbytes(20)
            if k == self.cpos:
                outputs.append(self.claimish_output(amount, pkh, signed=True))
            else:
                r = rnd.random()
                if r < 0.45:
                    outputs.append(Output.pay_pubkey_hash(amount, pkh))
                elif r < 0.6:
                    outputs.append(Output.pay_script_hash(amount, pkh))
                elif r < 0.85:
                    outputs.append(self.claimish_output(amount, pkh, signed=False))
                else:
                    outputs.append(Output.add_purchase_data(Purchase(rnd.randbytes(20)[::-1].hex())))
        self.tx = Transaction(version=rnd.choice(VERSIONS) if rnd.random() < 0.8 else rnd.getrandbits(32),
                              locktime=rnd.choice(LOCKS) if rnd.random() < 0.8 else rnd.getrandbits(32))
        self.tx.add_inputs(inputs).add_outputs(outputs)
        self.claim_txo = outputs[self.cpos] if self.cpos is not None else None
        # ---- channel
        self.channel = self.chan_pos = None
        if self.cpos is not None:
            key = rnd.choice(env.channel_keys)
            claim = Claim()
            claim.channel.title = rnd_text(rnd, rnd.choice([0, 5, 40]))
            cname = '@' + rnd_text(rnd, rnd.choice([1, 8, 30])).replace(' ', '-')
            if rnd.random() < 0.6:
                ch = Output.pay_claim_name_pubkey_hash(1000000, cname, claim, rnd.choice(env.pkhs))
            else:
                ch = Output.pay_update_claim_pubkey_hash(1000000, cname, rnd.randbytes(20).hex(), claim, rnd.choice(env.pkhs))
            ch.set_channel_private_key(key)
            self.chan_pos = rnd.choice([0, 1])
            fund = Output.pay_pubkey_hash(3000000, rnd.choice(env.pkhs))
            fund.tx_ref = TXRefImmutable.from_hash(rnd.randbytes(32), 5)
            fund.position = 0
            filler = Output.pay_pubkey_hash(5000, rnd.randbytes(20))
            Transaction().add_inputs([Input.spend(fund)]).add_outputs([filler, ch] if self.chan_pos else [ch, filler])
            self.channel = ch
            self.chan_key = key

    def claimish_output(self, amount, pkh, signed):
        _, _, Output, _, _, _, Claim, Support, _ = self.T
        rnd = self.rnd
        name = rnd_text(rnd, rnd.choice([1, 6, 60])).replace(' ', '-')
        r = rnd.random()
        if r < 0.75:
            claim = Claim()
            claim.stream.title = rnd_text(rnd, rnd.choice([3, 20, 70]))
            claim.stream.source.sd_hash = rnd.randbytes(48).hex()
            claim.stream.source.media_type = 'video/mp4'
            if rnd.random() < 0.5:
                claim.stream.description = rnd_text(rnd, rnd.choice([10, 200, 400, 70000 if rnd.random() < 0.1 else 300]))
            if rnd.random() < 0.3:
                claim.stream.tags.append(rnd_text(rnd, 5))
            if r < 0.45:
                return Output.pay_claim_name_pubkey_hash(amount, name, claim, pkh)
            return Output.pay_update_claim_pubkey_hash(amount, name, rnd.randbytes(20).hex(), claim, pkh)
        if signed or r < 0.9:
            support = Support()
            support.comment = rnd_text(rnd, rnd.choice([1, 12, 90]))
            return Output.pay_support_data_pubkey_hash(amount, name, rnd.randbytes(20).hex(), support, pkh)
        return Output.pay_support_pubkey_hash(amount, name, rnd.randbytes(20).hex(), pkh)

    def prevs(self):
        return [{'amount': p.amount, 'script': p.script.source} for p in self.prev_txos]

    def chan_raw(self):
        return ser_tx(wire_from_attributes(self.channel.tx_ref.tx))


class Replayer:
    def __init__(self, ctx, env):
        self.ctx, self.env = ctx, env
        self.stats = {'largest_output_script': 0, 'input_checks': 0, 'claim_checks_real': 0, 'claim_checks_independent': 0, 'resign_skipped_unparseable_claim': 0,
                      'mutated_skipped_after_failed_signing': 0, 'real_validation_raised': {}, 'wire_equivalent_mutations': 0,
                      'first_failing_conjunct': {}}

    # ---- verdicts
    def input_verdicts(self, t, prevs, layouts):
        if len(layouts) != len(t['ins']):
            raise MachineryError(f'{len(layouts)} layouts for {len(t["ins"])} inputs')
        out = []
        for i in range(len(t['ins'])):
            ok, why = check_input(t, prevs, i, layouts[i])
            self.stats['input_checks'] += 1
            if why:
                self.stats['first_failing_conjunct'][why] = self.stats['first_failing_conjunct'].get(why, 0) + 1
            out.append((ok, why))
        return out

    def real_claim_verdict(self, txo, channel):
        """the product's verdict; an exception is a refusal"""
        self.stats['claim_checks_real'] += 1
        try:
            with watchdog(20):
                return bool(txo.is_signed_by(channel, self.env.ledger)), ''
        except Exception as e:  # pylint: disable=broad-except
            n = type(e).__name__
            self.stats['real_validation_raised'][n] = self.stats['real_validation_raised'].get(n, 0) + 1
            return False, n

    def real_claim_verdict_wire(self, raw, cpos, chan_raw, chan_pos):
        from lbry.wallet import Transaction
        self.stats['claim_checks_real'] += 1
        try:
            with watchdog(20):
                txo = Transaction(raw).outputs[cpos]
                channel = Transaction(chan_raw).outputs[chan_pos]
                return bool(txo.is_signed_by(channel, self.env.ledger)), ''
        except Exception as e:  # pylint: disable=broad-except
            n = type(e).__name__
            self.stats['real_validation_raised'][n] = self.stats['real_validation_raised'].get(n, 0) + 1
            return False, n

    # ---- comparison with the specification's state
    def judge(self, case, label, ins, claims, replay, judge_inputs=True):
        """ins: [(ok, why)] from the independent verifier; claims: {'real-live'|'real-wire'|'independent': (ok, why)}"""
        ctx = self.ctx
        good = True
        if judge_inputs and case['ck'] != 'legacy':
            exp = case['ins']
            if len(exp) != len(ins):
                raise MachineryError(f'{label}: {len(ins)} inputs, specification has {len(exp)}')
            for i, (e, (ok, why)) in enumerate(zip(exp, ins)):
                if e != ok:
                    good = False
                    kind = case['kinds'][i] if i < len(case['kinds']) and case['f'] not in ('dropin', 'swapin') else 'input'
                    if e:
                        key = f"{case['phase']}:{kind}-input-does-not-verify:{why}"
                        what = (f'{label}: input {i} must verify under SIGHASH_ALL with the independent verifier but fails at '
                                f'conjunct {why}')
                    else:
                        key = f"{case['phase']}:{case['f']}:input-still-verifies"
                        what = f'{label}: input {i} verifies although the specification says its signature cannot cover this state'
                    ctx.violation(key, what, replay)
        for src, (ok, why) in claims.items():
            e = case['claim'] == 'valid'
            if e != ok:
                good = False
                if case['f'] == 'chan_id' and case['phase'] == 'mutated' and ok and src.startswith('real'):
                    key = CHAN_ID_KEY
                else:
                    key = f"claim:{case['ck']}:{case['phase']}:{case['f']}:{src}-says-{'valid' if ok else 'invalid'}"
                ctx.violation(key, f'{label}: channel signature is {"valid" if ok else f"invalid ({why})"} for {src}, '
                                   f'the specification says {case["claim"]}', replay)
        return good


def run_shape(rp, shape, cases, seed_tag):
    try:
        _run_shape(rp, shape, cases, seed_tag)
    except ProductRaised as e:
        rp.ctx.violation(f'product-raises:{e.where}:{type(e.exc).__name__}',
                         f'shape {shape}: the specification signs here, the product raised {e}', {'shape': shape, 'pass': seed_tag})


def _run_shape(rp, shape, cases, seed_tag):
    """replay every emitted state of one shape on real objects"""
    ctx, env = rp.ctx, rp.env
    by = {}
    for c in cases:
        by.setdefault((c['phase'], c['f'], c['j']), c)
    nin, nout, kinds, ck, cpos = shape
    label0 = f'shape(in={nin} out={nout} kinds={",".join(kinds)} claim={ck}@{cpos}) seed={seed_tag}'

    def claims_now(sc, raw):
        if sc.cpos is None:
            return {}
        t = parse_tx(raw)
        clayout = by[('new', 'none', 0)]['clayout']
        rp.stats['claim_checks_independent'] += 1
        return {'real-live': rp.real_claim_verdict(sc.claim_txo, sc.channel),
                'real-wire': rp.real_claim_verdict_wire(raw, sc.cpos, sc.chan_raw(), sc.chan_pos),
                'independent': check_claim(t, sc.cpos, sc.chan_raw(), sc.chan_pos, clayout)}

    def observe(sc, phase, fresh_raw):
        case = by[(phase, 'none', 0)]
        raw = sc.tx.raw if fresh_raw else ser_tx(wire_from_attributes(sc.tx))
        t = parse_tx(raw)
        ins = rp.input_verdicts(t, sc.prevs(), case['layouts'])
        ctx.count((shape, seed_tag, phase), nontrivial=phase != 'new')
        ok = rp.judge(case, f'{label0} phase={phase}', ins, claims_now(sc, raw),
                      replay_obj(case, raw, sc.prevs(), sc.chan_raw() if sc.channel else None, sc.cpos, sc.chan_pos))
        rp.stats['largest_output_script'] = max([rp.stats['largest_output_script']] + [len(o['script']) for o in t['outs']])
        return raw, ok

    # ---- path A: claim first, then the inputs
    sc = Scenario(env, shape, random.Random(f'{ctx.seed}:{seed_tag}:{shape}'))
    observe(sc, 'new', False)
    if sc.cpos is not None:
        env.sign_claim(sc.claim_txo, sc.channel)
        observe(sc, 'csigned', False)
    env.sign_tx(sc.tx)
    signed_raw, signed_ok = observe(sc, 'signed', True)
    if len(ctx.cov['samples']) < 4 and nin >= 2:
        ctx.sample({'shape': label0, 'signed_tx': signed_raw.hex()[:400] + '...', 'inputs_verified_independently': nin,
                    'claim_validates': sc.cpos is not None})
    # ---- path B: inputs first, claim signed late (input signatures go stale), inputs again
    if sc.cpos is not None:
        sb = Scenario(env, shape, random.Random(f'{ctx.seed}:{seed_tag}:B:{shape}'))
        env.sign_tx(sb.tx)
        observe(sb, 'txfirst', True)
        env.sign_claim(sb.claim_txo, sb.channel)
        observe(sb, 'stale', False)
        env.sign_tx(sb.tx)
        observe(sb, 'signed', True)
    # ---- mutations of the signed transaction
    muts = [c for c in cases if c['phase'] == 'mutated']
    if not signed_ok:
        rp.stats['mutated_skipped_after_failed_signing'] += len(muts)
        return
    base = Wire(parse_tx(signed_raw), sc.prevs(), sc.chan_raw() if sc.channel else None, sc.chan_pos, sc.cpos)
    for c in muts:
        rnd = random.Random(f'{ctx.seed}:{seed_tag}:{shape}:{c["f"]}:{c["j"]}')
        w = base.mutated(c['f'], c['j'], rnd, env)
        replay_mutated(rp, c, by.get(('resigned', c['f'], c['j'])), w, base, sc, f'{label0} mutate {c["f"]}[{c["j"]}]', shape, seed_tag)


def replay_obj(case, raw, prevs, chan_raw, cpos, chan_pos, judge_inputs=True, **extra):
    """everything `./check C04 --replay` needs to evaluate the case again"""
    return dict(extra, case=case, tx=raw.hex(), spent_outputs=[{'amount': p['amount'], 'script': p['script'].hex()} for p in prevs],
                channel_tx=chan_raw.hex() if chan_raw else None, claim_output=cpos, channel_output=chan_pos, judge_inputs=judge_inputs)


def replay_one(ctx):
    """./check C04 --replay <file>: evaluate the recorded transaction again (independent verifier + real is_signed_by)"""
    import json
    with open(ctx.replay) as f:
        r = json.load(f)['replay']
    if not isinstance(r, dict) or 'tx' not in r:
        raise MachineryError('this replay file does not hold a transaction (model-level or signing-refusal finding)')
    rp = Replayer(ctx, Env(ctx))
    case, raw = r['case'], bytes.fromhex(r['tx'])
    t = parse_tx(raw)
    prevs = [{'amount': p['amount'], 'script': bytes.fromhex(p['script'])} for p in r['spent_outputs']]
    ins = rp.input_verdicts(t, prevs, case['layouts']) if r['judge_inputs'] and case['ck'] != 'legacy' else []
    claims = {}
    if r['channel_tx'] is not None:
        craw = bytes.fromhex(r['channel_tx'])
        claims = {'real-wire': rp.real_claim_verdict_wire(raw, r['claim_output'], craw, r['channel_output']),
                  'independent': check_claim(t, r['claim_output'], craw, r['channel_output'], case['clayout'])}
    ctx.count(('replay', r['tx'][:32]))
    print(f'replay: phase={case["phase"]} mutation={case["f"]}[{case["j"]}] inputs observed={[v for v in ins]} expected={case["ins"]}; '
          f'claim observed={claims} expected={case["claim"]}', flush=True)
    rp.judge(case, 'replay', ins, claims, r, judge_inputs=r['judge_inputs'])


class Wire:
    """a transaction as wire-level data the driver can mutate: parsed tx, spent outputs, channel transaction"""

    def __init__(self, t, prevs, chan_raw, chan_pos, cpos):
        self.t, self.prevs, self.chan_raw, self.chan_pos, self.cpos = t, prevs, chan_raw, chan_pos, cpos
        self.note = ''

    def copy(self):
        return Wire(copy_tx(self.t), [dict(p) for p in self.prevs], self.chan_raw, self.chan_pos, self.cpos)

    def mutated(self, f, j, rnd, env):
        w = self.copy()
        t, k = w.t, j - 1
        if f == 'version':
            t['version'] = flip_int(t['version'], 32, rnd)
        elif f == 'locktime':
            t['locktime'] = flip_int(t['locktime'], 32, rnd)
        elif f == 'txid':
            t['ins'][k]['txid'] = flip(t['ins'][k]['txid'], 0, 32, rnd)
        elif f == 'nout':
            t['ins'][k]['nout'] = flip_int(t['ins'][k]['nout'], 32, rnd)
        elif f == 'seq':
            t['ins'][k]['seq'] = flip_int(t['ins'][k]['seq'], 32, rnd)
        elif f == 'samt':
            w.prevs[k]['amount'] = flip_int(w.prevs[k]['amount'], 64, rnd)
        elif f == 'sscript':
            _, _, s, e = tail_of(w.prevs[k]['script'])
            w.prevs[k]['script'] = flip(w.prevs[k]['script'], s, e, rnd)
        elif f == 'spre':                                   # inside the claim name of the spent claim script
            o = ops_of(w.prevs[k]['script'])[1]
            w.prevs[k]['script'] = flip(w.prevs[k]['script'], o[2], o[3], rnd)
        elif f in ('sig', 'ht', 'pub', 'redeem'):
            s = t['ins'][k]['script']
            ops = ops_of(s)
            if f == 'sig':
                t['ins'][k]['script'] = flip(s, ops[0][2], ops[0][3] - 1, rnd)
            elif f == 'ht':
                t['ins'][k]['script'] = flip(s, ops[0][3] - 1, ops[0][3], rnd)
            elif f == 'pub':
                t['ins'][k]['script'] = flip(s, ops[1][2], ops[1][3], rnd)
            else:                                           # the height pushed at the start of the carried redeem script
                inner = ops_of(ops[2][1])[0]
                t['ins'][k]['script'] = flip(s, ops[2][2] + inner[2], ops[2][2] + inner[3], rnd)
        elif f == 'amount':
            t['outs'][k]['amount'] = flip_int(t['outs'][k]['amount'], 64, rnd)
        elif f == 'oscript':
            _, _, s, e = tail_of(t['outs'][k]['script'])
            t['outs'][k]['script'] = flip(t['outs'][k]['script'], s, e, rnd)
        elif f == 'addin':
            pkh = rnd.choice(env.pkhs)
            t['ins'].append({'txid': rnd.randbytes(32), 'nout': rnd.choice(NOUTS), 'seq': 0xffffffff,
                             'script': bytes([72]) + bytes(72) + bytes([33]) + bytes(33)})
            w.prevs.append({'amount': 12345, 'script': b'\x76\xa9\x14' + pkh + b'\x88\xac'})
        elif f == 'addout':
            t['outs'].append({'amount': rnd.choice(AMOUNTS), 'script': b'\x76\xa9\x14' + rnd.randbytes(20) + b'\x88\xac'})
        elif f == 'dropin':
            del t['ins'][k]
            del w.prevs[k]
        elif f == 'swapin':
            t['ins'][k], t['ins'][k + 1] = t['ins'][k + 1], t['ins'][k]
            w.prevs[k], w.prevs[k + 1] = w.prevs[k + 1], w.prevs[k]
        elif f == 'dropout':
            del t['outs'][k]
            if w.cpos is not None and w.cpos > k:
                w.cpos -= 1
        elif f == 'swapout':
            t['outs'][k], t['outs'][k + 1] = t['outs'][k + 1], t['outs'][k]
            if w.cpos == k:
                w.cpos = k + 1
            elif w.cpos == k + 1:
                w.cpos = k
        elif f in ('name', 'msg', 'chash', 'csig'):
            s = t['outs'][w.cpos]['script']
            cp = claim_parts(s)
            p0 = cp['payload'][2]
            if f == 'name':
                a, b = cp['name'][2], cp['name'][3]
            else:
                a, b = claim_field_range(cp['payload'][1], f, rnd)
                a, b = p0 + a, p0 + b
            t['outs'][w.cpos]['script'] = flip(s, a, b, rnd)
        elif f == 'chan_pk':
            ct = parse_tx(w.chan_raw)
            _, pk = channel_identity(w.chan_raw, w.chan_pos)
            s = ct['outs'][w.chan_pos]['script']
            core = pk[1:] if len(pk) == 65 else pk
            at = s.find(core)
            if at < 0:
                raise MachineryError('channel public key not found in the channel script')
            ct['outs'][w.chan_pos]['script'] = flip(s, at, at + len(core), rnd)
            w.chan_raw = ser_tx(ct)
        elif f == 'chan_id':                                # another channel claim carrying the same public key
            ct = parse_tx(w.chan_raw)
            cp = claim_parts(ct['outs'][w.chan_pos]['script'])
            if cp['op'] == 0xb5:                            # claim id = hash of the channel's outpoint
                which = rnd.choice(['txid', 'locktime', 'amount'])
                if which == 'txid':
                    ct['ins'][0]['txid'] = flip(ct['ins'][0]['txid'], 0, 32, rnd)
                elif which == 'locktime':
                    ct['locktime'] = flip_int(ct['locktime'], 32, rnd)
                else:
                    ct['outs'][w.chan_pos]['amount'] = flip_int(ct['outs'][w.chan_pos]['amount'], 40, rnd)
            else:                                           # claim id carried by the update script
                s = ct['outs'][w.chan_pos]['script']
                ct['outs'][w.chan_pos]['script'] = flip(s, cp['claim_id'][2], cp['claim_id'][3], rnd)
            w.chan_raw = ser_tx(ct)
        else:
            raise MachineryError(f'unknown mutation {f}')
        return w


def claim_field_range(payload, f, rnd):
    """byte range of the named field inside a claim payload (current or legacy form)"""
    form, chash, sig, msg = signed_parts(payload)
    if form == 'v2':
        return {'chash': (1, 21), 'csig': (21, 85), 'msg': (85, len(payload))}[f]
    if form != 'legacy':
        raise MachineryError('claim payload is not signed')
    if f == 'chash':
        at = payload.find(chash[::-1])
        return at, at + 20
    if f == 'csig':
        at = payload.find(sig)
        return at, at + len(sig)
    # legacy content: inside the text / hash fields of the stream (3) -> metadata (2) / source (3)
    stream = pb_get(payload, 3)
    texts = [v for (_, wt, v, _, _) in pb_fields(pb_get(stream, 2)) if wt == 2 and len(v) >= 4]
    texts += [v for (_, wt, v, _, _) in pb_fields(pb_get(stream, 3)) if wt == 2 and len(v) >= 4]
    v = rnd.choice(texts)
    at = payload.find(v)
    return at, at + len(v)


def replay_mutated(rp, case, resigned_case, w, base, sc, label, shape, seed_tag):
    ctx, env = rp.ctx, rp.env
    raw = ser_tx(w.t)
    ins = rp.input_verdicts(w.t, w.prevs, case['layouts'])
    claims = {}
    if w.cpos is not None:
        rp.stats['claim_checks_independent'] += 1
        claims['independent'] = check_claim(w.t, w.cpos, w.chan_raw, w.chan_pos, case['clayout'])
        claims['real-wire'] = rp.real_claim_verdict_wire(raw, w.cpos, w.chan_raw, w.chan_pos)
        if claims['real-wire'][0] and case['claim'] == 'invalid' and case['f'] in ('msg', 'chash', 'csig'):
            if wire_equivalent(raw, w.cpos, ser_tx(base.t), base.cpos):
                rp.stats['wire_equivalent_mutations'] += 1     # same content in another encoding: not a change of the claim
                claims.pop('real-wire')
                claims.pop('independent')
    replay = replay_obj(case, raw, w.prevs, w.chan_raw, w.cpos, w.chan_pos, signed_tx_before_mutation=ser_tx(base.t).hex())
    ctx.count((shape, seed_tag, case['f'], case['j']), nontrivial=True)
    # the input side of a mutated state involves no product code after signing: a mismatch there is the harness's fault
    for i, (e, (ok, why)) in enumerate(zip(case['ins'], ins)):
        if e != ok:
            raise MachineryError(f'{label}: independent verifier says {ok} ({why}) for input {i}, specification says {e}; '
                                 f'the signed transaction verified, so the driver or the specification is wrong')
    rp.judge(case, label, ins, claims, replay)
    if resigned_case is None:
        return
    # ---- sign the mutated objects again with the real code
    out = resign(env, w, sc)
    if out is None:
        rp.stats['resign_skipped_unparseable_claim'] += 1
        return
    raw2, live_txo, live_channel = out
    t2 = parse_tx(raw2)
    ins2 = rp.input_verdicts(t2, w.prevs, resigned_case['layouts'])
    claims2 = {}
    if w.cpos is not None:
        rp.stats['claim_checks_independent'] += 1
        claims2 = {'real-live': rp.real_claim_verdict(live_txo, live_channel),
                   'real-wire': rp.real_claim_verdict_wire(raw2, w.cpos, w.chan_raw, w.chan_pos),
                   'independent': check_claim(t2, w.cpos, w.chan_raw, w.chan_pos, resigned_case['clayout'])}
    ctx.count((shape, seed_tag, 're', case['f'], case['j']), nontrivial=True)
    rp.judge(resigned_case, label + ' then sign again', ins2, claims2,
             replay_obj(resigned_case, raw2, w.prevs, w.chan_raw, w.cpos, w.chan_pos, mutated_tx_before_signing_again=raw.hex()))


def wire_equivalent(raw_a, cpos_a, raw_b, cpos_b):
    """both claim outputs decode (with the product's decoder) to the same signed content"""
    from lbry.wallet import Transaction
    try:
        a, b = Transaction(raw_a).outputs[cpos_a].signable, Transaction(raw_b).outputs[cpos_b].signable
        return (a.to_message_bytes(), a.signature, a.signing_channel_hash, a.unsigned_payload) == \
               (b.to_message_bytes(), b.signature, b.signing_channel_hash, b.unsigned_payload)
    except Exception:  # pylint: disable=broad-except
        return False


def resign(env, w, sc):
    """rebuild real objects from the mutated wire data and let the real code sign again (claim first, then inputs)"""
    Transaction, Input, Output, _, OutputScript, TXRefImmutable, _, _, _ = sc.T
    tx = Transaction(version=w.t['version'], locktime=w.t['locktime'])
    inputs = []
    for n, p in zip(w.t['ins'], w.prevs):
        prev = Output(p['amount'], OutputScript(p['script']), tx_ref=TXRefImmutable.from_hash(n['txid'], 5), position=n['nout'])
        if tail_of(p['script'])[0] == 'sh':
            txi = Input.spend_time_lock(prev, ops_of(n['script'])[2][1])
        else:
            txi = Input.spend(prev)
        txi.sequence = n['seq']
        inputs.append(txi)
    outputs = [Output(o['amount'], OutputScript(o['script'])) for o in w.t['outs']]
    tx.add_inputs(inputs).add_outputs(outputs)
    txo = channel = None
    if w.cpos is not None:
        txo = outputs[w.cpos]
        channel = Transaction(w.chan_raw).outputs[w.chan_pos]
        channel.private_key = sc.chan_key
        try:
            txo.signable.to_message_bytes()
        except Exception:  # pylint: disable=broad-except
            return None                                     # the flipped bit made the payload undecodable: nothing to sign
        env.sign_claim(txo, channel)
    env.sign_tx(tx)
    return tx.raw, txo, channel


# =========================================================================== recorded transactions of old releases

def recorded_claims():
    """{test name: (stream tx bytes, channel tx bytes)} from the hex literals of the upstream test module"""
    path = os.path.join(REPO, 'tests', 'unit', 'wallet', 'test_schema_signing.py')
    tree = ast.parse(open(path).read())
    out = {}
    for node in ast.walk(tree):
        if not isinstance(node, ast.FunctionDef):
            continue
        found = {}
        for n in ast.walk(node):
            if isinstance(n, ast.Assign) and len(n.targets) == 1 and isinstance(n.targets[0], ast.Name) \
                    and isinstance(n.value, ast.Call) and getattr(n.value.func, 'id', None) == 'Transaction' and n.value.args:
                c = n.value.args[0]
                if isinstance(c, ast.Call) and getattr(c.func, 'id', '') == 'unhexlify' and c.args:
                    v = ast.literal_eval(c.args[0])
                    found[n.targets[0].id] = bytes.fromhex(v.decode() if isinstance(v, bytes) else v)
        if 'stream_tx' in found and 'channel_tx' in found:
            out[node.name] = (found['stream_tx'], found['channel_tx'])
    return out


def leg_recorded(rp, cases):
    ctx = rp.ctx
    rec = recorded_claims()
    if len(rec) < 3:
        raise MachineryError(f'expected at least 3 recorded signed claims in the upstream test module, found {len(rec)}')
    forms = {}
    calib = 0
    for name, (sraw, craw) in sorted(rec.items()):
        t = parse_tx(sraw)
        form = signed_parts(claim_parts(t['outs'][0]['script'])['payload'][1])[0]
        forms[name] = form
        ck = 'legacy' if form == 'legacy' else 'v2'
        mine = [c for c in cases if c['ck'] == ck and c['nin'] == 1 and c['nout'] == 2 and c['cpos'] == 1 and c['kinds'] == ['pkh']
                and c['phase'] in ('signed', 'mutated')
                and c['f'] in ('none', 'version', 'locktime', 'amount', 'oscript', 'txid', 'nout', 'name', 'msg', 'chash', 'csig',
                               'chan_pk', 'chan_id')]
        if not any(c['phase'] == 'signed' for c in mine) or len(mine) < 10:
            raise MachineryError(f'no specification states for the recorded {ck} claim {name}')
        base = Wire(t, [{'amount': 0, 'script': b''}], craw, 0, 0)
        # calibration of the independent input verifier on a transaction signed by other software (mainnet): the spent
        # script is assumed to be the plain pay-to-pubkey-hash of the carried key
        for raw in (sraw, craw):
            tt = parse_tx(raw)
            pub = ops_of(tt['ins'][0]['script'])[1][1]
            prev = [{'amount': 0, 'script': b'\x76\xa9\x14' + hash160(pub) + b'\x88\xac'}]
            lay = [c for c in cases if c['nin'] == 1 and c['nout'] == 2 and c['kinds'] == ['pkh'] and c['phase'] == 'signed'
                   and c['ck'] == 'none'][0]['layouts']
            if check_input(tt, prev, 0, lay[0])[0]:
                calib += 1
        for c in mine:
            rnd = random.Random(f'{ctx.seed}:{name}:{c["f"]}:{c["j"]}')
            w = base.mutated(c['f'], c['j'], rnd, rp.env) if c['phase'] == 'mutated' else base.copy()
            raw = ser_tx(w.t)
            rp.stats['claim_checks_independent'] += 1
            claims = {'real-wire': rp.real_claim_verdict_wire(raw, 0, w.chan_raw, 0),
                      'independent': check_claim(w.t, 0, w.chan_raw, 0, c['clayout'])}
            if claims['real-wire'][0] and c['claim'] == 'invalid' and c['f'] in ('msg', 'chash', 'csig') \
                    and wire_equivalent(raw, 0, sraw, 0):
                rp.stats['wire_equivalent_mutations'] += 1
                continue
            ctx.count(('recorded', name, c['phase'], c['f'], c['j']), nontrivial=True)
            label = f'recorded claim {name} ({form}) ' + ('as recorded' if c['phase'] == 'signed' else f'mutate {c["f"]}[{c["j"]}]')
            replay = replay_obj(c, raw, [], w.chan_raw, 0, 0, judge_inputs=False, recorded=name)
            if c['phase'] == 'signed' and not claims['real-wire'][0]:
                ctx.violation(f'old-release-signature-rejected:{form}', f'{label}: is_signed_by = False ({claims["real-wire"][1]})', replay)
                claims.pop('real-wire')
            rp.judge(c, label, [], claims, replay, judge_inputs=False)     # the inputs of recorded transactions are foreign
    if 'legacy' not in forms.values() or 'v2' not in forms.values():
        raise MachineryError(f'recorded claims do not cover both signature forms: {forms}')
    ctx.leg('recorded', claims=forms, mainnet_inputs_verified_by_independent_verifier=calib, mainnet_inputs_tried=2 * len(rec))


# =========================================================================== the wallet's own builders

def leg_builders(rp, cases):
    """the wallet's own builders: Transaction.pay / purchase / create (explicit inputs, change added) and claim_create /
    claim_update / support with a signing channel followed by the daemon's sequence (sign the claim against the real
    first input, then sign the inputs); every result is judged like a `signed` state of the specification"""
    from lbry.wallet import Transaction, Input, Output
    from lbry.wallet.hash import TXRefImmutable
    from lbry.schema.claim import Claim
    ctx, env = rp.ctx, rp.env
    lay_in = {}
    for c in cases:                                  # input layouts by (number of inputs, number of outputs)
        if c['ck'] != 'legacy' and c['f'] == 'none' and 'timelock' not in c['kinds']:
            lay_in.setdefault((c['nin'], c['nout']), c['layouts'])
    clayout = [c for c in cases if c['ck'] == 'v2'][0]['clayout']
    n = 90 if ctx.thorough else 30
    flows = ['pay', 'create', 'claim', 'update', 'support', 'purchase']
    done = {f: 0 for f in flows}
    failed = {}

    def fund(acc, amount, rnd):
        """one confirmed spendable output of `acc` in the wallet database (as the sync code would have stored it)"""
        pkh = env.ledger.address_to_hash160(rnd.choice(env.run(acc.receiving.get_addresses())))
        utxo = Output.pay_pubkey_hash(amount, pkh)
        src = Output.pay_pubkey_hash(amount + 1000, rnd.randbytes(20))
        src.tx_ref = TXRefImmutable.from_hash(rnd.randbytes(32), 5)
        src.position = 0
        ftx = Transaction(is_verified=True, height=5).add_inputs([Input.spend(src)]).add_outputs([utxo])
        env.run(env.ledger.db.insert_transaction(ftx))
        env.run(env.ledger.db.save_transaction_io(ftx, env.ledger.hash160_to_address(pkh), pkh, ''))

    for k in range(n):
        rnd = random.Random(f'{ctx.seed}:builders:{k}')
        flow = flows[k % len(flows)]
        acc = env.accounts[k % 2]
        holding = env.ledger.hash160_to_address(rnd.choice(env.pkhs))
        channel = None
        if flow in ('claim', 'update', 'support'):
            channel = Scenario(env, (1, 1, ['pkh'], 'v2', 1), rnd).channel
        claim = Claim()
        claim.stream.title = rnd_text(rnd, 12)
        claim.stream.source.sd_hash = rnd.randbytes(48).hex()
        def build():
            if flow == 'pay':
                fund(acc, rnd.choice([200000000, 990000000]), rnd)
                return env.run(Transaction.pay(rnd.choice([1000000, 50000000]), holding, [acc], acc))
            if flow == 'purchase':
                fund(acc, 300000000, rnd)
                return env.run(Transaction.purchase(rnd.randbytes(20).hex(), 25000000, holding, [acc], acc))
            if flow == 'create':
                utxos = []
                for _ in range(rnd.choice([1, 2, 3])):
                    u = Output.pay_pubkey_hash(rnd.choice([150000000, 200000000]), rnd.choice(env.pkhs))
                    u.tx_ref = TXRefImmutable.from_hash(rnd.randbytes(32), 5)
                    u.position = rnd.choice(NOUTS[:6])
                    utxos.append(u)
                outs = [Output.pay_pubkey_hash(30000000, rnd.randbytes(20))]
                if rnd.random() < 0.5:
                    outs.append(Output.pay_script_hash(20000000, rnd.randbytes(20)))
                return env.run(Transaction.create([Input.spend(u) for u in utxos], outs, env.accounts, acc))
            if flow == 'claim':
                fund(acc, 400000000, rnd)
                return env.run(Transaction.claim_create(rnd_text(rnd, 6).replace(' ', '-'), claim, 10000000, holding, [acc], acc, channel))
            if flow == 'update':
                old = Output.pay_claim_name_pubkey_hash(100000000, 'old-name', Claim(), rnd.choice(env.pkhs))
                old.tx_ref = TXRefImmutable.from_hash(rnd.randbytes(32), 5)
                old.position = rnd.choice([0, 1])
                return env.run(Transaction.claim_update(old, claim, 10000000, holding, [acc], acc, channel))
            fund(acc, 400000000, rnd)
            return env.run(Transaction.support('supported', rnd.randbytes(20).hex(), 10000000, holding, [acc], acc, channel,
                                               rnd_text(rnd, 9)))
        try:
            with watchdog(60):
                tx = build()
        except Exception as e:  # pylint: disable=broad-except
            failed[flow] = f'{type(e).__name__}: {e}'      # funding / coin selection is C03's subject, not judged here
            continue
        if channel is not None:                            # the daemon's sequence (jsonrpc_stream_create / _update / support_create)
            try:
                env.sign_claim(tx.outputs[0], channel)
                env.sign_tx(tx)
            except ProductRaised as e:
                ctx.violation(f'product-raises:{e.where}:{type(e.exc).__name__}', f'wallet builder {flow} #{k}: {e}', {'flow': flow})
                continue
        raw = tx.raw
        t = parse_tx(raw)
        prevs = [{'amount': i.txo_ref.txo.amount, 'script': i.txo_ref.txo.script.source} for i in tx.inputs]
        lays = lay_in.get((len(t['ins']), len(t['outs'])))
        if lays is None:
            continue                                 # a shape beyond the specification's bound
        ins = rp.input_verdicts(t, prevs, lays)
        claims = {}
        if channel is not None:
            craw = ser_tx(wire_from_attributes(channel.tx_ref.tx))
            rp.stats['claim_checks_independent'] += 1
            claims = {'real-live': rp.real_claim_verdict(tx.outputs[0], channel),
                      'real-wire': rp.real_claim_verdict_wire(raw, 0, craw, channel.position),
                      'independent': check_claim(t, 0, craw, channel.position, clayout)}
        case = {'ck': 'v2' if channel is not None else 'none', 'phase': 'signed', 'f': flow, 'j': 0,
                'kinds': ['claimpkh' if tail_of(p['script'])[2] > 3 else 'pkh' for p in prevs],
                'ins': [True] * len(t['ins']), 'claim': 'valid' if channel is not None else 'na'}
        ctx.count(('builder', flow, k), nontrivial=True)
        rp.judge(case, f'wallet builder {flow} #{k} ({len(t["ins"])} in, {len(t["outs"])} out)', ins, claims,
                 replay_obj(dict(case, layouts=lays, clayout=clayout), raw, prevs, craw if channel is not None else None,
                            0 if channel is not None else None, channel.position if channel is not None else None, flow=flow))
        done[flow] += 1
    if min(done.values()) == 0:
        raise MachineryError(f'a builder flow produced no transaction inside the specification bound: {done} {failed}')
    ctx.leg('builders', transactions=done, builder_refused=failed)


def selftest_binding(rp, cases):
    """the oracle really decides: a correct real transaction is accepted, every inverted expectation is flagged, and a
    layout with two fields exchanged (not the specification's) no longer verifies"""
    ctx, env = rp.ctx, rp.env

    class Probe:
        def __init__(self):
            self.keys = []

        def violation(self, key, what, replay_obj=None):
            self.keys.append(key)
            return True
    shape = (2, 2, ('pkh', 'pkh'), 'v2', 1)
    case = [c for c in cases if (c['nin'], c['nout'], tuple(c['kinds']), c['ck'], c['cpos']) == shape and c['phase'] == 'signed'][0]
    sc = Scenario(env, shape, random.Random(f'{ctx.seed}:selftest'))
    env.sign_claim(sc.claim_txo, sc.channel)
    env.sign_tx(sc.tx)
    raw = sc.tx.raw
    t = parse_tx(raw)
    probe = Probe()
    shadow = Replayer(probe, env)

    def flagged(c, lays=None):
        probe.keys = []
        ins = shadow.input_verdicts(t, sc.prevs(), lays or c['layouts'])
        claims = {'real-wire': shadow.real_claim_verdict_wire(raw, sc.cpos, sc.chan_raw(), sc.chan_pos),
                  'independent': check_claim(t, sc.cpos, sc.chan_raw(), sc.chan_pos, c['clayout'])}
        shadow.judge(c, 'selftest', ins, claims, None)
        return list(probe.keys)
    res = {'correct_case_accepted': flagged(case) == [],
           'inverted_input_expectation_flagged': flagged(dict(case, ins=[False, True])) != [],
           'inverted_claim_expectation_flagged': flagged(dict(case, claim='invalid')) != []}
    # (several exchanges are tried: two neighbouring fields may happen to hold the same bytes in this scenario - e.g. a random
    # lock time of 1 next to the hash type 1 - and exchanging those changes nothing; one rejected exchange is the evidence wanted)
    a = [i for i, d in enumerate(case['layouts'][0]) if d['f'] == 'locktime'][0]
    rejected = False
    for pos in (a, 0, 1, max(0, a - 1)):
        lay = [list(x) for x in case['layouts']]
        if pos + 1 >= len(lay[0]):
            continue
        lay[0][pos], lay[0][pos + 1] = lay[0][pos + 1], lay[0][pos]
        if any('does-not-verify' in k for k in flagged(case, lay)):
            rejected = True
            break
    res['exchanged_layout_fields_rejected'] = rejected
    cl = list(case['clayout'])
    cl[0], cl[1] = cl[1], cl[0]
    res['exchanged_digest_fields_rejected'] = flagged(dict(case, clayout=cl)) != []
    if not all(res.values()):
        raise MachineryError(f'binding self-test failed: {res}')
    ctx.leg('selftest', **res)


# =========================================================================== entry point

def run(ctx):
    try:
        import ecdsa  # noqa: F401  pylint: disable=unused-import
    except ImportError as e:
        raise MachineryError(f'pure-Python ecdsa package missing: {e}')
    if ctx.replay:
        replay_one(ctx)
        return
    cases = leg_a(ctx)
    if cases is None:
        return
    env = Env(ctx)
    rp = Replayer(ctx, env)
    shapes = {}
    for c in cases:
        if c['ck'] == 'legacy':
            continue
        shapes.setdefault((c['nin'], c['nout'], tuple(c['kinds']), c['ck'], c['cpos']), []).append(c)
    passes = 3 if ctx.thorough else 1
    for p in range(passes):
        for shape in sorted(shapes):
            run_shape(rp, shape, shapes[shape], p)
    leg_recorded(rp, cases)
    leg_builders(rp, cases)
    if not ctx.violations and not ctx.known_hit:
        selftest_binding(rp, cases)          # needs a correctly signing product as its positive control
    else:
        ctx.leg('selftest', skipped='violations present: no positive control')
    ctx.cov['traces_validated_against_impl'] = len(cases) * passes
    ctx.cov['exhaustive'] = True
    ctx.leg('B', shapes=len(shapes), passes=passes, **rp.stats)
    ctx.cov['rule'] = (
        'every TLC state of Sighash.tla is one case: transaction shape (1-3 inputs x 1-3 outputs x kinds of spent output '
        '(pay-to-pubkey-hash, claim/update/support script, time-locked script hash) x no claim / channel-signed claim at an '
        'output position / recorded legacy claim) x signing order (new, claim first, inputs first, stale, signed) x ONE mutated '
        'field (every field of the transaction, of a spent output, of the claim, of the channel, every signature and public '
        'key, add/drop/swap of inputs and outputs) x signed again. Each case is replayed on a real transaction built and '
        'signed by the wallet code with seeded keys and seeded field values (boundary and random 32/64-bit values, scripts '
        'with 1-byte, PUSHDATA1, PUSHDATA2 and PUSHDATA4 pushes); a mutation is one seeded bit flip inside the field. '
        'Distinct = (shape, pass, phase or mutation); non-trivial = every case except the unsigned `new` state.')
    ctx.assumptions += [
        'the pure-Python ecdsa package and hashlib (sha256, ripemd160) are correct: they are the independent implementation',
        'a refusal by exception (TypeError/ValueError/AssertionError/DecodeError from is_signed_by) counts as "does not validate"',
        'ECDSA malleability (r, n-s) is not a single-bit mutation and is outside the quantifier',
        'spent outputs are handed to the signer as objects; that they are what the chain holds is C09\'s subject',
    ]
