"""G03 -- reflector protocol (growth check; statement in growth.jsonl).

Leg A: Reflector.tla exhaustively (MCReflector): honest client x every held subset x partial_needs, every interleaving of
       client, request tasks, deferred writes, executor jobs, re-chunking of payload and responses, disconnect / cancel at
       every step, timers; the hostile catalogue and every script of <= 3 (thorough: 4) units; liveness; the intended server
       with a request buffer (REASSEMBLE) for comparison; the server as found with cut requests (violates HonestCompletes:
       the model exhibits the finding); negative controls VERIFY / OBEYNEEDS / CLOSEWRITER = FALSE; witnesses.
Leg B: every (nb, held subset, partial_needs) case TLC emits, with the outcome computed in TLA+, run on the REAL pair
       (ManagedStream.upload_to_reflector + StreamReflectorClient against ReflectorServer's ReflectorServerProtocol over
       driver-fed transports) under seeded fragmentation schedules, and compared.
Leg C: the same real pair with a disconnect / cancel at every step; scripted hostile clients (the catalogue TLC emits made
       concrete, plus concrete extras: oversized / mistyped / non-UTF8 requests, odd versions, sizes 0 / negative / huge)
       each followed by an honest session on the same server; a scripted hostile SERVER against the real client; two
       concurrent sessions on one server.  Every session is recorded (stimuli + observations) and judged by TLC:
       ReflectorTrace.tla replays it through the actions of Reflector.tla (all invariants on the replayed states) and
       evaluates the clauses of the statement on the final stores."""
import asyncio
import binascii
import hashlib
import json
import os
import shutil

from . import tlc
from .common import MachineryError, watchdog
from .detloop import DetLoop, FakeTransport

PARTIALN = 3          # needs[:3] in ReflectorServerProtocol.handle_request
SETTLE = 400.0        # virtual seconds after the client is done: every wait_for of either side has expired by then

# ------------------------------------------------------------------------------------------------ loop with a fake network


class _FakeServer:
    """what loop.create_server returns, as far as ReflectorServer.start_server uses it"""

    def __init__(self, loop, factory):
        self.loop, self.factory = loop, factory
        self.closed = False

    async def __aenter__(self):
        return self

    async def __aexit__(self, *exc):
        self.closed = True

    async def serve_forever(self):
        await self.loop.create_future()


class NetLoop(DetLoop):
    """DetLoop + create_connection / create_server wired to driver-fed transports (no sockets)"""

    def __init__(self):
        super().__init__()
        self.listeners = {}       # port -> _FakeServer
        self.links = []           # Link objects in creation order

    async def create_server(self, protocol_factory, host=None, port=None, **kw):
        srv = _FakeServer(self, protocol_factory)
        self.listeners[port] = srv
        return srv

    async def create_connection(self, protocol_factory, host=None, port=None, **kw):
        srv = self.listeners.get(port)
        if srv is None or srv.closed:
            raise ConnectionRefusedError(f'nothing listens on {port}')
        link = Link(self, protocol_factory(), srv.factory(), len(self.links))
        self.links.append(link)
        return link.ct, link.cp


class Link:
    """one TCP connection: two protocols, two FakeTransports; the driver moves the bytes"""

    def __init__(self, loop, cproto, sproto, n):
        self.loop = loop
        self.cp, self.sp = cproto, sproto
        self.ct = FakeTransport(loop, cproto, peername=('10.0.0.1', 5566), sockname=('10.0.0.2', 40000 + n))
        self.st = FakeTransport(loop, sproto, peername=('10.0.0.2', 40000 + n), sockname=('10.0.0.1', 5566))
        self.escaped = []
        self.s_lost = self.c_lost = False
        sproto.connection_made(self.st)
        cproto.connection_made(self.ct)

    def feed(self, side, data):
        """what a selector transport does: data_received; a raising handler is a fatal error closing the connection"""
        proto, tr = (self.sp, self.st) if side == 's' else (self.cp, self.ct)
        if tr.closing:
            return
        try:
            with self.loop, watchdog(60):
                proto.data_received(data)
        except Exception as e:  # pylint: disable=broad-except
            self.escaped.append(f'{side}:{type(e).__name__}')
            with self.loop:
                tr.closing = True
                tr.lost_called = True
                proto.connection_lost(e)
            if side == 's':
                self.s_lost = True
            else:
                self.c_lost = True

    def lose(self, side):
        """the peer's close / a cut reaches this side"""
        proto, tr = (self.sp, self.st) if side == 's' else (self.cp, self.ct)
        if side == 's':
            if self.s_lost:
                return
            self.s_lost = True
        else:
            if self.c_lost:
                return
            self.c_lost = True
        tr.closing = True
        if not tr.lost_called:
            tr.lost_called = True
            with self.loop:
                proto.connection_lost(None)


# ------------------------------------------------------------------------------------------------ streams and stores

class Stream:
    """a real stream (real BlobFile.create_from_unencrypted + StreamDescriptor.make_sd_blob) in the client's store"""

    def __init__(self, env, plain_sizes, rng, tag=0):
        from lbry.blob.blob_file import BlobFile
        from lbry.blob.blob_info import BlobInfo
        from lbry.stream.descriptor import StreamDescriptor
        self.env = env
        loop, bm = env.loop, env.blob_manager
        key = bytes(rng.getrandbits(8) for _ in range(16))

        async def make():
            infos = []
            for i, sz in enumerate(plain_sizes):
                iv = bytes(rng.getrandbits(8) for _ in range(16))
                plain = bytes(rng.getrandbits(8) for _ in range(min(sz, 4096)))
                plain = (plain * (sz // len(plain) + 1))[:sz]
                infos.append(await BlobFile.create_from_unencrypted(loop, bm.blob_dir, key, iv, plain, i, 1000 + tag, True, bm.blob_completed))
            infos.append(BlobInfo(len(infos), 0, binascii.hexlify(bytes(rng.getrandbits(8) for _ in range(16))).decode(), 1000 + tag, None, True))
            d = StreamDescriptor(loop, bm.blob_dir, f'file-{tag}.bin', binascii.hexlify(key).decode(), f'file-{tag}.bin', infos)
            sd = await d.make_sd_blob(blob_completed_callback=bm.blob_completed, added_on=1000 + tag, is_mine=True)
            d.sd_hash = sd.blob_hash
            await env.storage.store_stream(sd, d)
            return d
        self.desc = env.run(make())
        env.loop.drain(timers=False)
        self.hashes = [self.desc.sd_hash] + [b.blob_hash for b in self.desc.blobs[:-1]]
        self.content = []
        for h in self.hashes:
            with open(os.path.join(bm.blob_dir, h), 'rb') as f:
                self.content.append(f.read())
            if hashlib.sha384(self.content[-1]).hexdigest() != h:
                raise MachineryError('stream construction: blob file does not hash to its name')
        for c in self.content[1:]:
            try:
                json.loads(c.decode())
                raise MachineryError('stream construction: a data blob decodes as JSON')
            except ValueError:
                pass
        self.nb = len(self.hashes) - 1
        self.sizes = [len(c) for c in self.content]
        self.index = {h: i for i, h in enumerate(self.hashes)}


class ServerSide:
    """a real ReflectorServer over a real BlobManager + SQLiteStorage holding a chosen subset of the stream"""

    def __init__(self, ctx, loop, name, stream, held, partial, port=5566):
        from .lbryenv import StorageEnv
        from lbry.stream.reflector.server import ReflectorServer
        self.dir = ctx.mkdir(name)
        self.env = StorageEnv(self.dir, loop=loop, track_bandwidth=False)    # no 0.1 s bandwidth ticker
        self.stream = stream
        bm = self.env.blob_manager
        for b in held:
            with open(os.path.join(self.env.blob_dir, stream.hashes[b]), 'wb') as f:
                f.write(stream.content[b])
        self.env.run(bm.setup())
        for b in held:
            with loop:
                t = bm.blob_completed(bm.get_blob(stream.hashes[b], stream.sizes[b]))
            loop.drain(stop=t.done, timers=False)
        with loop:
            self.server = ReflectorServer(bm, partial_needs=partial)
            self.server.start_server(port, '127.0.0.1')
        loop.drain(timers=False)
        if not self.server.started_listening.is_set():
            raise MachineryError('ReflectorServer did not start listening on the fake network')

    def verified(self):
        bm = self.env.blob_manager
        return [b for b, h in enumerate(self.stream.hashes) if bm.is_blob_verified(h)]

    def final(self):
        """the server's store after everything settled, observed through the file system, BlobManager and the database"""
        st, bm = self.stream, self.env.blob_manager
        files = sorted(os.listdir(self.env.blob_dir))
        bad = partial = foreign = 0
        for fn in files:
            with open(os.path.join(self.env.blob_dir, fn), 'rb') as f:
                c = f.read()
            if hashlib.sha384(c).hexdigest() != fn:
                bad += 1
                if fn in st.index and st.content[st.index[fn]].startswith(c):
                    partial += 1
            if fn not in st.index:
                foreign += 1
        verified = self.verified()
        identical = []
        for b, h in enumerate(st.hashes):
            p = os.path.join(self.env.blob_dir, h)
            identical.append(os.path.isfile(p) and open(p, 'rb').read() == st.content[b])
        rows = self.env.rows('select blob_hash, status from blob')
        finished = {h for h, s in rows if s == 'finished'}
        reg = set(bm.completed_blob_hashes) | finished
        reg_unverified = sum(1 for h in reg if not os.path.isfile(os.path.join(self.env.blob_dir, h)))
        open_writers = sum(1 for blob in bm.blobs.values() for w in blob.writers.values() if not w.closed())
        return {'verified': verified, 'identical': identical, 'badfiles': bad, 'partialfiles': partial, 'foreign_verified': foreign,
                'registered_unverified': reg_unverified, 'open_writers': open_writers,
                'incoming': bool(self.server.incoming_event.is_set()), 'files': len(files)}

    def close(self):
        try:
            with self.env.loop:
                self.server.stop_server()
            self.env.loop.drain(timers=False)
        except Exception:  # pylint: disable=broad-except
            pass
        self.env.close()
        shutil.rmtree(self.dir, ignore_errors=True)


# ------------------------------------------------------------------------------------------------ units <-> bytes

def parse_docs(data):
    """split concatenated JSON documents (what the server wrote since the last look)"""
    out, pos, dec = [], 0, json.JSONDecoder()
    text = data.decode()
    while pos < len(text):
        obj, end = dec.raw_decode(text, pos)
        out.append((obj, text[pos:end].encode()))
        pos = end
    return out


def response_unit(obj, stream):
    if not isinstance(obj, dict):
        return {'k': 'other'}
    if 'version' in obj:
        return {'k': 'ver'}
    if 'send_sd_blob' in obj:
        return {'k': 'ssd', 'v': bool(obj['send_sd_blob']), 'needs': [stream.index.get(h, stream.nb + 1) for h in obj.get('needed_blobs', [])]}
    if 'received_sd_blob' in obj:
        return {'k': 'rsd', 'v': bool(obj['received_sd_blob'])}
    if 'send_blob' in obj:
        return {'k': 'sb', 'v': bool(obj['send_blob'])}
    if 'received_blob' in obj:
        return {'k': 'rb', 'v': bool(obj['received_blob'])}
    return {'k': 'other'}


def size_class(claimed, real):
    return 'ok' if claimed == real else 'short' if isinstance(claimed, int) and claimed < real else 'long'


def client_unit(data, stream):
    """one transport.write of the real client as a unit of Reflector.tla"""
    try:
        obj = json.loads(data.decode())
    except ValueError:
        obj = None
    if isinstance(obj, dict):
        if set(obj) == {'version'}:
            return {'k': 'ver'}
        if 'sd_blob_hash' in obj and obj['sd_blob_hash'] == stream.hashes[0]:
            return {'k': 'sdo', 'sz': size_class(obj.get('sd_blob_size'), stream.sizes[0]), 'need': obj.get('sd_blob_size')}
        if 'blob_hash' in obj:
            b = stream.index.get(obj['blob_hash'], stream.nb + 1)
            return {'k': 'bo', 'b': b, 'sz': size_class(obj.get('blob_size'), stream.sizes[b]) if b <= stream.nb else 'ok',
                    'need': obj.get('blob_size')}
    for b, c in enumerate(stream.content):
        if data == c:
            return {'k': 'd', 'b': b, 'off': 0, 'n': len(data), 'g': True}
    for b, c in enumerate(stream.content):
        off = c.find(data)
        if off >= 0 and data:
            return {'k': 'd', 'b': b, 'off': off, 'n': len(data), 'g': True}
    return {'k': 'd', 'b': stream.nb + 1, 'off': 0, 'n': len(data), 'g': False}


def cuts(n, mode, rng):
    """cut points for a message of n bytes"""
    if n <= 1 or mode == 'whole':
        return []
    if mode == 'bytes1':
        return list(range(1, n)) if n <= 1500 else sorted(rng.sample(range(1, n), 40))
    if mode == 'two':
        return [rng.randrange(1, n)]
    k = rng.randint(1, min(4, n - 1))
    return sorted(rng.sample(range(1, n), k))


def decodes(data):
    try:
        json.loads(data.decode())
        return True
    except ValueError:
        return False


def fragment(data, unit, mode, rng):
    """-> list of (bytes, unit) for one message under a cut mode"""
    for _ in range(50):
        cs = cuts(len(data), mode, rng)
        if not cs:
            return [(data, unit)]
        parts = [data[a:b] for a, b in zip([0] + cs, cs + [len(data)])]
        if mode == 'bytes1' or not any(decodes(p) for p in parts):
            break           # (a fragment that happens to be a JSON document of its own would be a request: cut elsewhere)
    else:
        return [(data, unit)]
    out = []
    if unit['k'] == 'd':
        off = unit['off']
        for p in parts:
            out.append((p, {'k': 'd', 'b': unit['b'], 'off': off, 'n': len(p), 'g': unit['g']}))
            off += len(p)
    else:
        base = {k: v for k, v in unit.items()}
        for i, p in enumerate(parts):
            out.append((p, {'k': 'h1' if i == 0 else 'h2' if i == len(parts) - 1 else 'hm', 'of': base}))
    return out


FRAG_MODES = {
    # name: (requests, payload, responses)
    'whole': ('whole', 'whole', 'whole'),
    'payload-random': ('whole', 'random', 'random'),
    'payload-bytes1': ('whole', 'bytes1', 'bytes1'),
    'resp-two': ('whole', 'whole', 'two'),
    'req-two': ('two', 'whole', 'whole'),
    'all-random': ('random', 'random', 'random'),
    'all-bytes1': ('bytes1', 'bytes1', 'bytes1'),
}


# ------------------------------------------------------------------------------------------------ one recorded session

class Session:
    """one connection between a client (the real upload or a script) and the real server, driven chunk by chunk"""

    def __init__(self, loop, stream, srv, rng, mode='whole', inject=None, kind='honest'):
        self.loop, self.stream, self.srv, self.rng = loop, stream, srv, rng
        self.mode, self.inject, self.kind = mode, inject, kind
        self.ev = []
        self.link = None
        self.pend = {'s': [], 'c': []}        # chunks in flight towards server / client: (bytes, unit)
        self.steps = 0
        self.reqcut = False
        self.cut = False
        self.timeouts = False
        self.facts = {'offered': [], 'datafor': [], 'asked': [], 'needs': [], 'given': False}
        self.cur = None
        self.failanswer = False
        self.last = None
        self.unknown_response = False
        self.t0 = loop.time()

    # -- plumbing
    def settle(self):
        self.loop.drain(jobs=True, timers=False, limit=2_000_000)

    def take_writes(self):
        """move what both sides wrote into the in-flight queues; returns (server units, client units) written"""
        link, st = self.link, self.stream
        out, cw = [], []
        data = link.st.take()
        if data:
            for obj, raw in parse_docs(data):
                u = response_unit(obj, st)
                out.append(u)
                if u['k'] == 'other':
                    self.unknown_response = True
                if u['k'] in ('rsd', 'rb') and not u['v']:
                    self.failanswer = True
                self.pend['c'] += fragment(raw, u, FRAG_MODES.get(self.mode, FRAG_MODES['whole'])[2], self.rng)
        writes = link.ct.out[:]
        link.ct.out.clear()
        for w in writes:
            u = client_unit(w, st)
            cw.append({k: v for k, v in u.items() if k != 'need'} if self.kind == 'honest' else u)
            if u['k'] == 'bo':
                self.facts['offered'].append(u['b'])
                self.cur = u['b']
            if u['k'] == 'd':
                self.facts['datafor'].append(u['b'])
            m = FRAG_MODES.get(self.mode, FRAG_MODES['whole'])[1 if u['k'] == 'd' else 0]
            parts = fragment(w, cw[-1], m, self.rng)
            if u['k'] != 'd' and len(parts) > 1:
                self.reqcut = True
            self.pend['s'] += parts
        return out, cw

    def response_arrived(self, unit):
        """wire facts for ClientSendsOnlyNeeded: what the client has been told when the last byte of a response reached it"""
        u = unit['of'] if unit['k'] == 'h2' else unit
        if u['k'] == 'ssd':
            if u['v']:
                self.facts['asked'].append(0)
            else:
                self.facts['needs'], self.facts['given'] = u['needs'], True
        if u['k'] == 'sb' and u['v'] and self.cur is not None:
            self.facts['asked'].append(self.cur)

    def observe(self, force=False):
        out, cw = self.take_writes() if self.link else ([], [])
        obs = {'e': 'obs', 'store': self.srv.verified(), 'sclosed': bool(self.link.st.closing) if self.link else False,
               'inc': bool(self.srv.server.incoming_event.is_set()), 'out': out, 'cw': cw,
               'cclosed': bool(self.link.ct.closing) if self.link else False}
        key = (tuple(obs['store']), obs['sclosed'], obs['inc'], obs['cclosed'])
        if force or out or cw or key != self.last:
            self.ev.append(obs)
            self.last = key

    def deliver_one(self):
        """hand the next chunk in flight to its receiver; client -> server first (the client's bytes are what the server waits for)"""
        for side in ('s', 'c'):
            if self.pend[side]:
                data, unit = self.pend[side].pop(0)
                self.ev.append({'e': 'c2s' if side == 's' else 's2c', 'u': dict(unit, len=len(data)) if side == 's' else unit})
                if side == 'c' and not self.link.ct.closing:
                    self.response_arrived(unit)
                self.link.feed(side, data)
                self.loop.drain(jobs=False, timers=False, limit=2_000_000)    # the request task starts before the next read
                self.settle()
                self.steps += 1
                return True
        return False

    def propagate_close(self):
        link, moved = self.link, False
        if link.ct.closing and not link.s_lost and not self.pend['s']:
            self.ev.append({'e': 'slost'})
            link.lose('s')
            self.settle()
            moved = True
        if link.st.closing and not link.c_lost and not self.pend['c']:
            self.ev.append({'e': 'clost'})
            link.lose('c')
            self.settle()
            moved = True
        return moved

    def do_cut(self):
        self.ev.append({'e': 'cut'})
        self.cut = True
        self.pend = {'s': [], 'c': []}
        self.link.ct.out.clear()
        self.link.st.out.clear()
        self.link.lose('s')
        self.link.lose('c')
        self.settle()

    def tick(self):
        """virtual time jumps to the next timer"""
        if not self.loop.advance(until=self.t0 + 3 * SETTLE):
            return False
        if not self.ev or self.ev[-1]['e'] != 'timer':
            self.ev.append({'e': 'timer'})
        self.settle()
        return True

    # -- the honest client: the real upload
    def run_honest(self, ms):
        loop = self.loop
        nlinks = len(loop.links)
        self.ev.append({'e': 'start'})
        task = loop.spawn(ms.upload_to_reflector('127.0.0.1', 5566))
        self.settle()
        if len(loop.links) != nlinks + 1:
            raise MachineryError('upload_to_reflector did not open a connection')
        self.link = loop.links[-1]
        self.proto = self.link.cp
        injected = False
        for _ in range(1_000_000):
            self.observe()
            if self.inject and not injected and self.steps >= self.inject[1] and not task.done():
                injected = True
                if self.inject[0] == 'cut':
                    self.do_cut()
                    continue
                if self.inject[0] == 'cancel' and getattr(self.proto, 'pending_request', None) is not None:
                    self.ev.append({'e': 'cancel'})
                    self.cut = True
                    with loop:
                        task.cancel()
                    self.settle()
                    continue
            if self.deliver_one():
                continue
            if self.propagate_close():
                continue
            if task.done():
                break
            t_before = loop.time()
            if not self.tick():
                break
            if loop.time() - t_before >= 25:
                self.timeouts = True
        finished = task.done()
        # let the server's timers expire, then look at what is left
        for _ in range(10_000):
            self.observe()
            if self.deliver_one() or self.propagate_close():
                continue
            if not self.tick():
                break
        self.observe(force=True)
        result, exc = None, None
        if finished and not task.cancelled():
            exc = task.exception()
            result = task.result() if exc is None else None
        st = self.stream
        f = self.facts
        self.client = {'finished': bool(finished and exc is None and not task.cancelled()) or bool(finished and self.cut),
                       'sent': [st.index.get(h, st.nb + 1) for h in (result or [])],
                       'reflected': [st.index.get(h, st.nb + 1) for h in self.proto.reflected_blobs],
                       'fully': bool(ms.fully_reflected.is_set()), 'exception': type(exc).__name__ if exc else '',
                       'offered': f['offered'], 'datafor': f['datafor'], 'asked': f['asked'], 'needs': f['needs'], 'given': f['given']}
        self.ev.append({'e': 'end', 'sent': self.client['sent'], 'reflected': self.client['reflected'], 'fully': self.client['fully'],
                        'datafor': f['datafor'], 'asked': f['asked'], 'offered': f['offered']})
        return self

    def record(self, held, partial, exp=None, replay=True, **extra):
        st = self.stream
        rec = {'kind': self.kind, 'nb': st.nb, 'sizes': st.sizes, 'held': sorted(held), 'partial': bool(partial), 'mode': self.mode,
               'inject': list(self.inject) if self.inject else [], 'replay': bool(replay), 'ev': self.ev if replay else [],
               'final': extra.pop('final', None) or dict(self.srv.final(), sclosed=bool(self.link.st.closing) if self.link else True),
               'client': getattr(self, 'client', {'finished': True, 'sent': [], 'reflected': [], 'fully': False, 'exception': '',
                                                  'offered': [], 'datafor': [], 'asked': [], 'needs': [], 'given': False}),
               'cut': self.cut, 'timeouts': self.timeouts, 'reqcut': self.reqcut, 'steps': self.steps,
               'hasexp': exp is not None, 'exp': exp or {'final': [], 'sent': [], 'datafor': [], 'fully': False},
               'failanswer': self.failanswer,
               'escaped': list(self.link.escaped) if self.link else [], 'loop_exceptions': len(self.loop.exceptions),
               'hasafter': False, 'after': {'complete': True}}
        rec.update(extra)
        return rec

    # -- a scripted client: units of Reflector.tla made concrete, answers ignored
    def run_script(self, chunks, pace='lockstep'):
        """chunks: list of (bytes, unit).  pace 'lockstep': everything runnable (incl. executor jobs) runs after each chunk;
        'slowdisk': executor jobs stay pending until the script is through (the next chunk arrives while a file is being written)"""
        loop = self.loop
        nlinks = len(loop.links)

        class Silent(asyncio.Protocol):
            def connection_made(self, transport):
                self.transport = transport

        loop.run(loop.create_connection(Silent, '127.0.0.1', 5566))
        if len(loop.links) != nlinks + 1:
            raise MachineryError('scripted client could not connect')
        self.link = loop.links[-1]
        self.observe(force=True)
        for data, unit in chunks:
            if self.link.st.closing and self.link.s_lost:
                break
            self.ev.append({'e': 'c2s', 'u': dict(unit, len=len(data))})
            self.link.feed('s', data)
            loop.drain(jobs=False, timers=False, limit=2_000_000)
            self.steps += 1
            if pace == 'lockstep':
                self.settle()
                self.observe()
        self.settle()
        self.observe()
        # silence: the server's timers expire
        for _ in range(10_000):
            self.observe()
            if not self.tick():
                break
        self.observe(force=True)
        # the client goes away
        self.ev.append({'e': 'cclose'})
        self.link.ct.closing = True
        self.propagate_close()
        for _ in range(10_000):
            self.observe()
            if not self.tick():
                break
        self.observe(force=True)
        self.ev.append({'e': 'end', 'sent': [], 'reflected': [], 'fully': False, 'datafor': [], 'asked': [], 'offered': []})
        return self


def concretise(script, stream, rng, mode='whole'):
    """units of MCReflector (CH = 2: a blob is two halves) -> [(bytes, unit with byte counts)]"""
    st, out = stream, []
    for u in script:
        k = u['k']
        if k == 'ver':
            data, unit = b'{"version": 1}', {'k': 'ver'}
        elif k == 'sdo':
            claimed = st.sizes[0] + {'ok': 0, 'short': -3, 'long': 5}[u['sz']]
            data = json.dumps({'sd_blob_hash': st.hashes[0], 'sd_blob_size': claimed}).encode()
            unit = {'k': 'sdo', 'sz': u['sz'], 'need': claimed}
        elif k == 'bo':
            if u['b'] > st.nb:
                h, real = hashlib.sha384(b'not in this stream').hexdigest(), 77
            else:
                h, real = st.hashes[u['b']], st.sizes[u['b']]
            claimed = real + {'ok': 0, 'short': -3, 'long': 5}[u['sz']]
            data = json.dumps({'blob_hash': h, 'blob_size': claimed}).encode()
            unit = {'k': 'bo', 'b': min(u['b'], st.nb + 1), 'sz': u['sz'], 'need': claimed}
        elif k == 'd':
            if u['b'] > st.nb:
                data = bytes(rng.getrandbits(8) | 0x80 for _ in range(7))
                unit = {'k': 'd', 'b': st.nb + 1, 'off': 0, 'n': len(data), 'g': False}
            else:
                c = st.content[u['b']]
                half = len(c) // 2
                a = 0 if u['off'] == 0 else half
                b = half if u['off'] + u['n'] == 1 else len(c)
                data = c[a:b]
                if not u['g']:
                    data = data[:-1] + bytes([data[-1] ^ 0x40])
                unit = {'k': 'd', 'b': u['b'], 'off': a, 'n': len(data), 'g': bool(u['g'])}
        elif k == 'J':
            data, unit = b'{"hello": 1}', {'k': 'J'}
        elif k == 'X':
            data, unit = b'\x00\x01 not json [', {'k': 'X'}
        else:
            raise MachineryError(f'unknown unit {u}')
        m = mode if mode in ('whole', 'two', 'random', 'bytes1') else 'whole'
        if m != 'whole' and unit['k'] == 'd' and not unit['g']:
            m = 'whole'          # a corrupted unit stays in one piece (its `g` flag describes the whole of it)
        out += fragment(data, unit, m, rng)
    return out


def honest_after(ctx, loop, cenv, stream, srv, rng):
    """a plain honest upload on a new connection to the same server; returns whether it ended complete"""
    from lbry.stream.managed_stream import ManagedStream
    with loop:
        ms = ManagedStream(loop, cenv.config, cenv.blob_manager, stream.desc.sd_hash, descriptor=stream.desc)
    s = Session(loop, stream, srv, rng, mode='whole').run_honest(ms)
    return {'complete': bool(s.client['finished'] and not s.timeouts and srv.verified() == list(range(stream.nb + 1))),
            'verified': srv.verified(), 'timeouts': s.timeouts, 'sent': s.client['sent']}


# ------------------------------------------------------------------------------------------------ judging with TLC

REPLAY_INVS = ['ServerEndsComplete', 'FullyMeansAll', 'ClientSendsOnlyNeeded', 'BadBlobNeverVerified', 'BadAnswered', 'GarbageCloses',
               'NoPartialLeftBehind', 'NoOrphanWriter', 'WriterWhenIncoming', 'StoreOnlyGrows']
DEFAULTS = {'hasextra': False, 'extra': {'expect': '', 'closed': False, 'completed': False}, 'expectclose': False, 'cclosed': False,
            'bothcomplete': True}
TRACE_CONSTS = ('  NB = 0\n  CH = 0\n  PARTIALN = %d\n  KINDS = {}\n  SCRIPTS = {}\n  PARTIALS = {}\n  REASSEMBLE = FALSE\n  REQSPLIT = FALSE\n'
                '  RESPSPLIT = FALSE\n  VERIFY = TRUE\n  OBEYNEEDS = TRUE\n  CLOSEWRITER = TRUE\n  CUT = TRUE\n  SLOW = TRUE\n' % PARTIALN)


def judge(ctx, recs, label):
    """every record through ReflectorTrace.tla; returns per record {'accepted', 'matched', 'len', 'clauses', 'invariant'}"""
    import re
    cfg = ('SPECIFICATION TSpec\nCONSTANTS\n' + TRACE_CONSTS + ''.join(f'INVARIANT {i}\n' for i in REPLAY_INVS)
           + 'CONSTRAINT Reached\nPOSTCONDITION Report\nCHECK_DEADLOCK FALSE\n')
    verdicts = []
    chunk = 1500
    for base in range(0, len(recs), chunk):
        part = [dict(DEFAULTS, **r) for r in recs[base:base + chunk]]
        path = os.path.join(ctx.mkdir('traces'), f'{label}-{base}.json')
        with open(path, 'w') as f:
            json.dump(part, f)
        res = tlc.run('ReflectorTrace', cfg, ctx, workers=1, coverage=False, env={'TRACE_FILE': path}, timeout=1500,
                      label=f'{label}-{base}', cont=True)
        ctx.add_tlc(res, f'ReflectorTrace: {len(part)} recorded real sessions [{label} {base}:{base + len(part)}]')
        seen = {}
        for ln in res.printed:
            m = re.match(r'^<<"TRACE", (\d+), "(accepted|rejected)", (-?\d+), (\d+)>>', ln)
            if m:
                seen[int(m.group(1))] = {'accepted': m.group(2) == 'accepted', 'matched': int(m.group(3)), 'len': int(m.group(4)),
                                         'clauses': [], 'invariant': None}
        for ln in res.printed:
            m = re.match(r'^<<"CLAUSES", (\d+), \{(.*)\}>>', ln)
            if m and int(m.group(1)) in seen:
                seen[int(m.group(1))]['clauses'] = [x.strip().strip('"') for x in m.group(2).split(',') if x.strip()]
        if len(seen) != len(part):
            raise MachineryError(f'ReflectorTrace {label}: {len(seen)} verdicts for {len(part)} records\n{res.out[-3000:]}')
        if res.violated:
            for blk in re.split(r'Error: Invariant ', res.out)[1:]:
                name = blk.split(' ', 1)[0]
                mt = re.findall(r'/\\ tid = (\d+)', blk)
                if mt and int(mt[-1]) in seen and seen[int(mt[-1])]['invariant'] is None:
                    seen[int(mt[-1])]['invariant'] = name
        verdicts += [seen[k] for k in sorted(seen)]
    return verdicts


FINDING_KEYS = {
    'RequestReassembled': 'server-drops-request-split-across-segments',
    'HonestAfterHostile': 'wrong-offered-size-sticks-on-server-blob',
    'Concurrent': 'concurrent-sessions-share-incoming-flag',
}


def brief(rec):
    return {k: v for k, v in rec.items() if k not in ('ev', 'sizes', 'exp', 'extra', 'after') or (k == 'after' and rec.get('hasafter'))
            or (k == 'extra' and rec.get('hasextra')) or (k == 'exp' and rec.get('hasexp'))}


def report(ctx, recs, verdicts):
    for rec, v in zip(recs, verdicts):
        where = f"{rec['kind']} nb={rec['nb']} held={rec['held']} partial={rec['partial']} mode={rec.get('mode')} inject={rec.get('inject')}"
        if rec.get('script') is not None:
            where += f" script={rec['script']}"
        for c in v['clauses']:
            key = FINDING_KEYS.get(c, f"clause-{c}:{rec['kind']}")
            ctx.violation(key, f'clause {c} violated by a real session: {where}; final={rec["final"]} client={rec["client"]}', brief(rec))
        if v['invariant']:
            ctx.violation(f"replayed-{v['invariant']}:{rec['kind']}", f"invariant {v['invariant']} of Reflector.tla violated on the replayed "
                          f'states of a real session: {where}', brief(rec))
        if rec['replay'] and not v['accepted']:
            e = rec['ev'][v['matched']] if v['matched'] < len(rec['ev']) else None
            ctx.violation(f"not-a-behaviour-of-Reflector.tla:{rec['kind']}:{(e or {}).get('e')}",
                          f'the real session left the specification at event {v["matched"]} of {v["len"]} ({json.dumps(e)[:300]}): {where}',
                          dict(brief(rec), around=rec['ev'][max(0, v['matched'] - 6):v['matched'] + 2]))


# ------------------------------------------------------------------------------------------------ Leg A

def mc_cfg(nb=2, ch=2, kinds=('honest',), scripts='ScriptsCat', partials=(True, False), reassemble=False, reqsplit=False,
           respsplit=True, verify=True, obey=True, closew=True, cut=True, slow=False, invs=(), props=(), extra='', partialn=1,
           init_next=None):
    b = lambda x: 'TRUE' if x else 'FALSE'     # noqa: E731
    head = f'INIT {init_next[0]}\nNEXT {init_next[1]}\n' if init_next else 'SPECIFICATION Spec\n'
    return (head + 'CONSTANTS\n'
            f'  NB = {nb}\n  CH = {ch}\n  PARTIALN = {partialn}\n  KINDS = {{{", ".join(chr(34) + k + chr(34) for k in kinds)}}}\n'
            f'  SCRIPTS <- {scripts}\n  PARTIALS = {{{", ".join(b(p) for p in partials)}}}\n'
            f'  REASSEMBLE = {b(reassemble)}\n  REQSPLIT = {b(reqsplit)}\n  RESPSPLIT = {b(respsplit)}\n  VERIFY = {b(verify)}\n'
            f'  OBEYNEEDS = {b(obey)}\n  CLOSEWRITER = {b(closew)}\n  CUT = {b(cut)}\n  SLOW = {b(slow)}\n'
            + ''.join(f'INVARIANT {i}\n' for i in invs) + ''.join(f'PROPERTY {p}\n' for p in props) + extra + 'CHECK_DEADLOCK FALSE\n')


INVS = ['ServerEndsComplete', 'WholeStreamUnlessPartial', 'FullyMeansAll', 'ClientSendsOnlyNeeded', 'BadBlobNeverVerified', 'BadAnswered',
        'GarbageCloses', 'NoPartialLeftBehind', 'NoOrphanWriter', 'WriterWhenIncoming', 'StoreOnlyGrows', 'ModelMatchesExpected']
HONEST_ACTIONS = ['TaskStart', 'Flush', 'FileWritten', 'Verified', 'Load1', 'Load2', 'SrvTimeout', 'CliStart', 'CliTimeout', 'CliCancel',
                  'DeliverC2S', 'GlueC2S', 'CutC2S', 'DeliverS2C', 'SplitS2C', 'SrvLost', 'CliLost', 'Cut']


def temporal_violated(res):
    """name of the violated temporal property, if any (this TLC prints 'Temporal property X was violated')"""
    import re
    m = re.search(r'Temporal property (\w+) was violated', res.out)
    if m:
        return m.group(1)
    return '<temporal>' if 'Temporal properties were violated' in res.out else ''


MARKS = 'CONSTRAINT WitnessMarks\nPOSTCONDITION WitnessReport\n'


def witnessed(res):
    """names of the witness registers that were set in a one-worker run with MARKS"""
    import re
    i = res.out.find('"WITNESS"')
    if i < 0:
        raise MachineryError('the run did not print its witness registers')
    return set(re.findall(r'(\w+) \|-> TRUE', res.out[i:res.out.find('>>', i)]))


def leg_a(ctx):
    info = {}

    def must_hold(res, what):
        if temporal_violated(res) and not res.violated:
            res.violated.append('liveness:' + temporal_violated(res))
        if res.violated:
            ctx.violation('model:' + res.violated[0], f'{what}: {res.violated[0]} violated in the model', res.error_trace[:8000])
            return False
        return True

    # 1. the honest pair as found, requests arriving whole: every invariant + liveness (thorough; the quick tier gets the same from run 3,
    #    whose behaviours include these, through HonestCompletesUnlessDropped)
    if ctx.thorough:
        res = tlc.run('MCReflector', mc_cfg(nb=3, ch=3, invs=INVS, props=['HonestEnds', 'HonestCompletes']), ctx, workers=4,
                      timeout=1500, label='Reflector-honest')
        ctx.add_tlc(res, 'Reflector exhaustive, honest client, NB=3 CH=3, every held subset x partial_needs, cut/cancel anywhere, '
                         'responses and payload re-chunked, requests whole: all invariants + HonestEnds + HonestCompletes')
        if not must_hold(res, 'honest session'):
            return None
        tlc.require_coverage(res, HONEST_ACTIONS, 'Reflector-honest')
        info['honest_states_nb3'] = res.distinct
    # 2. slow network: the timers may fire at any moment; safety only
    res = tlc.run('MCReflector', mc_cfg(invs=INVS, slow=True), ctx, workers=4, timeout=900, label='Reflector-slow')
    ctx.add_tlc(res, 'Reflector exhaustive, honest client, timers may fire at any moment (SLOW): all invariants')
    if not must_hold(res, 'honest session, slow network'):
        return None
    # 3. requests cut in transit.  The server as found drops the fragments: safety holds, the session stalls into its timeout
    res = tlc.run('MCReflector', mc_cfg(invs=INVS, reqsplit=True, props=['HonestEnds', 'HonestCompletesUnlessDropped'], extra=MARKS),
                  ctx, workers=1, timeout=900, label='Reflector-reqsplit-safety')
    ctx.add_tlc(res, 'Reflector exhaustive, honest client, NB=2 CH=2, every held subset x partial_needs, cut/cancel anywhere, responses and '
                     'payload re-chunked, requests whole OR cut in two, server as found (no buffer): all invariants + HonestEnds + '
                     'HonestCompletesUnlessDropped')
    if not must_hold(res, 'honest session, requests whole or cut'):
        return None
    tlc.require_coverage(res, HONEST_ACTIONS + ['SplitC2S'], 'Reflector-reqsplit')
    info['honest_states'] = res.distinct
    missing = {'HonestDone', 'Fully', 'CutSettled', 'Dropped'} - witnessed(res)
    if missing:
        raise MachineryError(f'witnesses not reached (an antecedent of the invariants is vacuous): {sorted(missing)}')
    r = tlc.run('MCReflector', mc_cfg(reqsplit=True, props=['HonestCompletes'], cut=False), ctx, workers=4, coverage=False, timeout=900,
                label='Reflector-reqsplit-live')
    info['model_exhibits_dropped_request'] = temporal_violated(r) == 'HonestCompletes'
    if not info['model_exhibits_dropped_request']:
        raise MachineryError('the model of the server as found should violate HonestCompletes when a request is cut in transit')
    # ... the server the statement had in mind (buffers until the JSON is complete) meets it
    if ctx.thorough:
        res = tlc.run('MCReflector', mc_cfg(invs=INVS, reqsplit=True, reassemble=True, props=['HonestEnds', 'HonestCompletes']), ctx,
                      workers=4, timeout=900, label='Reflector-reassemble')
        ctx.add_tlc(res, 'Reflector exhaustive, honest client, requests cut in two, server WITH a request buffer (REASSEMBLE): all + liveness')
        if res.violated or temporal_violated(res):
            raise MachineryError(f'REASSEMBLE variant should satisfy everything, violated: {res.violated} {temporal_violated(res)}')
    # 4. hostile clients
    res = tlc.run('MCReflector', mc_cfg(kinds=('hostile',), respsplit=False, invs=INVS, partials=(False,) if not ctx.thorough else (True, False),
                                        cut=ctx.thorough), ctx, workers=8, timeout=1500, label='Reflector-hostile-cat')
    ctx.add_tlc(res, 'Reflector exhaustive, hostile catalogue (NB=2), every held subset, any pacing'
                     + (', cut anywhere' if ctx.thorough else '') + ': all invariants')
    if not must_hold(res, 'hostile catalogue'):
        return None
    tlc.require_coverage(res, ['HostileSend', 'TaskStart', 'SrvTimeout', 'FileWritten', 'Verified', 'Load1', 'Load2', 'GlueC2S', 'CutC2S'], 'hostile')
    info['hostile_catalogue_states'] = res.distinct
    n = 4 if ctx.thorough else 2
    res = tlc.run('MCReflector', mc_cfg(nb=1, kinds=('hostile',), scripts=f'Scripts{n}', respsplit=False, invs=INVS, partials=(False,),
                                        extra=MARKS if n == 2 else ''), ctx, workers=1 if n == 2 else 8, timeout=3000,
                  label=f'Reflector-hostile-all{n}')
    ctx.add_tlc(res, f'Reflector exhaustive, EVERY script of <= {n} units over 12 unit kinds (NB=1), every held subset: all invariants')
    if not must_hold(res, f'all scripts <= {n}'):
        return None
    info['hostile_short_states'] = res.distinct
    # 5. witnesses: each antecedent is reachable
    if n == 2:
        missing = {'BadSettled', 'Garbage'} - witnessed(res)
        if missing:
            raise MachineryError(f'witnesses not reached (an antecedent of the invariants is vacuous): {sorted(missing)}')
    else:
        for w in ('W_BadSettled', 'W_Garbage'):
            r = tlc.run('MCReflector', mc_cfg(invs=[w], kinds=('hostile',), respsplit=False, partials=(False,)), ctx, workers=4, coverage=False,
                        timeout=600, label=w)
            if w not in r.violated:
                raise MachineryError(f'witness {w} not reachable: an antecedent of the invariants is vacuous')
    # 6. negative controls
    ctl = {}
    r = tlc.run('MCReflector', mc_cfg(invs=['BadBlobNeverVerified'], verify=False, kinds=('hostile',), respsplit=False), ctx, workers=4,
                coverage=False, timeout=600, label='neg-VERIFY')
    if 'BadBlobNeverVerified' not in r.violated:
        raise MachineryError('negative control VERIFY=FALSE should violate BadBlobNeverVerified')
    ctl['VERIFY=FALSE'] = 'BadBlobNeverVerified'
    r = tlc.run('MCReflector', mc_cfg(obey=False, closew=False, extra=MARKS), ctx, workers=1, coverage=False, timeout=600, label='neg-client-writer')
    got = witnessed(r)
    if not {'NotOnlyNeeded', 'LeftBehind'} <= got:
        raise MachineryError(f'negative controls OBEYNEEDS=FALSE / CLOSEWRITER=FALSE should violate ClientSendsOnlyNeeded and NoPartialLeftBehind: {got}')
    ctl['OBEYNEEDS=FALSE'] = 'ClientSendsOnlyNeeded'
    ctl['CLOSEWRITER=FALSE'] = 'NoPartialLeftBehind'
    info['negative_controls'] = ctl
    # 7. two uploads at once: the `incoming` event shared by all connections of a ReflectorServer (ReflectorShared.tla)
    shcfg = 'SPECIFICATION Spec\nCONSTANTS\n  P = 3\n  SHARED = {}\nINVARIANT BothComplete\nINVARIANT NoneDies\nINVARIANT NothingLost\nCHECK_DEADLOCK FALSE\n'
    r = tlc.run('ReflectorShared', shcfg.format('TRUE'), ctx, workers=1, coverage=False, timeout=300, label='ReflectorShared-asfound', cont=True)
    info['model_exhibits_shared_flag_failure'] = 'BothComplete' in r.violated and 'NoneDies' in r.violated
    res = tlc.run('ReflectorShared', shcfg.format('FALSE'), ctx, workers=1, timeout=300, label='ReflectorShared-perconn')
    ctx.add_tlc(res, 'ReflectorShared exhaustive, one `incoming` flag per connection: both uploads always complete')
    if res.violated or not info['model_exhibits_shared_flag_failure']:
        raise MachineryError('ReflectorShared: the shared flag should violate BothComplete/NoneDies and a flag per connection should not')
    ctx.leg('A', **info)
    return info


def emit(ctx, maxnb, scripts='ScriptsCat'):
    """one TLC run (one worker, initial states only): the honest cases nb = 1..maxnb with the outcome computed in TLA+, and the hostile scripts"""
    res = tlc.run('MCReflector', mc_cfg(nb=maxnb, kinds=('honest', 'hostile'), scripts=scripts, partialn=PARTIALN, init_next=('EmitInit', 'Stop'),
                                        extra='CONSTRAINT EmitCase\nCONSTRAINT EmitScript\n'), ctx, workers=1, coverage=False, timeout=900,
                  label='emit')
    ctx.add_tlc(res, f'emission: honest-session cases NB=1..{maxnb} with the outcome computed in TLA+, and the hostile scripts {scripts}')
    cases = tlc.printed_json(res, 'CASE')
    want = sum(2 ** (nb + 1) * 2 for nb in range(1, maxnb + 1))
    if len(cases) != want:
        raise MachineryError(f'expected {want} honest cases for NB=1..{maxnb}, TLC emitted {len(cases)}')
    scr = [o['s'] for o in tlc.printed_json(res, 'SCRIPT')]
    if not scr:
        raise MachineryError('TLC emitted no hostile scripts')
    return cases, scr


# ------------------------------------------------------------------------------------------------ Legs B and C on the real pair

class World:
    """one client store with one stream per nb, on one loop; servers come and go"""

    def __init__(self, ctx):
        from .lbryenv import StorageEnv
        self.ctx = ctx
        self.loop = NetLoop()
        self.cenv = StorageEnv(ctx.mkdir('g03-client'), loop=self.loop, track_bandwidth=False)
        self.streams = {}
        self.k = 0

    def stream(self, nb, big=False):
        key = (nb, big)
        if key not in self.streams:
            rng = self.ctx.rng
            sizes = [rng.choice([1, 15, 16, 17, 40, 100]) for _ in range(nb)]
            if big:
                sizes[-1] = 2 * 1024 * 1024 - 1          # a full-size blob
            self.streams[key] = Stream(self.cenv, sizes, rng, tag=len(self.streams))
        return self.streams[key]

    def server(self, stream, held, partial):
        self.k += 1
        return ServerSide(self.ctx, self.loop, f'g03-srv-{self.k}', stream, held, partial)

    def upload(self, stream):
        from lbry.stream.managed_stream import ManagedStream
        with self.loop:
            return ManagedStream(self.loop, self.cenv.config, self.cenv.blob_manager, stream.desc.sd_hash, descriptor=stream.desc)

    def honest(self, stream, held, partial, mode, inject=None, exp=None, **extra):
        srv = self.server(stream, held, partial)
        try:
            s = Session(self.loop, stream, srv, self.ctx.rng, mode=mode, inject=inject).run_honest(self.upload(stream))
            rec = s.record(held, partial, exp=exp, **extra)
        finally:
            srv.close()
        self.ctx.count(('honest', stream.nb, tuple(held), partial, mode, tuple(inject or ())), nontrivial=True)
        return rec

    def close(self):
        self.cenv.close()


def leg_b(ctx, world, recs, cases):
    """every case TLC emits, under seeded fragmentation schedules, against the outcome computed in TLA+"""
    rng = ctx.rng
    nbs = sorted({c['nb'] for c in cases})
    if not ctx.thorough:       # quick: nb <= 3 completely, a seeded sample of the 64 cases with nb = 4
        four = [c for c in cases if c['nb'] == 4]
        cases = [c for c in cases if c['nb'] <= 3] + rng.sample(four, 16)
    modes = list(FRAG_MODES)
    n = 0
    for case in cases:
        st = world.stream(case['nb'])
        exp = {'final': sorted(case['final']), 'sent': list(case['sent']), 'datafor': sorted(case['datafor']), 'fully': bool(case['fully'])}
        use = modes if (ctx.thorough and case['nb'] <= 4) else ['whole'] + rng.sample(modes[1:], 2 if not ctx.thorough else 3)
        for mode in use:
            recs.append(world.honest(st, sorted(case['held']), case['partial'], mode, exp=exp, leg='B'))
            n += 1
    # a stream with a full-size (2 MiB) blob
    big = 0
    for held, mode in (([], 'whole'), ([0], 'payload-random'), ([], 'all-random')) if ctx.thorough else (([], 'payload-random'),):
        st = world.stream(2, big=True)
        full = list(range(st.nb + 1))
        exp = {'final': full, 'sent': ([0] + full[1:]) if 0 not in held else [b for b in full[1:] if b not in held],
               'datafor': [b for b in full if b not in held], 'fully': False}
        recs.append(world.honest(st, held, False, mode, exp=exp, leg='B'))
        big += 1
    ctx.leg('B', cases=len(cases), sessions=n + big, full_size_blob_sessions=big, nbs=nbs)


def leg_c_cuts(ctx, world, recs):
    """a disconnect and a user cancel at every step of the session"""
    plans = [(1, [], False), (1, [0], False), (2, [0], False), (2, [], False), (2, [0, 2], True)]
    if ctx.thorough:
        plans += [(3, [], False), (3, [0, 1], False), (4, [0], True), (2, [1], False)]
    n = 0
    for nb, held, partial in plans:
        st = world.stream(nb)
        for mode in ('whole', 'payload-random') if ctx.thorough else ('whole',):
            base = world.honest(st, held, partial, mode, leg='C-base')
            recs.append(base)
            for k in range(0, base['steps'] + 1):
                for what in ('cut', 'cancel'):
                    recs.append(world.honest(st, held, partial, mode, inject=(what, k), leg='C-cut'))
                    n += 1
    ctx.leg('C-cuts', sessions=n)


def leg_c_hostile(ctx, world, recs, scripts):
    """the scripts TLC emits (the catalogue; thorough: also every script of <= 2 units), made concrete, against the real server;
    then an honest upload to the same server"""
    rng = ctx.rng
    st = world.stream(2)
    helds = [[], [0], [0, 1], [2]] if ctx.thorough else [[], [0]]
    paces = [('whole', 'lockstep'), ('whole', 'slowdisk'), ('two', 'lockstep'), ('random', 'lockstep')]
    n = 0
    for sc in scripts:
        for held in helds:
            for mode, pace in (paces if ctx.thorough else [paces[0], rng.choice(paces[1:])]):
                srv = world.server(st, held, False)
                try:
                    s = Session(world.loop, st, srv, rng, mode=mode, kind='hostile').run_script(concretise(sc, st, rng, mode), pace)
                    pre = srv.final()
                    pre['sclosed'] = bool(s.link.st.closing)
                    after = honest_after(ctx, world.loop, world.cenv, st, srv, rng)
                    recs.append(s.record(held, False, hasafter=True, after=after, script=sc, pace=pace, leg='C-hostile', final=pre))
                finally:
                    srv.close()
                ctx.count(('hostile', json.dumps(sc), tuple(held), mode, pace), nontrivial=True)
                n += 1
    ctx.leg('C-hostile', scripts=len(scripts), sessions=n)


def extras_catalogue(st):
    h0, h1 = st.hashes[0], st.hashes[1]
    big = b'{"a": "' + b'x' * (3 * 1024 * 1024) + b'"}'
    j = lambda o: json.dumps(o).encode()     # noqa: E731
    # name, chunks, expectation per position class: 'start' (no handshake yet), 'shaken' (handshake done), 'desc' (descriptor loaded)
    return [
        ('not-json', [b'\x00\x01 not json ['], {'start': 'ignored', 'shaken': 'ignored', 'desc': 'ignored'}),
        ('non-utf8', [b'\xff\xfe\xfd{}'], {'start': 'ignored', 'shaken': 'ignored', 'desc': 'ignored'}),
        ('truncated-json', [b'{"version": '], {'start': 'ignored', 'shaken': 'ignored', 'desc': 'ignored'}),
        ('two-requests-glued', [b'{"version": 1}{"version": 1}'], {'start': 'ignored', 'shaken': 'ignored', 'desc': 'ignored'}),
        ('json-number', [b'17'], {'start': 'ignored', 'shaken': 'ignored', 'desc': 'ignored'}),
        ('json-null', [b'null'], {'start': 'ignored', 'shaken': 'ignored', 'desc': 'ignored'}),
        ('json-true', [b'true'], {'start': 'ignored', 'shaken': 'ignored', 'desc': 'ignored'}),
        ('json-string', [b'"hello"'], {'start': 'closes', 'shaken': 'closes', 'desc': 'closes'}),
        ('json-list', [b'[1, 2]'], {'start': 'closes', 'shaken': 'closes', 'desc': 'closes'}),
        ('empty-object', [b'{}'], {'start': 'closes', 'shaken': 'closes', 'desc': 'closes'}),
        ('object-without-key', [b'{"hello": 1}'], {'start': 'closes', 'shaken': 'closes', 'desc': 'closes'}),
        ('oversized-object-one-chunk', [big], {'start': 'closes', 'shaken': 'closes', 'desc': 'closes'}),
        ('oversized-object-in-64k-fragments', [big[i:i + 65536] for i in range(0, len(big), 65536)],
         {'start': 'ignored', 'shaken': 'ignored', 'desc': 'ignored'}),
        ('sd-offer-without-size', [j({'sd_blob_hash': h0})], {'start': 'closes', 'shaken': 'ignored', 'desc': 'closes'}),
        ('blob-offer-without-size', [j({'blob_hash': h1})], {'start': 'closes', 'shaken': 'closes', 'desc': 'ignored'}),
        ('sd-offer-non-hex-hash', [j({'sd_blob_hash': 'zz', 'sd_blob_size': 5})], {'start': 'closes', 'shaken': 'ignored', 'desc': 'closes'}),
        ('blob-offer-foreign-hash', [j({'blob_hash': hashlib.sha384(b'foreign').hexdigest(), 'blob_size': 5})],
         {'start': 'closes', 'shaken': 'closes', 'desc': 'ignored'}),
        ('sd-offer-size-0', [j({'sd_blob_hash': h0, 'sd_blob_size': 0})], {'start': 'closes', 'shaken': 'any', 'desc': 'closes'}),
        ('sd-offer-size-negative', [j({'sd_blob_hash': h0, 'sd_blob_size': -5})], {'start': 'closes', 'shaken': 'any', 'desc': 'closes'}),
        ('sd-offer-size-huge', [j({'sd_blob_hash': h0, 'sd_blob_size': 10 ** 12})], {'start': 'closes', 'shaken': 'any', 'desc': 'closes'}),
        ('sd-offer-size-string', [j({'sd_blob_hash': h0, 'sd_blob_size': '12'})], {'start': 'closes', 'shaken': 'any', 'desc': 'closes'}),
        ('blob-offer-size-0', [j({'blob_hash': h1, 'blob_size': 0})], {'start': 'closes', 'shaken': 'closes', 'desc': 'any'}),
        ('blob-offer-size-huge', [j({'blob_hash': h1, 'blob_size': 10 ** 12})], {'start': 'closes', 'shaken': 'closes', 'desc': 'any'}),
        ('second-handshake', [b'{"version": 1}'], {'start': 'any', 'shaken': 'closes', 'desc': 'closes'}),
    ]


VERSIONS = [0, 2, 99, -1, 'x', 1.5, [1], {'a': 1}, True]


def leg_c_extras(ctx, world, recs):
    """concrete garbage at every position of an otherwise correct scripted upload where the server does not expect payload; the
    handshake with every odd version.  Expectation = what Reflector.tla says for the class of the bytes (J closes, X is ignored)."""
    rng = ctx.rng
    st = world.stream(1)
    c = st.content
    good = [(b'{"version": 1}', 'start'), (json.dumps({'sd_blob_hash': st.hashes[0], 'sd_blob_size': st.sizes[0]}).encode(), 'shaken'),
            (c[0], None), (json.dumps({'blob_hash': st.hashes[1], 'blob_size': st.sizes[1]}).encode(), 'desc'), (c[1], None), (b'', 'desc')]
    n = 0
    accepted_versions = []

    def one(chunks_before, garbage, rest, expect, name):
        srv = world.server(st, [], False)
        try:
            s = Session(world.loop, st, srv, rng, kind='hostile')
            loop = world.loop

            class Silent(asyncio.Protocol):
                pass
            loop.run(loop.create_connection(Silent, '127.0.0.1', 5566))
            s.link = link = loop.links[-1]
            for d in chunks_before:
                link.feed('s', d)
                s.settle()
            for g in garbage:
                link.feed('s', g)
                loop.drain(jobs=False, timers=False, limit=2_000_000)
            s.settle()
            closed = bool(link.st.closing)
            for d in rest:
                if d:
                    link.feed('s', d)
                    s.settle()
            completed = srv.verified() == [0, 1]
            for _ in range(10_000):
                if not s.tick():
                    break
            link.ct.closing = True
            s.propagate_close()
            for _ in range(10_000):
                if not s.tick():
                    break
            pre = dict(srv.final(), sclosed=bool(link.st.closing))
            after = honest_after(ctx, loop, world.cenv, st, srv, rng)
            rec = s.record([], False, replay=False, hasafter=True, after=after, hasextra=True, final=pre,
                           extra={'expect': expect, 'closed': closed, 'completed': bool(completed), 'name': name}, leg='C-extras')
            recs.append(rec)
            return rec
        finally:
            srv.close()

    for name, garbage, expect in extras_catalogue(st):
        for pos, (_, cls) in enumerate(good):
            if cls is None:
                continue
            one([d for d, _ in good[:pos]], garbage, [d for d, _ in good[pos:]], expect[cls], f'{name}@{pos}')
            ctx.count(('extra', name, pos), nontrivial=True)
            n += 1
    for v in VERSIONS:
        hs = json.dumps({'version': v}).encode()
        rec = one([], [hs], [d for d, _ in good[1:]], 'any', f'version={v!r}')
        if rec['extra']['completed']:
            accepted_versions.append(repr(v))
        ctx.count(('version', repr(v)), nontrivial=True)
        n += 1
    ctx.leg('C-extras', sessions=n, handshake_versions_the_server_accepts=accepted_versions,
            note='the server never looks at the version number: no version is "unsupported" for it')


class ScriptedServer(asyncio.Protocol):
    """a hostile reflector: answers the k-th chunk it receives with the k-th entry of its script (None = silence)"""

    def __init__(self, script):
        self.script = list(script)
        self.got = []

    def connection_made(self, transport):
        self.transport = transport

    def data_received(self, data):
        self.got.append(bytes(data))
        if self.script:
            r = self.script.pop(0)
            if r is not None:
                self.transport.write(r)

    def connection_lost(self, exc):
        pass


def leg_c_hostile_server(ctx, world, recs):
    """the real client (upload_to_reflector) against a scripted server: response parsing, version check, timeouts"""
    st = world.stream(2)
    loop, rng = world.loop, ctx.rng
    j = lambda o: json.dumps(o).encode()     # noqa: E731
    h = st.hashes
    ok_v = j({'version': 1})
    cases = [
        # name, script, fragmentation of responses, expect the client to close at once, expected payload blobs
        ('version-0', [j({'version': 0})], 'whole', True),
        ('version-2', [j({'version': 2})], 'whole', True),
        ('version-text', [j({'version': 'x'})], 'whole', True),
        ('no-version', [j({})], 'whole', True),
        ('garbage-then-silence', [b'\x00\x01garbage'], 'whole', True),
        ('no-send_sd_blob', [ok_v, j({})], 'whole', True),
        ('sd-refused-after-transfer', [ok_v, j({'send_sd_blob': True}), j({'received_sd_blob': False})], 'whole', True),
        ('has-everything', [ok_v, j({'send_sd_blob': False, 'needed_blobs': []})], 'whole', True),
        ('needs-1-then-declines', [ok_v, j({'send_sd_blob': False, 'needed_blobs': [h[1]]}), j({'send_blob': False})], 'whole', True),
        ('needs-1-transfer-fails', [ok_v, j({'send_sd_blob': False, 'needed_blobs': [h[1]]}), j({'send_blob': True}), j({'received_blob': False})], 'whole', True),
        ('needs-unknown-blob', [ok_v, j({'send_sd_blob': False, 'needed_blobs': [hashlib.sha384(b'?').hexdigest()]})], 'whole', True),
        ('needs-1-no-send_blob-key', [ok_v, j({'send_sd_blob': False, 'needed_blobs': [h[1]]}), j({})], 'whole', True),
        ('oversized-response', [b'{"version": "' + b'1' * 2_000_001 + b'"}'], 'whole', True),
        ('one-byte-fragments', [ok_v, j({'send_sd_blob': False, 'needed_blobs': [h[2]]}), j({'send_blob': True}), j({'received_blob': True})], 'bytes1', True),
        ('two-responses-glued', [ok_v + j({'send_sd_blob': False, 'needed_blobs': []})], 'whole', True),
        ('silent-after-transfer', [ok_v, j({'send_sd_blob': False, 'needed_blobs': [h[1]]}), j({'send_blob': True}), None], 'whole', True),
        ('silent', [None], 'whole', True),
    ]
    n = 0
    notes = {}
    for name, script, fmode, expectclose in cases:
        loop.listeners[5577] = _FakeServer(loop, lambda script=script: ScriptedServer(script))
        ms = world.upload(st)
        nlinks = len(loop.links)
        task = loop.spawn(ms.upload_to_reflector('127.0.0.1', 5577))
        loop.drain(jobs=True, timers=False)
        if len(loop.links) != nlinks + 1:
            raise MachineryError('upload_to_reflector did not connect to the scripted server')
        link = loop.links[-1]
        facts = {'offered': [], 'datafor': [], 'asked': [], 'needs': [], 'given': False}
        cur = None
        t0 = loop.time()
        for _ in range(100_000):
            loop.drain(jobs=True, timers=False)
            moved = False
            for w in link.ct.out[:]:
                moved = True
                u = client_unit(w, st)
                if u['k'] == 'bo':
                    facts['offered'].append(u['b'])
                    cur = u['b']
                if u['k'] == 'd':
                    facts['datafor'].append(u['b'])
                link.ct.out.remove(w)
                link.feed('s', w)
                loop.drain(jobs=True, timers=False)
                for resp in link.st.out[:]:
                    link.st.out.remove(resp)
                    try:
                        ru = response_unit(json.loads(resp.decode()), st)
                    except ValueError:
                        ru = {'k': 'other'}
                    parts = [resp] if fmode == 'whole' else [resp[i:i + 1] for i in range(len(resp))]
                    for p in parts:
                        link.feed('c', p)
                        loop.drain(jobs=True, timers=False)
                    if not link.ct.closing:
                        if ru['k'] == 'ssd' and ru['v']:
                            facts['asked'].append(0)
                        if ru['k'] == 'ssd' and not ru['v']:
                            facts['needs'], facts['given'] = ru['needs'], True
                        if ru['k'] == 'sb' and ru['v'] and cur is not None:
                            facts['asked'].append(cur)
            if link.ct.closing and not link.s_lost:
                link.lose('s')
                moved = True
            if task.done():
                break
            if not moved and not loop.advance(until=t0 + 3 * SETTLE):
                break
        loop.drain(jobs=True, timers=False)
        finished = task.done() and not task.cancelled() and task.exception() is None
        sent = [st.index.get(x, st.nb + 1) for x in (task.result() if finished else [])]
        rec = {'kind': 'hserver', 'nb': st.nb, 'sizes': st.sizes, 'held': [], 'partial': False, 'mode': fmode, 'inject': [], 'replay': False, 'ev': [],
               'final': {'verified': [], 'identical': [False] * (st.nb + 1), 'badfiles': 0, 'partialfiles': 0, 'foreign_verified': 0,
                         'registered_unverified': 0, 'open_writers': 0, 'incoming': False, 'files': 0, 'sclosed': True},
               'client': dict(facts, finished=bool(finished), sent=sent, reflected=[st.index.get(x, st.nb + 1) for x in link.cp.reflected_blobs],
                              fully=bool(ms.fully_reflected.is_set()), exception=''),
               'cut': False, 'timeouts': loop.time() - t0 >= 25, 'reqcut': False, 'steps': 0, 'hasexp': False,
               'exp': {'final': [], 'sent': [], 'datafor': [], 'fully': False}, 'failanswer': False,
               'escaped': list(link.escaped), 'loop_exceptions': 0, 'hasafter': False, 'after': {'complete': True},
               'expectclose': expectclose, 'cclosed': bool(link.ct.closing), 'name': name, 'elapsed': loop.time() - t0, 'leg': 'C-hserver'}
        recs.append(rec)
        notes[name] = {'sent': sent, 'fully_reflected': rec['client']['fully'], 'elapsed_s': round(rec['elapsed'], 1), 'escaped': rec['escaped']}
        ctx.count(('hserver', name), nontrivial=True)
        n += 1
    loop.listeners.pop(5577, None)
    ctx.leg('C-hostile-server', sessions=n, outcomes=notes)
    if notes['sd-refused-after-transfer']['fully_reflected']:
        print('NOTE: (observation, outside the statement) a server answering {"received_sd_blob": false} makes upload_to_reflector mark the '
              'stream as fully reflected: `not sent_sd and not needed` is also true when the descriptor transfer FAILED')


def leg_c_concurrent(ctx, world, recs):
    """two uploads at the same time to one server (the protocols of one ReflectorServer share the `incoming` event)"""
    loop, rng = world.loop, ctx.rng
    a, b = world.stream(2), world.stream(3)
    n = 0
    for stagger in (0, 1, 3):
        srv = world.server(a, [], False)
        try:
            nlinks = len(loop.links)
            ta = loop.spawn(world.upload(a).upload_to_reflector('127.0.0.1', 5566))
            loop.drain(jobs=True, timers=False)
            la = loop.links[-1]
            t0 = loop.time()
            tb = lb = None
            escaped = []
            for rnd in range(100_000):
                if rnd == stagger and tb is None:
                    tb = loop.spawn(world.upload(b).upload_to_reflector('127.0.0.1', 5566))
                    loop.drain(jobs=True, timers=False)
                    lb = loop.links[-1]
                moved = False
                for link in [x for x in (la, lb) if x is not None]:
                    # one chunk each way per round and connection
                    for side, tr in (('s', link.ct), ('c', link.st)):
                        if tr.out:
                            d = tr.out.pop(0)
                            link.feed(side, d)
                            loop.drain(jobs=True, timers=False)
                            moved = True
                    if link.ct.closing and not link.s_lost and not link.ct.out:
                        link.lose('s')
                        moved = True
                    if link.st.closing and not link.c_lost and not link.st.out:
                        link.lose('c')
                        moved = True
                if ta.done() and tb is not None and tb.done():
                    break
                if not moved and tb is not None and not loop.advance(until=t0 + 3 * SETTLE):
                    break
            loop.drain(jobs=True, timers=False)
            bm = srv.env.blob_manager
            have_a = all(bm.is_blob_verified(h) for h in a.hashes)
            have_b = all(bm.is_blob_verified(h) for h in b.hashes)
            escaped = la.escaped + (lb.escaped if lb else [])
            both = bool(have_a and have_b and loop.time() - t0 < 25 and not escaped)
            rec = {'kind': 'concurrent', 'nb': a.nb, 'sizes': a.sizes, 'held': [], 'partial': False, 'mode': f'stagger-{stagger}', 'inject': [],
                   'replay': False, 'ev': [], 'final': dict(srv.final(), sclosed=True),
                   'client': {'finished': bool(ta.done() and tb and tb.done()), 'sent': [], 'reflected': [], 'fully': False, 'exception': '',
                              'offered': [], 'datafor': [], 'asked': [], 'needs': [], 'given': False},
                   'cut': False, 'timeouts': loop.time() - t0 >= 25, 'reqcut': False, 'steps': 0, 'hasexp': False,
                   'exp': {'final': [], 'sent': [], 'datafor': [], 'fully': False}, 'failanswer': False,
                   'escaped': [], 'loop_exceptions': 0, 'hasafter': False, 'after': {'complete': True},
                   'bothcomplete': both, 'first_complete': bool(have_a), 'second_complete': bool(have_b), 'escaped_data_received': escaped,
                   'elapsed': loop.time() - t0, 'leg': 'C-concurrent'}
            rec['final']['foreign_verified'] = 0       # the second stream's blobs are no strangers
            recs.append(rec)
            ctx.count(('concurrent', stagger), nontrivial=True)
            n += 1
        finally:
            srv.close()
    ctx.leg('C-concurrent', sessions=n)


def run(ctx):
    info = leg_a(ctx)
    if info is None:
        return
    world = World(ctx)
    recs = []
    try:
        cases, scripts = emit(ctx, 6 if ctx.thorough else 4, 'Scripts2' if ctx.thorough else 'ScriptsCat')
        leg_b(ctx, world, recs, cases)
        leg_c_cuts(ctx, world, recs)
        leg_c_hostile(ctx, world, recs, scripts)
        leg_c_extras(ctx, world, recs)
        leg_c_hostile_server(ctx, world, recs)
        leg_c_concurrent(ctx, world, recs)
    finally:
        world.close()
    verdicts = judge(ctx, recs, 'sessions')
    report(ctx, recs, verdicts)
    ctx.cov['traces_validated_against_impl'] += len(recs)
    replayed = sum(1 for r in recs if r['replay'])
    ctx.leg('judge', records=len(recs), replayed_through_Reflector_actions=replayed,
            accepted=sum(1 for r, v in zip(recs, verdicts) if r['replay'] and v['accepted']),
            events=sum(len(r['ev']) for r in recs))
    for r in recs[:2] + [r for r in recs if r['kind'] == 'hostile'][:2] + [r for r in recs if r.get('hasextra')][:1]:
        ctx.sample(brief(r))
    ctx.cov['rule'] = ('Leg A: all states of Reflector.tla (honest client x every held subset x partial_needs; hostile catalogue and every short '
                       'script) with disconnect/cancel anywhere and every re-chunking at unit granularity. Leg B: every (nb<=4, thorough nb<=6) x held '
                       'subset x partial_needs case TLC emits, on the real pair under whole / 1-byte / random fragmentation per direction, compared '
                       'with the outcome computed in TLA+. Leg C: cut and cancel at every delivery step; every catalogue script made concrete under 4 '
                       'pacings followed by an honest upload; 24 concrete garbage kinds at every non-payload position; 9 odd handshake versions; 17 '
                       'hostile-server scripts against the real client; two concurrent uploads. Distinct = distinct (case, schedule).')
    ctx.assumptions += ['TCP is replaced by driver-fed transports that behave like selector transports (write after close is dropped; a raising '
                        'data_received closes the connection; the peer sees a close after the bytes in flight)',
                        'time is virtual: a timer fires only when nothing else can run (network much faster than the 30 s / 180 s timeouts)',
                        'loop.sendfile is DetLoop\'s (one transport.write of the whole blob); the fragmentation is applied by the driver',
                        'a request task takes its first step before the next read (asyncio schedules it ahead of the next read event)']
