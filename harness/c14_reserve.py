"""C14 -- no double spend under concurrent builds.
Leg A: Reserve.tla exhaustively (3 builders, 5 outputs, 2 rounds, FIFO lock; both strategy families; plus the negative
       control LOCKED=FALSE that must violate NoShare for the read-select-reserve family).
Leg C: 2..12 concurrent real Transaction.create calls on one real ledger / sqlite database under DetLoop; arrival
       points enumerated exhaustively for two builders, seeded beyond; TLC validates the recorded history against
       ReserveTrace.tla (NoShare, HeldUnavailable on every step, AllAvailableAtEnd)."""
import asyncio
import os
import shutil
import sqlite3

from . import tlc
from .common import MachineryError

INVS = ['NoShare', 'HeldUnavailable', 'AllAvailableAtEnd']
TINVS = ['TNoShare', 'THeldUnavailable', 'TAllAvailableAtEnd']
STRATS = ['standard', 'sqlite', 'prefer_confirmed', 'only_confirmed', 'closest_match', 'branch_and_bound', 'random_draw']


def cfg(nb, nu, need, rounds, locked, sqlite, invs, props=()):
    txt = tlc.make_cfg(constants={'NEED': need, 'ROUNDS': rounds, 'LOCKED': locked, 'SQLITE': sqlite}, invariants=invs, properties=props)
    return txt.replace('CONSTANTS\n', 'CONSTANTS\n  BUILDERS = {' + ', '.join(f'b{i}' for i in range(1, nb + 1)) + '}\n'
                       '  UTXOS = {' + ', '.join(f'u{i}' for i in range(1, nu + 1)) + '}\n')


def leg_a(ctx):
    runs = [('lock-rsr', 3, 5, 1, 2, True, False), ('lock-sqlite', 3, 5, 1, 2, True, True), ('nolock-sqlite', 3, 4, 2, 1, False, True)]
    if ctx.thorough:
        runs += [('lock-rsr-need2', 3, 6, 2, 2, True, False), ('lock-rsr-4b', 4, 3, 1, 1, True, False)]
    for label, nb, nu, need, rounds, locked, sq in runs:
        res = tlc.run('Reserve', cfg(nb, nu, need, rounds, locked, sq, INVS, ['SnapshotClean']), ctx, timeout=3000, label=f'Reserve-{label}')
        ctx.add_tlc(res, f'Reserve exhaustive {label}: builders={nb} outputs={nu} need={need} rounds={rounds} locked={locked} sqlite={sq}')
        if res.violated:
            ctx.violation('model:' + res.violated[0], f'model property {res.violated[0]} violated ({label})', res.error_trace[:6000])
            return
        tlc.require_coverage(res, ['Arrive', 'Acquire', 'FailRelease', 'Broadcast', 'Abandon'], f'Reserve-{label}')
    # negative control: without the lock the read-select-reserve family must be able to share an output
    r = tlc.run('Reserve', cfg(2, 3, 1, 1, False, False, ['NoShare']), ctx, coverage=False, timeout=600, label='Reserve-nolock', workers=4)
    if 'NoShare' not in r.violated:
        raise MachineryError('negative control failed: the model without the lock does not violate NoShare')
    for w in ['W_AllDone', 'W_Contention']:
        r = tlc.run('Reserve', cfg(2, 3, 2, 1, True, False, [w]), ctx, coverage=False, timeout=600, label=w, workers=4)
        if w not in r.violated:
            raise MachineryError(f'reachability witness {w} not reached')
    ctx.leg('A', runs=[r[0] for r in runs], invariants=INVS + ['SnapshotClean'], negative_control='LOCKED=FALSE violates NoShare')


# ---------------------------------------------------------------------------------------------- real builds

class Prepared:
    """a wallet database with a UTXO set, prepared once and copied per schedule"""

    def __init__(self, ctx, name, amounts, unconfirmed=(), second=()):
        from .walletenv import WalletEnv, snapshot
        self.dir = ctx.mkdir(f'c14-prep-{name}')
        self.nacc = 2 if second else 1
        env = WalletEnv(self.dir, nacc=self.nacc)
        self.amounts = list(amounts)
        env.fund(amounts)
        if second:
            env.fund(second, acc=env.accounts[1])
            self.amounts += list(second)
        if unconfirmed:
            env.fund(unconfirmed, verified=False)
            self.amounts += list(unconfirmed)
        self.snap = os.path.join(self.dir, 'snap.db')
        snapshot(env, self.snap)
        rows = env.run(env.ledger.db.db.execute_fetchall("select txoid, amount from txo order by rowid"))
        self.txoids = [r['txoid'] for r in rows]
        env.close()


class Run:
    def __init__(self, ctx, prep, k, strategy):
        from .walletenv import WalletEnv
        self.dir = ctx.mkdir(f'c14-run-{k}')
        shutil.copyfile(prep.snap, os.path.join(self.dir, 'blockchain.db'))
        self.env = WalletEnv(self.dir, nacc=prep.nacc, strategy=strategy)
        self.prep = prep
        self.idx = {t: i + 1 for i, t in enumerate(prep.txoids)}
        self.conn = sqlite3.connect(os.path.join(self.dir, 'blockchain.db'))
        self.initial_utxos = sorted(self.env.run(self.env.account.get_utxos()), key=lambda o: (o.tx_ref.id, o.position))
        self.evs = []
        self.exceptions = []

    def refresh(self):
        """wallet outputs created later (change of broadcast transactions) get the next numbers"""
        for (t,) in self.conn.execute("select txoid from txo order by rowid"):
            if t not in self.idx:
                self.idx[t] = len(self.idx) + 1

    def obs(self):
        self.refresh()
        res = [self.idx.get(r[0], 0) for r in self.conn.execute("select txoid from txo where is_reserved = 1")]
        spent = [self.idx.get(r[0], 0) for r in self.conn.execute("select txoid from txi")]
        return {'reserved': sorted(x for x in res if x), 'spent': sorted(x for x in spent if x)}

    def log(self, event, **kw):
        e = {'event': event, 'b': 0, 'inputs': []}
        e.update(kw)
        e['obs'] = self.obs()
        self.evs.append(e)

    def build_coro(self, amount):
        from lbry.wallet.transaction import Transaction, Output, Input
        acc = self.env.account
        if isinstance(amount, tuple) and amount[0] == 'accs':
            # ('accs', pay, which): builds that fund from DIFFERENT but overlapping lists of accounts (A, B, A+B, B+A)
            _, pay, which = amount
            funding = [self.env.accounts['AB'.index(ch)] for ch in which]
            return Transaction.create([], [Output.pay_pubkey_hash(int(pay), b'\x06' * 20)], funding, funding[0])
        if isinstance(amount, tuple):
            # ('pre', k, pay): the caller hands over wallet output k (its k-th unspent output at the start) as an input that
            # alone covers the payment - it must be held like a selected one while the build is pending
            _, k, pay = amount
            txo = self.initial_utxos[k % len(self.initial_utxos)]
            return Transaction.create([Input.spend(txo)], [Output.pay_pubkey_hash(int(pay), b'\x08' * 20)], [acc], acc)
        if amount == 0:     # nothing requested: the balancing loop runs several rounds over coins barely worth their fee
            return Transaction.create([], [], [acc], acc)
        return Transaction.create([], [Output.pay_pubkey_hash(int(amount), b'\x07' * 20)], [acc], acc)

    def _real_broadcast(self, tx, how):
        """the real Ledger.broadcast_or_release against a server that never answers (the caller gives up: the task is cancelled)
        or that refuses the transaction: either way the build is abandoned and its outputs must be released"""
        from binascii import hexlify
        loop, ledger = self.env.loop, self.env.ledger
        if not hasattr(self, 'net_plans'):
            plans = self.net_plans = {}

            class Net:
                is_connected = True

                async def retriable_call(self, f, *a, **k):
                    return await f(*a, **k)

                async def broadcast(self, raw):
                    if plans.get(raw) == 'refuse':
                        raise RuntimeError('the server refuses the transaction')
                    await loop.create_future()          # silence
            ledger.network = Net()
        self.net_plans[hexlify(tx.raw).decode()] = how

        async def go():
            t = loop.create_task(ledger.broadcast_or_release(tx))
            for _ in range(3):
                await asyncio.sleep(0)
            if how == 'cancel':
                t.cancel()            # lands while the broadcast is waiting for the silent server
            try:
                await t
            except (asyncio.CancelledError, RuntimeError):
                pass
        return go()

    async def _broadcast(self, tx):
        db = self.env.ledger.db
        await db.insert_transaction(tx)
        seen = set()
        for txi in tx.inputs:
            ph = txi.txo_ref.txo.script.values.get('pubkey_hash')
            if ph and ph not in seen:
                seen.add(ph)
                await db.save_transaction_io(tx, self.env.ledger.hash160_to_address(ph), ph, '')

    def execute(self, demands, arrivals, endings, rng=None):
        """demands[b] = amount; arrivals[b] = scheduler step at which build b starts; endings[b] = ('broadcast'|'abandon', delay)"""
        loop = self.env.loop
        tasks, finishing, done_at = {}, {}, {}
        n = len(demands)
        step = 0
        pending_arrivals = sorted(range(n), key=lambda b: (arrivals[b], b))
        while True:
            # arrivals due
            while pending_arrivals and arrivals[pending_arrivals[0]] <= step:
                b = pending_arrivals.pop(0)
                tasks[b] = loop.spawn(self.build_coro(demands[b]))
                self.log('Arrive', b=b + 1)
            # completions
            for b, t in list(tasks.items()):
                if t.done() and b not in done_at:
                    done_at[b] = step
                    if t.exception() is None:
                        tx = t.result()
                        self.refresh()
                        self.log('Built', b=b + 1, inputs=[self.idx.get(i.txo_ref.id, 0) for i in tx.inputs])
                    else:
                        self.exceptions.append(type(t.exception()).__name__)
                        self.log('Failed', b=b + 1, exc=type(t.exception()).__name__)
            for b, at in list(done_at.items()):
                t = tasks[b]
                if b not in finishing and t.exception() is None and step >= at + endings[b][1]:
                    tx = t.result()
                    kind = endings[b][0]
                    coro = self._broadcast(tx) if kind == 'broadcast' else self.env.ledger.release_tx(tx) if kind == 'abandon' \
                        else self._real_broadcast(tx, kind)
                    # the decision is the event: from here on an abandoned build no longer claims its outputs,
                    # a broadcast one claims them for good (a broadcast that is cancelled or refused is an abandoned build)
                    self.log('Broadcast' if kind == 'broadcast' else 'Abandon', b=b + 1)
                    finishing[b] = (loop.spawn(coro), endings[b][0])
            for b, (ft, kind) in list(finishing.items()):
                if ft is not None and ft.done():
                    ft.result()
                    finishing[b] = (None, kind)
            if loop.ready_count():
                loop.step()
            elif loop.pending_jobs:
                loop.complete_job(0)
            elif pending_arrivals:
                step = arrivals[pending_arrivals[0]] - 1      # idle: jump to the next arrival
            elif any(b not in finishing for b, t in tasks.items() if t.done() and t.exception() is None):
                step = min(done_at[b] + endings[b][1] for b, t in tasks.items()
                           if t.done() and t.exception() is None and b not in finishing) - 1
            elif all(t.done() for t in tasks.values()) and all(ft is None for ft, _ in finishing.values()):
                break
            else:
                raise MachineryError('scheduler stuck: tasks pending with nothing to run')
            step += 1
            self.log('Tick')
            if step > 200_000:
                raise MachineryError('schedule does not terminate')
        self.log('End')
        return {'n': len(self.idx), 'ev': self.evs}

    def close(self):
        self.conn.close()
        self.env.close()
        shutil.rmtree(self.dir, ignore_errors=True)


COIN = 100_000_000


def leg_c(ctx):
    rng = ctx.rng
    preps = [
        Prepared(ctx, 'five', [1 * COIN, 1 * COIN, 3 * COIN, 5 * COIN, 10 * COIN]),
        Prepared(ctx, 'equal', [2 * COIN] * 6),
        Prepared(ctx, 'mixed', [int(0.5 * COIN), 1 * COIN, 2 * COIN, 4 * COIN], unconfirmed=[3 * COIN, 1 * COIN]),
        Prepared(ctx, 'many', [int((0.3 + 0.1 * i) * COIN) for i in range(14)]),
        Prepared(ctx, 'dusty', [7500, 7600, 7700, 8000, 8500, 9000, 9500, 10000, 12000]),
        Prepared(ctx, 'two-accounts', [1 * COIN, 2 * COIN, 2 * COIN], second=[1 * COIN, 2 * COIN, 3 * COIN, 3 * COIN]),
    ]
    plans = []
    # exhaustive arrival points for two builders (second build arrives after k scheduler steps)
    kmax = 150 if ctx.thorough else 90
    for strat in (STRATS if ctx.thorough else ['standard', 'sqlite']):
        for k in range(0, kmax, 1 if ctx.thorough else 2):
            plans.append((preps[0], strat, [int(2.5 * COIN), int(2.5 * COIN)], [0, k], [('abandon', 5), ('broadcast', 0)]))
    nrand = 1500 if ctx.thorough else 220
    for _ in range(nrand):
        prep = rng.choice(preps)
        nb = rng.choice([2, 2, 3, 3, 4, 6, 8, 12])
        total = sum(prep.amounts)
        demands = [int(rng.uniform(0.05, 1.6) * total / nb) for _ in range(nb)]
        arrivals = [0] + [rng.randrange(0, 160) for _ in range(nb - 1)]
        endings = [(rng.choice(['broadcast', 'broadcast', 'abandon', 'abandon', 'cancel', 'refuse']), rng.randrange(0, 60)) for _ in range(nb)]
        if prep is preps[5]:
            # builds funding from overlapping account lists, close together
            demands = [('accs', int(rng.uniform(0.3, 2.6) * COIN), rng.choice(['A', 'B', 'AB', 'BA', 'B', 'AB'])) for _ in range(nb)]
            arrivals = [0] + [rng.randrange(0, 40) for _ in range(nb - 1)]
        elif prep is preps[4]:
            demands = [0 if rng.random() < 0.8 else 600 for _ in range(nb)]
        elif rng.random() < 0.35:
            # some builds come with a caller-chosen input (each a different wallet output) that covers their small payment; they
            # arrive first and are finished - still pending, not broadcast - before the builds that select coins start, so
            # that the caller never hands over an output a concurrent selection could already have taken
            ks = rng.sample(range(len(prep.amounts)), k=min(len(prep.amounts), nb))
            npre = 0
            for b in range(nb):
                if rng.random() < 0.5 and npre < len(ks) - 1:
                    demands[b] = ('pre', ks[npre], max(1000, int(sorted(prep.amounts)[0] * 0.2)))
                    arrivals[b] = rng.randrange(0, 5)
                    endings[b] = (endings[b][0], 400 + rng.randrange(0, 200))
                    npre += 1
                else:
                    arrivals[b] = 250 + rng.randrange(0, 160)
        plans.append((prep, rng.choice(STRATS), demands, arrivals, endings))
    traces, meta = [], []
    exc_count = {}
    for k, (prep, strat, demands, arrivals, endings) in enumerate(plans):
        run = Run(ctx, prep, k, strat)
        try:
            tr = run.execute(demands, arrivals, endings)
        finally:
            run.close()
        traces.append(tr)
        meta.append({'strategy': strat, 'demands': demands, 'arrivals': arrivals, 'endings': endings, 'utxos': prep.amounts})
        for e in run.exceptions:
            exc_count[e] = exc_count.get(e, 0) + 1
        built = sum(1 for e in tr['ev'] if e['event'] == 'Built')
        ctx.count((strat, repr(demands), tuple(arrivals), tuple(endings)), nontrivial=built >= 2)
        if k in (3, len(plans) - 1):
            ctx.sample({'plan': meta[-1], 'history': [{kk: vv for kk, vv in e.items() if kk != 'obs'} | {'reserved': e['obs']['reserved']}
                                                     for e in tr['ev'] if e['event'] != 'Tick']})
    c = tlc.make_cfg(spec='TSpec', invariants=TINVS, constraint='Reached', postcondition='Report')
    verdicts = tlc.validate_traces('ReserveTrace', c, traces, ctx, label='ReserveTrace', chunk=400, timeout=1800)
    for v in verdicts:
        if v['invariant']:
            k = v.get('inv_event')
            tr = traces[v['tid']]
            ev = tr['ev'][k] if k is not None and 0 <= k < len(tr['ev']) else {}
            ctx.violation('clause-' + v['invariant'] + ':' + meta[v['tid']]['strategy'],
                          f"clause {v['invariant']} violated by concurrent real builds ({meta[v['tid']]}) at event {k} {ev.get('event')}",
                          {'plan': meta[v['tid']], 'history': [e for e in tr['ev'] if e['event'] != 'Tick']})
        elif not v['accepted']:
            raise MachineryError(f'trace {v["tid"]} not consumed at {v["matched"]}')
    ctx.cov['traces_validated_against_impl'] += len(traces)
    ctx.leg('C', schedules=len(traces), exhaustive_two_builder_arrival_points=len(plans) - nrand,
            builds=sum(len(m['demands']) for m in meta), build_exceptions=exc_count,
            events=sum(len(t['ev']) for t in traces))


def run(ctx):
    leg_a(ctx)
    leg_c(ctx)
    ctx.cov['rule'] = ('Leg A: all states of Reserve.tla in the listed configurations. Leg C: one schedule per case: 2 builders with the second '
                       'arriving after every k-th scheduler step (exhaustive arrival points) and 2-12 builders with seeded arrival points, '
                       'demands around the wallet total, every coin-selection strategy, each finished build broadcast or abandoned after a '
                       'seeded delay; distinct = distinct (strategy, demands, arrivals, endings); non-trivial = at least two builds succeeded.')
    ctx.assumptions += ['AIOSQLite runs one database job at a time, so the scheduling freedom is the arrival point of each request',
                        'broadcast is modelled by storing the transaction with its inputs as wallet sync does']
