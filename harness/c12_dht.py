"""C12 -- DHT network: announced blobs are findable until expiry, paging is complete, lookups terminate.

Leg A (models, exhaustive; all TLC runs are started first and run next to the real-code legs):
  DhtLookup.tla  one IterativeFinder (node or value lookup) against an arbitrary environment: every probe is answered by a
                 contact list, a value page (plain / bad addresses / "follow": full fresh page + inflated page count), a reply
                 raising ValueError, a reply on which another exception escapes, an error, or silence; so every subset of the
                 remote nodes dead/hostile; virtual clock with rpc_timeout.  Progress, Parallelism, ProbeDeadline,
                 ProbeOncePerPage, TimeBound, NodeBound, NodeResultsRepliedOnly, NeverSelf, ValueResultsWellFormed, deadlock
                 freedom; BoundedPages / ValueBound are violated for the code as found (PAGECAP = 0: a responsive hostile
                 pager) and hold with a page cap; negative controls MARK / FILTER / CLEARBAD; reachability witnesses.
  DhtStore.tla   honest nodes, XOR metric, k-buckets with closest-K admission, join through a bootstrap node, lookups probe
                 by probe (replies in any order), store with token, late and duplicated store requests, expiry `>` as in
                 data_store.py: Hit, NoHitAfter, StoredAtClosest for EVERY saturated table assignment (warm) and from a cold
                 start (join + refresh reach saturation); negative control GE (>=).
  DhtPaging.tla / MCDhtPaging.tla   the server's page-count formula and the client's continuation rule transcribed literally,
                 every n <= 100 with the real K = 8: PagingComplete fails at n = 89, 97, 98 for the formula as found and holds
                 for ceiling division; TLC emits the expected (returned, page count, requests) per n.
Leg C (primary binding): 2..40 REAL lbry.dht.node.Node objects in one process under DetLoop on a driver-controlled datagram
  network (delay, reordering, duplication; for the termination part also loss, dead nodes and scripted hostile responders
  emitting real datagrams).  Recorded per lookup: start/end virtual time, every probe, every yielded peer, who replied;
  per announce: stored-to set and store times; clock jumps to 24 h - 30 s, 24 h - 1/1024 s, exactly 24 h, 24 h + 400 s; per
  paging experiment (1..100 announcers stored on ONE real node through real token + store datagrams, fetched with the real
  IterativeValueFinder, and with the real server RPC + the client's rule): which announcers came back.
  Every record is judged by TLC in DhtTrace.tla (one step per record)."""
import collections
import hashlib
import ipaddress
import math

from . import tlc
from .common import MachineryError, watchdog, Hang
from .detloop import DetLoop, FakeDatagramTransport, BudgetExceeded

DAY = 86400
TICK = 1024                    # records carry times in 1/1024 s (binary fractions: exact in floats)
RPC_TIMEOUT = 5.0
PAGER_PROBE_BUDGET = 400       # a value lookup that sent more findValue requests than this to ONE peer is "not terminating"
TINVS = ['TNoLivelock', 'THit', 'TNoHitAfter', 'TStoredSomewhere', 'TPagingComplete', 'TTerminates', 'TProbeOnce', 'TNodeResultsReplied',
         'TNeverSelf', 'TValueWellFormed', 'TTokenRequired']


# ----------------------------------------------------------------------------------------------- tiny bencode (driver side)

def bdec(data, i=0):
    c = data[i:i + 1]
    if c == b'i':
        e = data.index(b'e', i)
        return int(data[i + 1:e]), e + 1
    if c == b'l':
        i += 1
        out = []
        while data[i:i + 1] != b'e':
            v, i = bdec(data, i)
            out.append(v)
        return out, i + 1
    if c == b'd':
        i += 1
        out = {}
        while data[i:i + 1] != b'e':
            k, i = bdec(data, i)
            v, i = bdec(data, i)
            out[k] = v
        return out, i + 1
    colon = data.index(b':', i)
    n = int(data[i:colon])
    return data[colon + 1:colon + 1 + n], colon + 1 + n


def benc(v):
    if isinstance(v, bool):
        raise TypeError(v)
    if isinstance(v, int):
        return b'i%de' % v
    if isinstance(v, (bytes, bytearray)):
        return b'%d:%s' % (len(v), bytes(v))
    if isinstance(v, str):
        return benc(v.encode())
    if isinstance(v, (list, tuple)):
        return b'l' + b''.join(benc(x) for x in v) + b'e'
    if isinstance(v, dict):
        return b'd' + b''.join(benc(k) + benc(x) for k, x in v.items()) + b'e'
    raise TypeError(v)


def peek(data):
    """driver-side view of a datagram: dict with type/rpc_id/node_id/method/args/response or None"""
    try:
        d, _ = bdec(data)
        if not isinstance(d, dict) or d.get(0) not in (0, 1, 2):
            return None
        out = {'type': d[0], 'rpc_id': d.get(1), 'node_id': d.get(2)}
        if d[0] == 0:
            out['method'] = d.get(3)
            out['args'] = d.get(4)
        elif d[0] == 1:
            out['response'] = d.get(3)
        return out
    except Exception:  # pylint: disable=broad-except
        return None


def ticks(t, up=False):
    x = t * TICK
    return int(math.ceil(x)) if up else int(math.floor(x))


def nid(label):
    return hashlib.sha384(label.encode() if isinstance(label, str) else label).digest()


def is_public(ip):
    try:
        a = ipaddress.ip_address(ip)
    except ValueError:
        return False
    if a.version != 4 or a.is_unspecified or a.is_link_local or a.is_loopback or a.is_multicast or a.is_reserved or a.is_private:
        return False
    return not (a in ipaddress.ip_network('100.64.0.0/10') or a in ipaddress.ip_network('192.88.99.0/24'))


# ----------------------------------------------------------------------------------------------- the network

class Net:
    """Driver-controlled datagram network.  Endpoints are real KademliaProtocol objects (attached through
    loop.datagram_factory) or scripted responders.  A datagram is delivered after a delay chosen by the driver's RNG
    (multiples of 1/1024 s: reordering is a consequence), possibly twice, possibly never.  One datagram per endpoint per
    loop iteration, as a selector datagram transport reads (callbacks scheduled by a delivery run before the next one)."""

    def __init__(self, loop, rng, max_delay=0.2, dup=0.1, loss=0.0):
        self.loop, self.rng = loop, rng
        self.max_delay, self.dup, self.loss = max_delay, dup, loss
        self.protos = {}        # addr -> real protocol
        self.scripts = {}       # addr -> callable(data, src) -> [(delay, bytes)]
        self.inbox = collections.defaultdict(collections.deque)
        self.pumping = set()
        self.sent = 0
        self.delivered = 0
        self.taps = {}          # addr -> Tap
        self.dead = set()       # addresses that swallow everything

    def factory(self, protocol_factory, local_addr):
        proto = protocol_factory()
        addr = (proto.external_ip, proto.udp_port)
        tr = FakeDatagramTransport(self.loop, addr, self.send)
        proto.connection_made(tr)
        self.protos[addr] = proto
        return tr, proto

    def delay(self):
        return self.rng.randrange(0, int(self.max_delay * TICK) + 1) / TICK if self.max_delay else 0.0

    def send(self, data, src, dst):
        self.sent += 1
        tap = self.taps.get(src)
        if tap is not None:
            tap.on_send(data, dst, self.loop.time())
        if self.loss and self.rng.random() < self.loss:
            return
        for _ in range(2 if self.dup and self.rng.random() < self.dup else 1):
            self.loop.call_later(self.delay(), self.arrive, data, src, dst)

    def arrive(self, data, src, dst):
        if dst in self.dead:
            return
        self.inbox[dst].append((data, src))
        if dst not in self.pumping:
            self.pumping.add(dst)
            self.loop.call_soon(self.pump, dst)

    def pump(self, dst):
        q = self.inbox[dst]
        data, src = q.popleft()
        try:
            self.deliver(data, src, dst)
        finally:
            if q:
                self.loop.call_soon(self.pump, dst)      # after whatever the delivery scheduled
            else:
                self.pumping.discard(dst)

    def deliver(self, data, src, dst):
        self.delivered += 1
        tap = self.taps.get(dst)
        if tap is not None:
            tap.on_deliver(data, src, self.loop.time())
        if dst in self.scripts:
            for d, out in self.scripts[dst](data, src) or ():
                self.loop.call_later(d, self.arrive, out, dst, src)      # scripted replies: exact delays, no loss/duplication
            return
        p = self.protos.get(dst)
        if p is not None and p.transport is not None and not p.transport.is_closing():
            p.datagram_received(data, src)


class Tap:
    """what the wire shows about one endpoint: requests it sent, store requests it received, matching responses"""

    def __init__(self, addr):
        self.addr = addr
        self.requests = []                 # dicts: t, dst, method, page, rpc_id, answered (time or None)
        self.by_rpc = {}
        self.replied = {}                  # (ip, port) -> first time a matching response datagram was delivered
        self.stores = []                   # (t, src, blob_hash, token)  store requests delivered here
        self.per_dst = collections.Counter()   # find requests sent per destination
        self.max_per_dst = 0

    def on_send(self, data, dst, t):
        m = peek(data)
        if m and m['type'] == 0:
            page = 0
            args = m['args'] if isinstance(m['args'], list) else []
            if m['method'] == b'findValue' and len(args) > 1 and isinstance(args[1], dict):
                page = args[1].get(b'p', 0)
            r = {'t': t, 'dst': dst, 'method': (m['method'] or b'').decode(), 'page': page, 'rpc_id': m['rpc_id'], 'answered': None,
                 'key': args[0] if args else None}
            self.requests.append(r)
            self.by_rpc[m['rpc_id']] = r
            if r['method'] in ('findNode', 'findValue'):
                self.per_dst[dst] += 1
                self.max_per_dst = max(self.max_per_dst, self.per_dst[dst])

    def on_deliver(self, data, src, t):
        m = peek(data)
        if not m:
            return
        if m['type'] == 1:
            r = self.by_rpc.get(m['rpc_id'])
            if r is not None and r['answered'] is None and r['dst'][0] == src[0] and t - r['t'] < RPC_TIMEOUT:
                r['answered'] = t
                r['resp'] = m['response']
                self.replied.setdefault(src, t)
        elif m['type'] == 0 and m['method'] == b'store' and isinstance(m['args'], list) and len(m['args']) >= 2:
            self.stores.append((t, src, m['args'][0], m['args'][1]))


# ----------------------------------------------------------------------------------------------- real nodes

def node_ip(i):
    return f'1.2.{3 + i // 200}.{1 + i % 200}'


class World:
    """a DetLoop, a Net and real Node objects"""

    def __init__(self, rng, max_delay=0.2, dup=0.1, loss=0.0):
        import lbry.wallet  # noqa: F401  pylint: disable=unused-import,import-outside-toplevel
        from lbry.dht.peer import make_kademlia_peer
        make_kademlia_peer.cache_clear()
        import random
        random.seed(rng.getrandbits(64))      # routing_table picks its refresh ids from the global generator: keep runs replayable
        self.loop = DetLoop()
        self.rng = rng
        self.net = Net(self.loop, rng, max_delay, dup, loss)
        self.loop.datagram_factory = self.net.factory
        self.nodes = []

    def add_node(self, label, ip=None, udp_port=4444, peer_port=3333, tap=True):
        from lbry.dht.node import Node
        from lbry.dht.peer import PeerManager
        ip = ip or node_ip(len(self.nodes))
        with self.loop:
            node = Node(self.loop, PeerManager(self.loop), nid(label), udp_port, udp_port, peer_port, ip, rpc_timeout=RPC_TIMEOUT)
        node.verif_addr = (ip, udp_port)
        self.nodes.append(node)
        if tap:
            self.net.taps[(ip, udp_port)] = Tap((ip, udp_port))
        return node

    def tap(self, node):
        return self.net.taps[node.verif_addr]

    def start(self, node, bootstrap=None):
        with self.loop:
            node.start('0.0.0.0', [bootstrap] if bootstrap else [])

    def run_until(self, t, limit=None):
        """let virtual time pass; the step budget is proportional to the nodes and the time (an idle node costs ~5 steps per second)"""
        if limit is None:
            limit = 200_000 + int(max(0.0, t - self.loop.time()) * (len(self.nodes) + 1) * 25)
        with watchdog(900):
            self.loop.drain(limit=limit, until=t)

    def run_task(self, coro, horizon, limit=2_000_000, stop=None):
        """run one coroutine of product code until it completes, a virtual-time horizon or a step budget"""
        task = self.loop.spawn(coro)
        budget = False
        try:
            with watchdog(600):
                self.loop.drain(limit=limit, until=self.loop.time() + horizon, stop=(lambda: task.done() or (stop is not None and stop())))
        except BudgetExceeded:
            budget = True
        return task, budget

    def stop(self):
        for n in self.nodes:
            try:
                with self.loop:
                    n.stop()
            except Exception:  # pylint: disable=broad-except
                pass
        self.loop.drain(limit=200_000, timers=False)


async def value_lookup(node, key, shortlist=None, out=None):
    from lbry.utils import aclosing
    res = out if out is not None else []
    async with aclosing(node.get_iterative_value_finder(key, shortlist=shortlist)) as finder:
        async for peers in finder:
            res.append(list(peers))
    return res


async def node_lookup(node, key, shortlist=None, out=None, max_results=16):
    from lbry.utils import aclosing
    res = out if out is not None else []
    async with aclosing(node.get_iterative_node_finder(key, shortlist=shortlist, max_results=max_results)) as finder:
        async for peers in finder:
            res.append(list(peers))
    return res


# ----------------------------------------------------------------------------------------------- scripted peers

class Scripted:
    """A scripted DHT participant at its own address.  `behave(self, msg, src)` returns [(delay, datagram bytes)].
    Replies are REAL datagrams (lbry.dht.serialization.datagram) unless the behaviour wants malformed bytes."""

    def __init__(self, world, label, ip, port=4444, behave=None, tcp_port=3333, delay=0.02):
        self.world, self.label = world, label
        self.id = nid(label)
        self.addr = (ip, port)
        self.tcp_port = tcp_port
        self.behave = behave
        self.delay = delay
        self.seen = []            # (t, method, page)
        self.inbox = []           # responses delivered here (when acting as a client)
        world.net.scripts[self.addr] = self.handle

    def handle(self, data, src):
        m = peek(data)
        if not m:
            return ()
        if m['type'] != 0:
            self.inbox.append((m, src))
            return ()
        args = m['args'] if isinstance(m['args'], list) else []
        page = args[1].get(b'p', 0) if m['method'] == b'findValue' and len(args) > 1 and isinstance(args[1], dict) else 0
        self.seen.append((self.world.loop.time(), m['method'], page))
        m['page'] = page
        m['key'] = args[0] if args else None
        return self.behave(self, m, src) if self.behave else ()

    def triple(self):
        return [self.id, self.addr[0].encode(), self.addr[1]]

    def compact(self):
        return bytes(int(x) for x in self.addr[0].split('.')) + self.tcp_port.to_bytes(2, 'big') + self.id

    def peer(self):
        from lbry.dht.peer import make_kademlia_peer
        return make_kademlia_peer(self.id, self.addr[0], self.addr[1])

    def response(self, m, payload, node_id=None):
        from lbry.dht.serialization.datagram import ResponseDatagram, RESPONSE_TYPE
        return ResponseDatagram(RESPONSE_TYPE, m['rpc_id'], node_id or self.id, payload).bencode()

    def error(self, m, text=b'boom'):
        from lbry.dht.serialization.datagram import ErrorDatagram, ERROR_TYPE
        return ErrorDatagram(ERROR_TYPE, m['rpc_id'], self.id, b"<class 'ValueError'>", text).bencode()

    def send(self, data, dst):
        """act as a client: put a datagram on the wire"""
        self.world.net.send(data, self.addr, dst)


def compact_addr(ip, port, node_id):
    return bytes(int(x) for x in ip.split('.')) + port.to_bytes(2, 'big') + node_id


def honest(contacts=(), values=None, pages=None):
    """an honest scripted node: ping, findNode -> its contacts, findValue -> token + contacts (+ its value pages), store -> OK"""
    def behave(self, m, src):
        K = 8
        if m['method'] == b'ping':
            return [(self.delay, self.response(m, b'pong'))]
        if m['method'] == b'store':
            return [(self.delay, self.response(m, b'OK'))]
        triples = [c.triple() if isinstance(c, Scripted) else list(c) for c in contacts]
        if m['method'] == b'findNode':
            return [(self.delay, self.response(m, triples[:2 * K]))]
        if m['method'] == b'findValue':
            out = {b'token': b't' * 48, b'protocolVersion': 1}
            if not m['page']:
                out[b'contacts'] = triples[:K]
            vals = values or []
            out[b'p'] = pages if pages is not None else (len(vals) + K - 1) // K
            if m['page'] * K < len(vals):
                out[m['key']] = vals[m['page'] * K:m['page'] * K + K]
            return [(self.delay, self.response(m, out))]
        return ()
    return behave


def dead():
    return lambda self, m, src: ()


def slow(inner, delay):
    """answers like `inner` but after `delay` seconds (just inside / outside rpc_timeout)"""
    def behave(self, m, src):
        return [(delay, d) for _, d in inner(self, m, src)]
    return behave


def raw(fn):
    """findNode/findValue answered with whatever fn(self, m, src) builds; ping is answered honestly so that the peer counts as alive"""
    def behave(self, m, src):
        if m['method'] == b'ping':
            return [(self.delay, self.response(m, b'pong'))]
        out = fn(self, m, src)
        if out is None:
            return ()
        return [(self.delay, x) for x in (out if isinstance(out, list) else [out])]
    return behave


# ----------------------------------------------------------------------------------------------- paging: n announcers on ONE real node

def paging_run(ctx, n, seed, via='finder', self_announce=False):
    """n scripted announcers fetch a token from the real node S (findValue) and store with it (real datagrams through the
    network); then a second real node C pages S with the real IterativeValueFinder (shortlist = [S]).
    via='rpc': the real server RPC is called page by page with the client's continuation rule applied by the driver."""
    import random
    from lbry.dht.serialization.datagram import RequestDatagram
    from lbry.dht.peer import make_kademlia_peer
    rng = random.Random(seed * 1000 + n)
    w = World(rng, max_delay=0.05, dup=0.1)
    S = w.add_node(f'storing-{seed}', ip='1.2.3.1')
    C = w.add_node(f'client-{seed}', ip='1.2.3.2')
    key = nid(f'paged-blob-{seed}')
    for node in (S, C):
        t, _ = w.run_task(node.start_listening(), 5)
        if not t.done():
            raise MachineryError('start_listening did not complete')
    s_addr = S.verif_addr
    anns = []

    def announcer_behave(self, m, src):
        return [(self.delay, self.response(m, b'pong'))] if m['method'] == b'ping' else ()

    for i in range(n):
        a = Scripted(w, f'ann-{seed}-{i}', f'1.3.{i // 200}.{1 + i % 200}', 4444, announcer_behave, tcp_port=3333 + i)
        anns.append(a)
        a.send(RequestDatagram.make_find_value(a.id, key).bencode(), s_addr)
    w.run_until(w.loop.time() + 1.0)
    for a in anns:
        tokens = [m['response'].get(b'token') for m, src in a.inbox if src == s_addr and isinstance(m.get('response'), dict)]
        if not tokens:
            raise MachineryError('announcer got no token from the storing node')
        a.inbox.clear()
        a.send(RequestDatagram.make_store(a.id, key, tokens[0], a.tcp_port).bencode(), s_addr)
    w.run_until(w.loop.time() + 1.0)
    acked = sum(1 for a in anns if any(m.get('response') == b'OK' for m, _ in a.inbox))
    want = {(a.id, a.addr[0], a.tcp_port) for a in anns}
    rec = {'kind': 'paging', 'via': via, 'n': n, 'acked': acked, 'seed': seed, 'self_announce': self_announce}
    me = (C.protocol.node_id, C.protocol.external_ip, C.protocol.peer_port)
    if self_announce:
        # the searching node holds the blob too and has announced it on S through the real client path (token + store)
        t, budget = w.run_task(C.protocol.store_to_peer(key, make_kademlia_peer(S.protocol.node_id, *s_addr)), 30)
        if not t.done() or budget or t.exception() is not None or not t.result()[1]:
            raise MachineryError(f'the searching node could not store its own announcement: {t}')
        w.run_until(w.loop.time() + 1.0)
    tap = w.tap(C)
    if via == 'finder':
        task, budget = w.run_task(value_lookup(C, key, shortlist=[make_kademlia_peer(S.protocol.node_id, *s_addr)]), 60, stop=lambda: tap.max_per_dst > PAGER_PROBE_BUDGET)
        if not task.done() or budget:
            rec.update({'finished': False, 'returned': 0, 'extra': 0, 'requests': len(tap.requests), 'pages_claimed': -1})
            w.stop()
            return rec
        if task.exception() is not None:
            raise MachineryError(f'paging lookup raised {task.exception()!r}')
        got = {(p.node_id, p.address, p.tcp_port) for batch in task.result() for p in batch}
        claimed = [r['resp'].get(b'p', -1) for r in tap.requests if r['method'] == 'findValue' and isinstance(r.get('resp'), dict)]
        rec['requests'] = sum(1 for r in tap.requests if r['method'] == 'findValue')
    else:
        contact = make_kademlia_peer(C.protocol.node_id, *C.verif_addr)
        page, discovered, claimed, reqs = 0, set(), [], 0
        while True:                       # IterativeValueFinder.send_probe's rule, applied to the real server's answers
            with w.loop, watchdog(10):
                resp = S.protocol.node_rpc.find_value(contact, key, page)
            reqs += 1
            claimed.append(resp.get(b'p', -1))
            found = resp.get(key, [])
            if not found:
                break
            known = len(discovered)
            discovered.update(bytes(x) for x in found)
            if len(discovered) != known + len(found):
                break
            if len(found) >= 8 and page < int(resp.get(b'p', 0)):
                page += 1
                continue
            break
            # pylint: disable=unreachable
        got = {(c[6:], '.'.join(str(b) for b in c[:4]), int.from_bytes(c[4:6], 'big')) for c in discovered}
        rec['requests'] = reqs
    rec.update({'finished': True, 'returned': len(got & want), 'extra': len(got - want - {me}),
                'pages_claimed': claimed[0] if claimed else -1, 'pages_consistent': len(set(claimed)) <= 1})
    w.stop()
    return rec


# ----------------------------------------------------------------------------------------------- lookups in a hostile network

RESERVED_IPS = ['10.0.0.1', '127.0.0.1', '0.0.0.0', '224.0.0.1', '192.168.1.1', '169.254.1.1', '100.64.0.1', '255.255.255.255', '172.16.5.5']


def fresh_triples(rng, n, prefix='9.9'):
    """well-formed contacts that do not exist (they will be silent)"""
    return [[nid(f'ghost-{rng.random()}'), f'{prefix}.{rng.randrange(1, 250)}.{rng.randrange(1, 250)}'.encode(), rng.randrange(1024, 65535)] for _ in range(n)]


def fresh_compacts(rng, n):
    return [compact_addr(f'8.{rng.randrange(1, 250)}.{rng.randrange(1, 250)}.{rng.randrange(1, 250)}', rng.randrange(1024, 65535), nid(f'v-{rng.random()}'))
            for _ in range(n)]


def hostile_catalogue(rng, x_triple, x_compact, others):
    """name -> behaviour.  `others`: callable returning triples of other peers of the scenario (live, dead and hostile ones)."""
    K = 8
    cat = {}

    def fn(name, node_payload, value_payload=None):
        def build(self, m, src):
            if m['method'] == b'findNode':
                p = node_payload(self, m)
            elif m['method'] == b'findValue':
                p = (value_payload or (lambda s, mm: {b'token': b't' * 48, b'contacts': node_payload(s, mm)[:K] if isinstance(node_payload(s, mm), list) else node_payload(s, mm), b'p': 0}))(self, m)
            else:
                return self.response(m, b'OK')
            if isinstance(p, (bytes, bytearray)) and p[:4] == b'RAW:':
                return bytes(p[4:])
            if p is None:
                return None
            return self.response(m, p)
        cat[name] = raw(build)

    fn('self-triple', lambda s, m: [list(x_triple)] + others()[:3])
    fn('self-id-other-address', lambda s, m: [[x_triple[0], b'7.7.7.7', 4444], [nid('someone'), x_triple[1], x_triple[2]]] + others()[:2])
    fn('reserved-ips', lambda s, m: [[nid(f'r{i}'), ip.encode(), 4444] for i, ip in enumerate(RESERVED_IPS)] + others()[:2])
    fn('bad-id-length', lambda s, m: [[b'\x01' * 47, b'5.5.5.5', 4444], [b'\x01' * 49, b'5.5.5.6', 4444], [b'', b'5.5.5.7', 4444]] + others()[:2])
    fn('bad-ports', lambda s, m: [[nid(f'p{p}'), b'5.5.6.1', p] for p in (0, 80, 1023, 65536, -1)] + others()[:2])
    fn('duplicates', lambda s, m: (others()[:1] or fresh_triples(rng, 1)) * 16)
    fn('bad-arity', lambda s, m: others()[:1] + [[nid('a2'), b'5.5.7.1'], [nid('a4'), b'5.5.7.2', 4444, 1], 7, b'xyz'])
    fn('not-a-list', lambda s, m: 12345, lambda s, m: [1, 2, 3])
    fn('bytes-payload', lambda s, m: b'just bytes', lambda s, m: b'just bytes')
    fn('undecodable-address', lambda s, m: [[nid('u1'), b'\xff\xfe\xfd', 4444]] + others()[:2])
    fn('claims-key-is-a-node', lambda s, m: [[m['key'], b'5.5.8.1', 4444]] + others()[:3])
    fn('ghosts', lambda s, m: fresh_triples(rng, 8))
    fn('many-ghosts', lambda s, m: fresh_triples(rng, 16))
    fn('unhashable-id', lambda s, m: [[[1, 2], b'5.5.9.1', 4444]] + others()[:1])
    fn('our-node-id-in-envelope', lambda s, m: b'RAW:' + s.response(m, others()[:2], node_id=x_triple[0]))
    fn('wrong-rpc-id', lambda s, m: b'RAW:' + s.response(dict(m, rpc_id=b'\x00' * 20), others()[:2]))
    fn('error', lambda s, m: b'RAW:' + s.error(m))
    fn('garbage-bytes', lambda s, m: b'RAW:' + b'\xffgarbage that is no bencoding')
    fn('truncated', lambda s, m: b'RAW:' + s.response(m, others()[:2])[:-7])
    fn('empty-dict-datagram', lambda s, m: b'RAW:' + benc({0: 1, 1: m['rpc_id']}))
    fn('silent', lambda s, m: None)
    # ---- value replies
    tok = b't' * 48

    def vfn(name, build):
        fn(name, lambda s, m: others()[:3], build)

    vfn('v-bad-compact-short', lambda s, m: {b'token': tok, b'p': 1, m['key']: [b'\x05\x05\x05\x05\x0d'], b'contacts': others()[:3]})
    vfn('v-port-zero', lambda s, m: {b'token': tok, b'p': 1, m['key']: [compact_addr('5.5.5.5', 0, nid('z'))], b'contacts': others()[:3]})
    vfn('v-port-low', lambda s, m: {b'token': tok, b'p': 1, m['key']: [compact_addr('5.5.5.5', 80, nid('z'))] + fresh_compacts(rng, 3)})
    vfn('v-private-ip', lambda s, m: {b'token': tok, b'p': 1, m['key']: fresh_compacts(rng, 2) + [compact_addr(ip, 3333, nid(ip)) for ip in RESERVED_IPS]})
    # one not-public address per reply, next to well-formed ones (a reply with several bad ones is dropped for the first of them):
    # every range the statement's "public" excludes, at its first address, and multicast / reserved / broadcast
    for ip in ('0.0.0.0', '10.0.0.1', '100.64.0.0', '127.0.0.1', '169.254.1.1', '172.16.0.0', '172.31.255.255', '192.168.0.1', '192.88.99.1',
               '224.0.0.251', '239.255.255.250', '240.0.0.1', '255.255.255.255'):
        vfn('v-one-' + ip, lambda s, m, ip=ip: {b'token': tok, b'p': 1, m['key']: fresh_compacts(rng, 2) + [compact_addr(ip, 3333, nid(ip))]})
    vfn('v-id-length', lambda s, m: {b'token': tok, b'p': 1, m['key']: [compact_addr('5.5.5.5', 3333, b'\x02' * 47), compact_addr('5.5.5.6', 3333, b'\x02' * 49)]})
    vfn('v-duplicates', lambda s, m: {b'token': tok, b'p': 1000000, m['key']: fresh_compacts(rng, 1) * 8})
    dup_pages = fresh_compacts(rng, 8)
    vfn('v-same-page-forever', lambda s, m: {b'token': tok, b'p': 1000000, m['key']: dup_pages})
    vfn('v-inflated-short-page', lambda s, m: {b'token': tok, b'p': 2 ** 40, m['key']: fresh_compacts(rng, 5)})
    vfn('v-liar-5-pages', lambda s, m: {b'token': tok, b'p': 100000, **({m['key']: fresh_compacts(rng, 8)} if m['page'] < 5 else {})})
    vfn('v-pager', lambda s, m: {b'token': tok, b'p': 2 ** 31, m['key']: fresh_compacts(rng, 8)})
    vfn('v-pager-with-contacts', lambda s, m: {b'token': tok, b'p': 2 ** 31, m['key']: fresh_compacts(rng, 8), b'contacts': fresh_triples(rng, 8)})
    vfn('v-no-token', lambda s, m: {b'p': 1, m['key']: fresh_compacts(rng, 3)})
    vfn('v-pages-not-int', lambda s, m: {b'token': tok, b'p': b'many', m['key']: fresh_compacts(rng, 8)})
    vfn('v-pages-negative', lambda s, m: {b'token': tok, b'p': -5, m['key']: fresh_compacts(rng, 8)})
    vfn('v-values-not-list', lambda s, m: {b'token': tok, b'p': 1, m['key']: 99})
    vfn('v-values-ints', lambda s, m: {b'token': tok, b'p': 1, m['key']: [1, 2, 3]})
    vfn('v-not-a-dict', lambda s, m: [b'token', tok])
    vfn('v-own-address', lambda s, m: {b'token': tok, b'p': 1, m['key']: [x_compact] + fresh_compacts(rng, 2)})
    vfn('v-contacts-hostile', lambda s, m: {b'token': tok, b'p': 0, b'contacts': [list(x_triple), [nid('q'), b'10.1.1.1', 4444], [b'short', b'5.5.5.5', 4444], 5]})
    vfn('v-other-key', lambda s, m: {b'token': tok, b'p': 3, nid('another key'): fresh_compacts(rng, 8)})
    vfn('v-honest-20', None)
    vals20 = fresh_compacts(rng, 20)
    cat['v-honest-20'] = honest(values=vals20)
    return cat


NODE_ONLY = None   # every behaviour answers both RPCs


def lookup_run(rng, mode, roles, names=None, net=None, key_label='target', shortlist_n=None, tell=True, real_honest=0):
    """One real lookup by a real Node X against scripted peers.  roles: list of behaviour names ('honest', 'dead', 'slow', 'late',
    or a catalogue name).  Honest peers hand out the other peers (all roles) as contacts.  Returns the record."""
    from lbry.dht.peer import make_kademlia_peer
    net = net or {}
    w = World(rng, max_delay=net.get('delay', 0.05), dup=net.get('dup', 0.1), loss=net.get('loss', 0.0))
    X = w.add_node('searcher', ip='1.2.3.1')
    t, _ = w.run_task(X.start_listening(), 5)
    if not t.done():
        raise MachineryError('start_listening did not complete')
    key = nid(key_label)
    x_triple = [X.protocol.node_id, b'1.2.3.1', 4444]
    x_compact = compact_addr('1.2.3.1', 3333, X.protocol.node_id)
    peers = []

    def others():
        ts = [p.triple() for p in peers]
        rng.shuffle(ts)
        return ts

    cat = hostile_catalogue(rng, x_triple, x_compact, others)
    for i, role in enumerate(roles):
        p = Scripted(w, f'peer-{i}-{rng.random()}', f'1.4.{i // 200}.{1 + i % 200}', 4444)
        p.role = role
        peers.append(p)
    for p in peers:
        if p.role == 'honest':
            p.behave = honest(contacts=[q for q in peers if q is not p] if tell else [])
        elif p.role == 'dead':
            p.behave = dead()
        elif p.role == 'slow':
            p.behave = slow(honest(contacts=[q for q in peers if q is not p]), 4.75)
        elif p.role == 'late':
            p.behave = slow(honest(contacts=[q for q in peers if q is not p]), 5.25)
        elif p.role == 'holder':
            p.behave = honest(contacts=[q for q in peers if q is not p], values=fresh_compacts(rng, rng.choice([1, 8, 9, 30])))
        else:
            p.behave = cat[p.role]
    reals = []
    for j in range(real_honest):
        R = w.add_node(f'real-{j}', ip=f'1.2.4.{1 + j}')
        w.run_task(R.start_listening(), 5)
        reals.append(R)
    shortlist = [p.peer() for p in peers[:shortlist_n or len(peers)]] + [make_kademlia_peer(R.protocol.node_id, *R.verif_addr) for R in reals]
    tap = w.tap(X)
    out = []
    coro = (value_lookup if mode == 'value' else node_lookup)(X, key, shortlist=shortlist, out=out)
    t0 = w.loop.time()
    horizon = 40000.0
    task, budget = w.run_task(coro, horizon, limit=6_000_000, stop=lambda: tap.max_per_dst > PAGER_PROBE_BUDGET)
    t1 = w.loop.time()
    finished = task.done()
    exc = None
    if finished and not task.cancelled() and task.exception() is not None:
        exc = type(task.exception()).__name__
    probes = [r for r in tap.requests if r['method'] in ('findNode', 'findValue') and r['key'] == key and r['t'] >= t0]
    per = collections.Counter((r['dst'], r['page']) for r in probes)
    per_peer = collections.Counter(r['dst'] for r in probes)
    ys = []
    for batch in out:
        for p in batch:
            port = p.tcp_port if mode == 'value' else p.udp_port
            ys.append({'o': [int(x) for x in p.address.split('.')] if p.address.count('.') == 3 and all(x.isdigit() for x in p.address.split('.')) else [0, 0, 0, 0],
                       'port': port if isinstance(port, int) else -1, 'idlen': len(p.node_id) if p.node_id is not None else 0,
                       'self': p.node_id == X.protocol.node_id or (p.address, p.udp_port) == ('1.2.3.1', 4444),
                       'replied': (p.address, p.udp_port) in tap.replied})
    rec = {'kind': 'lookup', 'mode': mode, 'roles': list(roles), 'net': net, 'finished': bool(finished), 'budget': bool(budget), 'raised': exc or '',
           't0': ticks(t0), 't1': ticks(t1, up=True), 'timeout': int(RPC_TIMEOUT * TICK), 'nprobes': len(probes),
           'max_same_probe': max(per.values()) if per else 0, 'max_per_peer': max(per_peer.values()) if per_peer else 0,
           'contacted': len(per_peer), 'replied': len([a for a in per_peer if a in tap.replied]), 'yielded': ys,
           'stopped_by_probe_budget': tap.max_per_dst > PAGER_PROBE_BUDGET, 'loop_exceptions': len(w.loop.exceptions)}
    if not finished:
        task.cancel()
    w.stop()
    return rec


# ----------------------------------------------------------------------------------------------- honest network: hit guarantee

def xor_rank(key, node_ids, target_ids):
    """worst closeness rank (1 = closest) of target_ids among node_ids, by XOR distance to key"""
    order = sorted(node_ids, key=lambda i: int.from_bytes(bytes(a ^ b for a, b in zip(i, key)), 'big'))
    return max((order.index(t) + 1 for t in target_ids), default=0)


class Network:
    def __init__(self, ctx, n, seed, max_delay=0.2, dup=0.1):
        import random
        self.ctx, self.n, self.seed = ctx, n, seed
        self.rng = random.Random(seed * 7919 + n)
        self.delay, self.dup = max_delay, dup
        self.w = World(self.rng, max_delay, dup)
        w = self.w
        for i in range(n):
            w.add_node(f'net-{seed}-{n}-{i}', peer_port=3333 + i)
        order = list(range(1, n))
        self.rng.shuffle(order)
        w.start(w.nodes[0])
        for i in order:       # join order and join times are the driver's choice
            w.loop.call_later(self.rng.randrange(0, 60 * TICK) / TICK, w.start, w.nodes[i], w.nodes[0].verif_addr)
        self.announcements = {}     # key -> list of announcer nodes

    def exact(self, on):
        """zero network delay and no duplication: everything a lookup does happens at one virtual instant"""
        self.w.net.max_delay = 0.0 if on else self.delay
        self.w.net.dup = 0.0 if on else self.dup

    def announce(self, node, key, recs):
        w = self.w
        t0 = w.loop.time()
        task, budget = w.run_task(node.announce_blob(key.hex()), 300)
        self.ann_time = getattr(self, 'ann_time', {})
        self.ann_time.setdefault(key, t0)
        self.round_start = getattr(self, 'round_start', {})
        if node in self.announcements.get(key, []):       # the same node announces again: THE announcement is now this one
            self.round_start[key] = t0
        if not task.done() or budget:           # the product code did not come back within 300 virtual seconds / the step budget
            task.cancel()
            recs.append({'kind': 'announce', 'n': self.n, 'seed': self.seed, 'stored_to': -1, 'stored_seen': -1, 'want': min(8, self.n - 1),
                         'rank_max': 0, 'converged': False, 't': ticks(t0), 'raised': 'announce_blob did not finish'})
            if node not in self.announcements.setdefault(key, []):
                self.announcements[key].append(node)
            return
        stored_to = task.result() if task.exception() is None else []
        w.run_until(w.loop.time() + (0.0 if w.net.max_delay == 0 else 1.0))      # let duplicates of the store requests land
        seen = {dst for dst, tap in w.net.taps.items() for (t, src, bh, _) in tap.stores if bh == key and src == node.verif_addr and t >= t0}
        others = [x.protocol.node_id for x in w.nodes if x is not node]
        want = min(8, self.n - 1)
        converged = self.converged()
        recs.append({'kind': 'announce', 'n': self.n, 'seed': self.seed, 'stored_to': len(set(stored_to)), 'stored_seen': len(seen), 'want': want,
                     'rank_max': xor_rank(key, others, set(stored_to)), 'converged': converged, 't': ticks(t0), 'raised': '' if task.exception() is None else repr(task.exception())})
        if node not in self.announcements.setdefault(key, []):
            self.announcements[key].append(node)
        self.ctx.count(('announce', self.n, self.seed, key.hex()[:8], ticks(t0)), nontrivial=True)

    def converged(self):
        """every node's routing table holds its K closest other nodes (what DhtStore.tla calls saturated, seen through get_peer)"""
        for x in self.w.nodes:
            xid = x.protocol.node_id
            others = sorted((y.protocol.node_id for y in self.w.nodes if y is not x), key=lambda i: int.from_bytes(bytes(a ^ b for a, b in zip(i, xid)), 'big'))
            if any(not x.protocol.routing_table.get_peer(i) for i in others[:8]):
                return False
        return True

    def store_times(self, key):
        return [t for tap in self.w.net.taps.values() for (t, src, bh, _) in tap.stores if bh == key]

    def lookups(self, key, recs, phase, searchers=None):
        """a value lookup from every node that is not an announcer of key"""
        w = self.w
        anns = self.announcements[key]
        for node in (searchers or w.nodes):
            if node in anns:
                continue
            tap = w.tap(node)
            out = []
            t0 = w.loop.time()
            task, budget = w.run_task(value_lookup(node, key, out=out), 600, limit=1_000_000)
            t1 = w.loop.time()
            got = {(p.node_id, p.address, p.tcp_port) for batch in out for p in batch}
            want = {(a.protocol.node_id, a.protocol.external_ip, a.protocol.peer_port) for a in anns}
            st = self.store_times(key) or [self.ann_time[key]]      # nothing stored anywhere: the age counts from the announce call
            # after a re-announcement by the same node the announcement that has to be findable is the latest one
            st_round = [t for t in st if t >= getattr(self, 'round_start', {}).get(key, 0)] or st
            probes = [r for r in tap.requests if r['method'] == 'findValue' and r['key'] == key and r['t'] >= t0]
            per = collections.Counter((r['dst'], r['page']) for r in probes)
            ys = [{'o': [int(x) for x in p.address.split('.')], 'port': p.tcp_port if isinstance(p.tcp_port, int) else -1,
                   'idlen': len(p.node_id or b''), 'self': p.node_id == node.protocol.node_id, 'replied': True}
                  for batch in out for p in batch]
            recs.append({'kind': 'hit', 'mode': 'value', 'n': self.n, 'seed': self.seed, 'phase': phase, 'announcers': len(anns),
                         'finished': bool(task.done() and not budget), 'stopped_by_probe_budget': False,
                         'found': want <= got, 'missing': len(want - got),
                         'age_hi': ticks(t1 - min(st_round), up=True), 'age_lo': ticks(t0 - max(st)), 'day': DAY * TICK,
                         't0': ticks(t0), 't1': ticks(t1, up=True), 'timeout': int(RPC_TIMEOUT * TICK), 'nprobes': len(probes),
                         'max_same_probe': max(per.values()) if per else 0, 'max_per_peer': 0, 'yielded': ys})
            if not task.done():
                task.cancel()
            self.ctx.count(('hit', self.n, self.seed, phase, key.hex()[:8], node.verif_addr), nontrivial=True)

    def token_experiment(self, recs):
        """a forged token is refused once the node has rotated its secret; a token issued by the node is accepted"""
        from lbry.dht.serialization.datagram import RequestDatagram
        w = self.w
        S = w.nodes[self.rng.randrange(self.n)]
        key = nid(f'token-blob-{self.seed}')
        with w.loop:
            S.protocol.node_rpc.refresh_token()
            S.protocol.node_rpc.refresh_token()
        pong = lambda self_, m, src: [(0.01, self_.response(m, b'pong'))] if m['method'] == b'ping' else ()
        forger = Scripted(w, f'forger-{self.seed}', '1.5.0.1', 4444, pong, tcp_port=4001)
        witness = Scripted(w, f'witness-{self.seed}', '1.5.0.2', 4444, pong, tcp_port=4002)

        def listed():
            witness.inbox.clear()
            witness.send(RequestDatagram.make_find_value(witness.id, key).bencode(), S.verif_addr)
            w.run_until(w.loop.time() + 1.0)
            vals = [v for m, _ in witness.inbox if isinstance(m.get('response'), dict) for v in m['response'].get(key, [])]
            return forger.compact() in [bytes(v) for v in vals]

        forger.send(RequestDatagram.make_store(forger.id, key, hashlib.sha384(b'forged').digest(), forger.tcp_port).bencode(), S.verif_addr)
        w.run_until(w.loop.time() + 1.0)
        refused = not any(m.get('response') == b'OK' for m, _ in forger.inbox) and any(m['type'] == 2 for m, _ in forger.inbox)
        was_listed = listed()
        forger.inbox.clear()
        forger.send(RequestDatagram.make_find_value(forger.id, key).bencode(), S.verif_addr)
        w.run_until(w.loop.time() + 1.0)
        toks = [m['response'][b'token'] for m, _ in forger.inbox if isinstance(m.get('response'), dict) and b'token' in m['response']]
        control = False
        if toks:
            forger.send(RequestDatagram.make_store(forger.id, key, toks[0], forger.tcp_port).bencode(), S.verif_addr)
            w.run_until(w.loop.time() + 1.0)
            control = listed()
        recs.append({'kind': 'token', 'n': self.n, 'seed': self.seed, 'refused': bool(refused), 'listed': bool(was_listed), 'control_listed': bool(control)})
        self.ctx.count(('token', self.n, self.seed), nontrivial=True)
        for s in (forger, witness):
            w.net.scripts.pop(s.addr, None)
            w.net.dead.add(s.addr)


def network_run(ctx, n, seed, recs, cross_day=True, multi=0, sample=None):
    """a network experiment; a scheduler-step budget exhausted by the product code (livelock) is a judged record"""
    try:
        return _network_run(ctx, n, seed, recs, cross_day, multi, sample)
    except BudgetExceeded as e:
        recs.append({'kind': 'livelock', 'n': n, 'seed': seed, 'what': str(e)})
        return {'n': n, 'seed': seed, 'livelock': str(e)}


def _network_run(ctx, n, seed, recs, cross_day=True, multi=0, sample=None):
    """warm up, announce (random delays; then at an exact instant), look up from every other node, cross 24 h"""
    net = Network(ctx, n, seed)
    w, rng = net.w, net.rng
    w.run_until(4000 if n <= 12 else 12000)       # larger networks need the hourly refresh rounds to learn their nearest neighbours
    searchers = None
    if sample and n > sample:
        searchers = rng.sample(w.nodes, sample)
    key1, key2, key3 = nid(f'blob1-{n}-{seed}'), nid(f'blob2-{n}-{seed}'), nid(f'blob3-{n}-{seed}')
    net.announce(w.nodes[rng.randrange(n)], key1, recs)
    net.lookups(key1, recs, 'fresh')
    key4 = nid(f'blob4-{n}-{seed}')
    renewer = w.nodes[rng.randrange(n)]
    if cross_day:
        net.announce(renewer, key4, recs)
    if multi:
        for a in rng.sample(w.nodes, min(multi, n - 1)):
            net.announce(a, key3, recs)
        net.lookups(key3, recs, 'fresh-multi')
    # an announcement whose stores all land at one exact virtual instant T0
    T0 = float(int(w.loop.time()) + 2)
    w.run_until(T0)
    net.exact(True)
    net.announce(w.nodes[rng.randrange(n)], key2, recs)
    st = net.store_times(key2)
    if st and (min(st) != T0 or max(st) != T0):
        raise MachineryError(f'exact-instant announce spread over {min(st)}..{max(st)}')
    net.exact(False)
    net.lookups(key2, recs, 'fresh-exact', searchers)
    if cross_day:
        # the announcer of key4 announces again half a day later (what the blob announcer does for blobs it still holds)
        w.run_until(T0 + DAY // 2)
        net.announce(renewer, key4, recs)
        w.run_until(T0 + DAY - 30)
        net.lookups(key1, recs, 'day-30s', searchers)
        net.lookups(key2, recs, 'day-30s', searchers)
        if multi:
            net.lookups(key3, recs, 'day-30s-multi', searchers)
        net.exact(True)
        w.run_until(T0 + DAY - 1.0 / TICK)
        net.lookups(key2, recs, 'day-1tick', searchers)
        w.run_until(T0 + DAY)
        net.lookups(key2, recs, 'day-exactly', searchers)
        net.exact(False)
        w.run_until(T0 + DAY + 400)
        net.lookups(key1, recs, 'day+400s', searchers)
        net.lookups(key2, recs, 'day+400s', searchers)
        if multi:
            net.lookups(key3, recs, 'day+400s-multi', searchers)
        net.lookups(key4, recs, 'renewed-12h', searchers)            # first announcement expired, second one 12 h old: still findable
        if n <= 5 or ctx.thorough:
            w.run_until(T0 + DAY // 2 + DAY + 700)
            net.lookups(key4, recs, 'renewed-expired', searchers)    # and no longer once the second one is 24 h old
    # last, because it rotates a node's token secret by hand (nothing in the product does): the 'Invalid token' errors that
    # other nodes' cached tokens then earn are rated as failures of that node, and in the zero-delay mode used above such a
    # failure and the successful retry carry the same timestamp (the rating treats the tie as 'failed since')
    net.token_experiment(recs)
    exc = len(w.loop.exceptions)
    w.stop()
    return {'n': n, 'seed': seed, 'steps': w.loop.steps, 'datagrams': w.net.sent, 'loop_exceptions': exc,
            'table_sizes': sorted(len(x.protocol.routing_table.get_peers()) for x in w.nodes)}


# ----------------------------------------------------------------------------------------------- Leg A: the models

L_INV = ['TypeOK', 'Progress', 'Parallelism', 'ProbeDeadline', 'ProbeOncePerPage', 'TimeBound', 'NodeBound', 'NodeResultsRepliedOnly',
         'NeverSelf', 'ValueResultsWellFormed']
L_WIT = ['W_Closed', 'W_Yield', 'W_TimeoutPath', 'W_FullTime']
S_INV = ['Hit', 'NoHitAfter', 'StoredAtClosest', 'Capacity']
S_WIT = ['W_Found', 'W_Expired', 'W_Restamped', 'W_Boundary']


def lookup_cfg(r, mode, invs, pagecap=0, maxpage=3, pagelimit=2, t=2, mark=True, filt=True, clearbad=True, maxc=None):
    return tlc.make_cfg(constants={'R': r, 'ALPHA': 2, 'K': 2, 'T': t, 'MODE': mode, 'MAXC': maxc or r, 'PAGECAP': pagecap, 'MAXPAGE': maxpage,
                                   'PAGELIMIT': pagelimit, 'MARK': mark, 'FILTER': filt, 'CLEARBAD': clearbad}, invariants=invs, deadlock=True)


def store_cfg(nodes, keys, warm, invs, ge=False, day=2, maxt=3):
    txt = tlc.make_cfg(constants={'B': 3, 'BOOT': nodes[0], 'K': 2, 'ALPHA': 2, 'DAY': day, 'MAXT': maxt if warm else 0, 'GE': ge, 'WARM': warm,
                                  'PK': 8, 'FORMULA': 'found'}, invariants=invs)
    return txt.replace('CONSTANTS\n', 'CONSTANTS\n  NodeIds = {%s}\n  KEYS = {%s}\n' % (', '.join(map(str, nodes)), ', '.join(map(str, keys))))


def paging_cfg(formula, maxn=100):
    return tlc.make_cfg(spec='PagingSpec', constants={'PK': 8, 'MAXN': maxn, 'FORMULA': formula},
                        invariants=['PagingComplete', 'PagingAgrees', 'PagingTerminates'], constraint='EmitPaging')


def model_jobs(ctx):
    """(label, module, cfg, kwargs, expectation) -- expectation: 'hold' | ('violates', [names]) | ('violates-only', [names])"""
    th = ctx.thorough
    jobs = []
    vinv = L_INV + ['BoundedPages', 'ValueBound']
    jobs.append(('Lookup node R=%d' % (6 if th else 5), 'DhtLookup', lookup_cfg(6 if th else 5, 'node', L_INV), dict(workers=6), 'hold',
                 ['StartRun', 'ReplyContacts', 'ReplyValueError', 'ReplyError', 'Timeout', 'Close', 'Tick']))
    jobs.append(('Lookup value R=3 page cap 2', 'DhtLookup', lookup_cfg(3, 'value', vinv, pagecap=2), dict(workers=4), 'hold',
                 ['StartRun', 'ReplyValue', 'ReplyValueError', 'ReplyError', 'Timeout', 'Close', 'Tick']))
    if th:
        jobs.append(('Lookup value R=4 page cap 2', 'DhtLookup', lookup_cfg(4, 'value', vinv, pagecap=2), dict(workers=8), 'hold', []))
        jobs.append(('Lookup value R=5 page cap 1 T=1', 'DhtLookup', lookup_cfg(5, 'value', vinv, pagecap=1, maxpage=2, pagelimit=1, t=1), dict(workers=8), 'hold', []))
    # the code as found: everything but the page bound holds; the hostile pager defeats the bound (known finding 2)
    jobs.append(('Lookup value R=3 as found (no page cap)', 'DhtLookup', lookup_cfg(3, 'value', L_INV, pagecap=0, maxpage=2), dict(workers=4), 'hold', []))
    small = dict(workers=2, coverage=False)
    jobs.append(('Lookup value as found: BoundedPages', 'DhtLookup', lookup_cfg(3, 'value', ['BoundedPages'], pagecap=0), small, ('violates', ['BoundedPages']), []))
    jobs.append(('Lookup value as found: ValueBound', 'DhtLookup', lookup_cfg(2, 'value', ['ValueBound'], pagecap=0), small, ('violates', ['ValueBound']), []))
    # negative controls (mutants of the model)
    jobs.append(('control: contacted not updated', 'DhtLookup', lookup_cfg(3, 'node', ['ProbeOncePerPage'], mark=False), small, ('violates', ['ProbeOncePerPage']), []))
    jobs.append(('control: put_result without the replied filter', 'DhtLookup', lookup_cfg(3, 'node', ['NodeResultsRepliedOnly'], filt=False), small, ('violates', ['NodeResultsRepliedOnly']), []))
    jobs.append(('control: bad page not dropped', 'DhtLookup', lookup_cfg(3, 'value', ['ValueResultsWellFormed'], clearbad=False), small, ('violates', ['ValueResultsWellFormed']), []))
    for w in L_WIT:          # reachability witnesses, one run each (-continue reports one invariant per state)
        jobs.append((f'witness {w}', 'DhtLookup', lookup_cfg(3, 'node', [w]), small, ('violates', [w]), []))
    for w in ('W_Closed', 'W_Paged'):
        jobs.append((f'witness value {w}', 'DhtLookup', lookup_cfg(3, 'value', [w], pagecap=2), small, ('violates', [w]), []))
    # the network
    warm = [([1, 2, 4, 5, 7], [0])] if not th else [([1, 2, 4, 5, 7], [0, 3, 6]), ([0, 1, 3, 6, 7], [2, 5]), ([2, 3, 4, 5, 6], [0, 7]), ([1, 2, 4, 7], [0, 3, 5, 6])]
    for nodes, keys in warm:
        jobs.append((f'Store warm nodes={nodes} keys={keys}', 'DhtStore', store_cfg(nodes, keys, True, S_INV), dict(workers=6), 'hold',
                     ['Setup', 'Announce', 'Lookup', 'Reply', 'Exhausted', 'AnnounceDone', 'Tick']))
    cold = [[1, 2, 4, 7]] if not th else [[1, 2, 4, 7], [1, 2, 4, 5, 7]]
    for nodes in cold:
        jobs.append((f'Store cold (join through bootstrap) nodes={nodes}', 'DhtStore', store_cfg(nodes, [0], False, S_INV), dict(workers=4), 'hold',
                     ['Join', 'Refresh', 'Announce', 'Lookup', 'Reply', 'Exhausted']))
    jobs.append(('witness: cold start reaches a saturated network', 'DhtStore', store_cfg([1, 2, 4, 7], [0], False, ['W_Saturated']), dict(workers=2, coverage=False), ('violates', ['W_Saturated']), []))
    for w in S_WIT:
        jobs.append((f'witness {w}', 'DhtStore', store_cfg([1, 2, 4, 7], [0], True, [w]), small, ('violates', [w]), []))
    jobs.append(('control: expiry >= instead of >', 'DhtStore', store_cfg([1, 2, 4, 7], [0], True, ['NoHitAfter'], ge=True), dict(workers=4, coverage=False), ('violates', ['NoHitAfter']), []))
    return jobs


def run_models(ctx):
    """all model runs, concurrently (TLC subprocesses), while the main thread drives the real code"""
    from concurrent.futures import ThreadPoolExecutor
    pool = ThreadPoolExecutor(max_workers=5)
    futs = []
    for k, (label, module, cfg, kw, expect, cover) in enumerate(model_jobs(ctx)):
        kw = dict(kw)
        kw.setdefault('timeout', 3000)
        futs.append((label, expect, cover, pool.submit(tlc.run, module, cfg, ctx, label=f'm{k}', **kw)))
    pfut = {f: pool.submit(tlc.run, 'MCDhtPaging', paging_cfg(f), ctx, label=f'paging-{f}', workers=1, cont=True, coverage=False) for f in ('found', 'ceiling')}
    pool.shutdown(wait=False)
    return futs, pfut


def collect_models(ctx, futs, pfut):
    import re
    ok = True
    for label, expect, cover, fut in futs:
        res = fut.result()
        ctx.add_tlc(res, label)
        if expect == 'hold':
            if res.violated or res.deadlock:
                ctx.violation('model:' + (res.violated[0] if res.violated else 'deadlock'), f'{label}: model property violated', res.error_trace[:6000])
                ok = False
            elif not res.finished:
                raise MachineryError(f'{label}: TLC did not finish')
            if cover:
                tlc.require_coverage(res, cover, label)
        else:
            missing = [v for v in expect[1] if v not in res.violated]
            if missing:
                raise MachineryError(f'{label}: expected violation of {missing} not produced (got {res.violated})')
    expected = {}
    for f, fut in pfut.items():
        res = fut.result()
        ctx.add_tlc(res, f'paging arithmetic n=1..100, K=8, formula {f}')
        rows = {}
        for ln in res.printed:
            m = re.match(r'^<<"PAGING", (\d+), (\d+), (\d+), (\d+)>>', ln)
            if m:
                rows[int(m.group(1))] = {'got': int(m.group(2)), 'pages': int(m.group(3)), 'reqs': int(m.group(4))}
        if sorted(rows) != list(range(1, 101)):
            raise MachineryError(f'paging model {f}: {len(rows)} rows emitted')
        bad = sorted(n for n, r in rows.items() if r['got'] != n)
        viol = 'PagingComplete' in res.violated
        if viol != bool(bad) or any(v != 'PagingComplete' for v in res.violated):
            raise MachineryError(f'paging model {f}: violated={res.violated} but incomplete n={bad}')
        expected[f] = {'rows': rows, 'loses': bad}
    if expected['found']['loses'] != [89, 97, 98] or expected['ceiling']['loses']:
        raise MachineryError(f"paging model: unexpected loss sets {expected['found']['loses']} / {expected['ceiling']['loses']}")
    ctx.leg('A', lookup_invariants=L_INV + ['BoundedPages', 'ValueBound'], store_invariants=S_INV,
            paging={'formula as found loses announcers at n': expected['found']['loses'], 'ceiling division loses at n': expected['ceiling']['loses']},
            model_exhibits_unbounded_paging='PAGECAP=0 violates BoundedPages and ValueBound (a responsive hostile pager)',
            negative_controls=['MARK=FALSE violates ProbeOncePerPage', 'FILTER=FALSE violates NodeResultsRepliedOnly',
                               'CLEARBAD=FALSE violates ValueResultsWellFormed', 'GE=TRUE violates NoHitAfter'])
    return ok, expected


# ----------------------------------------------------------------------------------------------- Leg C orchestration

PAGERS = {'v-pager', 'v-pager-with-contacts'}


def lookup_scenarios(ctx):
    """(mode, roles, kwargs)"""
    import random
    rng = random.Random(ctx.seed * 31 + 5)
    names = sorted(hostile_catalogue(rng, [b'', b'', 0], b'', lambda: []).keys())
    out = []
    for mode in ('node', 'value'):
        for nm in names:                                  # every catalogue entry: alone, and next to an honest and a dead peer
            out.append((mode, [nm], {}))
            out.append((mode, [nm, 'honest', 'dead'], {}))
        for n in (0, 1, 2, 5, 6, 9, 14, 20):              # nothing but dead nodes
            out.append((mode, ['dead'] * n, {}))
        for n in (1, 3, 8, 12):
            out.append((mode, ['honest'] * n, {}))
        out.append((mode, ['slow', 'late', 'honest'], {}))
        out.append((mode, ['late'] * 3, {}))
        out.append((mode, ['slow'] * 3, {}))
        # every assignment of honest / dead / hostile to four peers
        import itertools
        for combo in itertools.product(['honest', 'dead', 'H'], repeat=4 if ctx.thorough else 3):
            roles = [rng.choice(names) if c == 'H' else c for c in combo]
            out.append((mode, roles, {}))
        # only part of the population in the shortlist, the rest is learnt from honest peers
        for _ in range(60 if ctx.thorough else 8):
            n = rng.randrange(4, 15)
            roles = [rng.choice(['honest', 'honest', 'dead', 'holder', 'slow', 'late'] + names) for _ in range(n)]
            roles[0] = 'honest'
            out.append((mode, roles, {'shortlist_n': rng.randrange(1, 4)}))
        # lossy networks
        for _ in range(150 if ctx.thorough else 12):
            n = rng.randrange(2, 13)
            roles = [rng.choice(['honest', 'honest', 'honest', 'dead', 'holder'] + names) for _ in range(n)]
            out.append((mode, roles, {'net': {'delay': rng.choice([0.0, 0.05, 1.0, 2.25]), 'dup': rng.choice([0.0, 0.1, 0.5]), 'loss': rng.choice([0.0, 0.1, 0.3, 0.6])},
                                      'real_honest': rng.choice([0, 0, 1, 2])}))
    # node lookup for the id of a peer of the scenario (check_result_ready's early finish)
    return out


def classify(rec, inv):
    if rec['kind'] == 'paging':
        return 'paging-incomplete-when-the-searcher-announced-too' if rec.get('self_announce') else 'find_value-page-count-loses-announcers'
    if rec['kind'] == 'lookup' and inv == 'TTerminates' and rec['mode'] == 'value' and any(r in PAGERS for r in rec['roles']):
        return 'value-lookup-follows-pages-without-bound'
    return f"{rec['kind']}-{inv}"


def run(ctx):
    import random
    futs, pfut = run_models(ctx)
    recs = []
    # ---- paging on one real storing node
    ns = list(range(1, 101))
    for n in ns:
        recs.append(paging_run(ctx, n, ctx.seed + 1, 'finder'))
        ctx.count(('paging', 'finder', n), nontrivial=n > 8)
    for n in (ns if ctx.thorough else [1, 8, 9, 16, 17, 64, 72, 88, 89, 90, 96, 97, 98, 99, 100]):
        recs.append(paging_run(ctx, n, ctx.seed + 2, 'rpc'))
        ctx.count(('paging', 'rpc', n), nontrivial=n > 8)
    for n in (range(9, 101) if ctx.thorough else [9, 10, 16, 17, 25, 40, 64, 89, 100]):
        recs.append(paging_run(ctx, n, ctx.seed + 3, 'finder', self_announce=True))
        ctx.count(('paging', 'finder-self', n), nontrivial=True)
    ctx.leg('C-paging', runs=len(recs))
    # ---- lookups against dead / hostile peers
    rng = random.Random(ctx.seed * 17 + 3)
    scen = lookup_scenarios(ctx)
    for mode, roles, kw in scen:
        recs.append(lookup_run(rng, mode, roles, **kw))
        ctx.count(('lookup', mode, tuple(roles), repr(sorted(kw.items()))), nontrivial=len(roles) > 0)
    ctx.leg('C-lookup', runs=len(scen))
    # ---- honest networks
    nets = [(2, True, 1, None), (5, True, 3, None), (12, True, 6, None)] if not ctx.thorough else \
        [(2, True, 1, None), (3, True, 2, None), (5, True, 3, None), (8, True, 5, None), (12, True, 8, None), (20, False, 12, None), (40, True, 20, 12), (40, False, 30, None)]
    infos = []
    for k, (n, cross, multi, sample) in enumerate(nets):
        infos.append(network_run(ctx, n, ctx.seed + k, recs, cross_day=cross, multi=multi, sample=sample))
    ctx.leg('C-network', networks=infos)
    # ---- judgement
    ok, expected = collect_models(ctx, futs, pfut)
    c = tlc.make_cfg(spec='TSpec', invariants=TINVS, constraint='Reached', postcondition='Report')
    verdicts = tlc.validate_traces('DhtTrace', c, recs, ctx, label='DhtTrace', chunk=400, timeout=1800, deque=False)
    for v in verdicts:
        if v['invariant']:
            rec = recs[v['tid']]
            small = {k2: v2 for k2, v2 in rec.items() if k2 != 'yielded'}
            small['n_yielded'] = len(rec.get('yielded', []))
            ctx.violation(classify(rec, v['invariant']), f"clause {v['invariant']} violated by a real run: {small}", rec)
    ctx.cov['traces_validated_against_impl'] += len(recs)
    # ---- spec drift (NOTE only): the paging numbers of the real node against the two transcribed formulas
    variant = {f: all(r['returned'] == expected[f]['rows'][r['n']]['got'] and r['pages_claimed'] == expected[f]['rows'][r['n']]['pages']
                      and r['requests'] == expected[f]['rows'][r['n']]['reqs']
                      for r in recs if r['kind'] == 'paging' and r['finished'] and not r.get('self_announce')) for f in ('found', 'ceiling')}
    if not any(variant.values()):
        print('NOTE: spec drift: the page counts / returned announcers of the real node match neither transcribed formula', flush=True)
    ctx.leg('C-paging', real_code_matches_formula=[f for f, v in variant.items() if v])
    for r in [x for x in recs if x['kind'] == 'paging'][88:90] + [x for x in recs if x['kind'] == 'lookup'][5:7] + [x for x in recs if x['kind'] == 'hit'][:2]:
        ctx.sample({k2: (v2 if k2 != 'yielded' else v2[:3]) for k2, v2 in r.items()})
    ctx.cov['rule'] = ('Leg A: all states of DhtLookup.tla (node and value lookups, every reply kind at every probe), of DhtStore.tla for every '
                       'saturated table assignment of the listed node-id sets plus the cold join, and the page arithmetic for every n <= 100. '
                       'Leg C: one record per real experiment -- paging n = 1..100 on one real node through real datagrams and the real finder; '
                       'every entry of the hostile catalogue alone and next to honest/dead peers, all honest/dead/hostile assignments, dead-only '
                       'populations, lossy networks; real networks of 2..40 nodes with announcements at random and at exact instants and value '
                       'lookups from every other node fresh, 30 s before, 1/1024 s before, exactly at and 400 s after 24 h; an announcer that '
                       'announces again after 12 h (findable 24 h after the first announcement, not 24 h after the second); paging by a '
                       'searcher that is itself among the announcers. '
                       'Distinct = distinct (experiment kind, parameters).')
    ctx.assumptions += ['UDP is replaced by a driver-controlled in-process datagram network; a real node reads one datagram per loop iteration as a selector transport does',
                        'time is virtual (DetLoop): rpc_timeout 5 s, 24 h and the 300 s ping delay are exact; the hit guarantee is judged after a warm-up of 4000 virtual seconds with network delays <= 0.2 s',
                        f'a value lookup that sent more than {PAGER_PROBE_BUDGET} findValue requests to one peer without finishing is judged as not terminating',
                        'peer identity in results: (node id, IPv4 address, tcp port) of the announcer',
                        'every probe-level nondeterministic reply of DhtLookup.tla subsumes "every subset of nodes dead or hostile"; K=2, ALPHA=2 in the models, K=8, ALPHA=5 in the code']
