"""C17 -- DHT wire codec: lossless for protocol messages, total on garbage (DESIGN C17).

Leg A/B codec:   specs/Bencode.tla enumerates the protocol message shapes, checks decode(encode(v)) = v with the
                 reference decoder written from the grammar, and emits the expected bytes; the real bencode(),
                 *Datagram.bencode(), decode_datagram(), bdecode(), make/decode_compact_address must agree, and a
                 Python transcription of the reference decoder must read the real bytes identically.
Leg A/B ingress: specs/DhtIngress.tla generates the input datagrams structurally (truncations, 1..3 edits by class,
                 type confusion, missing entries, nesting, tiny strings), classifies each with the reference decoder +
                 typing rules and computes the node state the handler must leave; every case is rendered and fed to
                 a real KademliaProtocol.datagram_received on a freshly built node under a watchdog.
Random:          seeded random byte strings and random byte-level edits of the valid datagrams, classified by the
                 transcribed reference decoder (which is cross-checked against TLC on every emitted case).
"""
import hashlib
import json
import time

from . import tlc
from .common import MachineryError, watchdog, Hang

MAXNEST = 100
B_INVS = ['RoundTrip', 'MsgTyped', 'ReEncode', 'CompactRoundTrip', 'CompactRefused']
I_INVS = ['Total', 'GarbageDropped', 'FailureRecorded', 'StillServing',
          'BaseWellFormed', 'TruncIsGarbage', 'DeepIsGarbage', 'ShallowNestAccepted', 'NegLenIsGarbage',
          'OpaqueEditWellFormed', 'ConfEnvelopeIsGarbage', 'MissEnvelopeIsGarbage', 'BigEnvelopeIsGarbage',
          'SpeltNumberIsGarbage', 'StrictCanonical']
I_WITNESSES = ['NoNegLen', 'NoDeep', 'NoResolved', 'NoStored', 'NoLenient', 'NoWellFormed', 'NoGarbage']

# opaque payload tags, as in Bencode.tla
T_RPC, T_NODE, T_KEY, T_TOKEN, T_PENDING, T_SELF, T_KNOWN, T_TEXT, T_BLOB0, T_PROBE = range(10)
T_BIG = 40
SENDER = ('1.2.3.4', 4444)
HANG_CAP = 6          # stop feeding after this many hangs (each costs a watchdog period)
WATCHDOG_S = 8.0      # generous: a real hang never returns; a loaded machine must not look like one

STRUCTURAL = set(b'0123456789-:ilde')
SAFE = bytes(b for b in range(256) if b not in STRUCTURAL)
SAFE_TEXT = bytes(b for b in b'ABCFGHJKMNOPQRSTUVWXYZ abcfghjkmnopqrstuvwxyz.,!()' if b not in STRUCTURAL)
FREE = bytes(range(256))
FREE_TEXT = bytes(range(32, 127))


_PER_KEY = {}


def _violation(ctx, key, what, replay_obj=None):
    """ctx.violation, but replay files and VIOLATION lines only for the first two inputs of every key, so that the
    20 replay files of a failing run cover the distinct failure classes; every further input is still counted"""
    _PER_KEY[key] = _PER_KEY.get(key, 0) + 1
    if _PER_KEY[key] <= 2 or any(f['key'] == key for f in ctx.known):
        return ctx.violation(key, what, replay_obj)
    ctx.violations.append({'key': key, 'what': what})
    return True


# ------------------------------------------------------------------ rendering opaque runs

class Renderer:
    """opaque run Op(tag, n) -> the first n bytes of a deterministic stream per tag.
    safe=True: payload bytes avoid the bencode structural characters, which is what lets the specification treat
    an opaque byte at a token start as 'not a token' (DhtIngress); safe=False: any byte value (codec leg)."""

    def __init__(self, seed, safe):
        self.seed, self.safe = seed, safe
        self._cache = {}

    def _alphabet(self, tag):
        base = tag
        while base >= 512:
            base -= 256
        if 50 <= base < 100:
            base -= 50
        if base in (T_TEXT, T_BIG):
            return SAFE_TEXT if self.safe else FREE_TEXT
        return SAFE if self.safe else FREE

    def stream(self, tag, n):
        key = (tag, n)
        if key in self._cache:
            return self._cache[key]
        if 50 <= tag < 100 or tag >= 512:      # the same payload with one byte changed
            src = tag - 50 if tag < 100 else tag - 256
            b = bytearray(self.stream(src, n))
            alpha = self._alphabet(tag)
            i = 1 if n > 1 else 0
            b[i] = alpha[(alpha.index(b[i]) + 1) % len(alpha)]
            out = bytes(b)
        elif not self.safe and tag == T_TEXT:   # arbitrary text: exactly n bytes of UTF-8 with 1..4 byte characters
            units = ['é', 'A', '€', ' ', 'ж', 'z', '\U0001f600', '7', 'e', ':']
            raw = hashlib.sha512(f'{self.seed}:{tag}:text'.encode()).digest() * (n // 64 + 1)
            b = bytearray()
            for x in raw:
                if len(b) >= n:
                    break
                u = units[x % len(units)].encode()
                b += u if len(b) + len(u) <= n else b'.'
            out = bytes(b)
        else:
            alpha = self._alphabet(tag)
            raw = b''
            i = 0
            while len(raw) < n:
                raw += hashlib.sha512(f'{self.seed}:{tag}:{i}'.encode()).digest()
                i += 1
            b = bytearray(alpha[x % len(alpha)] for x in raw[:n])
            if tag >= 256 and n:
                b[0] = tag % 256
            out = bytes(b)
        self._cache[key] = out
        return out

    def render(self, codes):
        out = bytearray()
        for c in codes:
            if c >= 1000:
                out += self.stream(c // 1000 - 1, c % 1000)
            else:
                out.append(c)
        return bytes(out)

    def tree(self, t):
        """TLC tree (json) -> reference tree with rendered byte strings"""
        k = t['t']
        if k == 'i':
            return ('i', t['v'])
        if k == 's':
            return ('s', self.render(t['v']))
        if k == 'l':
            return ('l', [self.tree(x) for x in t['v']])
        if k == 'd':
            return ('d', [(self.tree(p[0]), self.tree(p[1])) for p in t['v']])
        raise MachineryError(f'unexpected tree node {k}')


def to_py(t):
    """reference tree -> plain python value (dict for 'd')"""
    k, v = t
    if k in ('i', 's'):
        return v
    if k == 'l':
        return [to_py(x) for x in v]
    return {to_py(a): to_py(b) for a, b in v}


# ------------------------------------------------------------------ transcription of Bencode.tla's reference decoder

class RefFail(Exception):
    pass


def _scan(data, p):
    n = len(data)
    while p < n and 48 <= data[p] <= 57:
        p += 1
    return p


def _key_less(a, b):
    if a[0] == 'i' and b[0] == 'i':
        return a[1] < b[1]
    if a[0] == 's' and b[0] == 's':
        return a[1] < b[1]
    return a[0] == 'i' and b[0] == 's'


def _sorted_unique(pairs):
    return all(p[0][0] == pairs[0][0][0] for p in pairs) and \
        all(_key_less(pairs[i][0], pairs[i + 1][0]) for i in range(len(pairs) - 1))


def _dec(data, p, depth, st):
    n = len(data)
    if p >= n:
        raise RefFail('truncated')
    if depth > MAXNEST:
        raise RefFail('deep')
    c = data[p]
    if c == 105:                                     # int ::= "i" ["-"] digit+ "e"
        neg = p + 1 < n and data[p + 1] == 45
        q = p + 2 if neg else p + 1
        e = _scan(data, q)
        nd = e - q
        if nd == 0:
            raise RefFail('truncated' if q >= n else 'badint')
        if e >= n:
            raise RefFail('truncated')
        if data[e] != 101:
            raise RefFail('badint')
        zero = all(x == 48 for x in data[q:e]) if nd > 4000 else int(data[q:e]) == 0
        val = None if nd > 4000 else (-int(data[q:e]) if neg else int(data[q:e]))
        if (nd > 1 and data[q] == 48) or (neg and zero):
            st[0] = False
        return ('i', val), e + 1
    if c == 108:                                     # list ::= "l" value* "e"
        items = []
        p += 1
        while True:
            if p >= n:
                raise RefFail('truncated')
            if data[p] == 101:
                return ('l', items), p + 1
            v, p = _dec(data, p, depth + 1, st)
            items.append(v)
    if c == 100:                                     # dict ::= "d" (key value)* "e"
        pairs = []
        p += 1
        while True:
            if p >= n:
                raise RefFail('truncated')
            if data[p] == 101:
                if not _sorted_unique(pairs):
                    st[0] = False
                return ('d', pairs), p + 1
            k, p = _dec(data, p, depth + 1, st)
            if k[0] not in ('i', 's'):
                raise RefFail('badkey')
            v, p = _dec(data, p, depth + 1, st)
            pairs.append((k, v))
    if 48 <= c <= 57:                                # str ::= digit+ ":" byte{n}
        e = _scan(data, p)
        if e >= n:
            raise RefFail('truncated')
        if data[e] != 58:
            raise RefFail('badlen')
        if e - p > 9:
            raise RefFail('truncated')
        ln = int(data[p:e])
        end = e + 1 + ln
        if end > n:
            raise RefFail('truncated')
        if e - p > 1 and data[p] == 48:
            st[0] = False
        return ('s', bytes(data[e + 1:end])), end
    raise RefFail('badtoken')


def ref_decode_all(data):
    """-> dict(ok, v, nx, strict, why) exactly as DecodeAll in Bencode.tla (positions 0-based here)"""
    if len(data) == 0:
        return dict(ok=False, v=None, nx=0, strict=True, why='empty')
    st = [True]
    try:
        v, nx = _dec(data, 0, 0, st)
    except RefFail as e:
        return dict(ok=False, v=None, nx=0, strict=True, why=str(e))
    if nx < len(data):
        return dict(ok=True, v=v, nx=nx, strict=False, why='trailing')
    return dict(ok=True, v=v, nx=nx, strict=st[0], why='')


def _field_name(k):
    return str(k[1]).encode() if k[0] == 'i' else k[1]


def _fields(x):
    return [(_field_name(k), v) for k, v in x[1]]


METHODS = (b'ping', b'store', b'findNode', b'findValue')


def ref_typed(x):
    if x[0] != 'd':
        return False
    f = dict(_fields(x))

    def is_str(v, n):
        return v[0] == 's' and len(v[1]) == n
    if not (b'0' in f and f[b'0'][0] == 'i' and f[b'0'][1] in (0, 1, 2)):
        return False
    if not (b'1' in f and is_str(f[b'1'], 20) and b'2' in f and is_str(f[b'2'], 48) and b'3' in f):
        return False
    ty = f[b'0'][1]
    if ty == 0:
        return f[b'3'][0] == 's' and f[b'3'][1] in METHODS and (b'4' not in f or f[b'4'][0] == 'l')
    if ty == 1:
        return True
    return f[b'3'][0] == 's' and b'4' in f and f[b'4'][0] == 's'


def ref_class(r):
    if not r['ok']:
        return 'garbage'
    x = r['v']
    if x[0] == 'd':
        names = [n for n, _ in _fields(x)]
        if len(names) != len(set(names)):
            return 'lenient'
    if not ref_typed(x):
        return 'garbage'
    return 'wellformed' if r['strict'] else 'lenient'


def _reason(r):
    """why the reference decoder + typing rules do not see a well-formed message"""
    return r['why'] if not r['ok'] else 'untyped'


def ref_encode(t):
    """canonical encoder over reference trees (used only for the law decode-then-encode on strict input)"""
    k, v = t
    if k == 'i':
        return b'i%de' % v
    if k == 's':
        return b'%d:%s' % (len(v), v)
    if k == 'l':
        return b'l' + b''.join(ref_encode(x) for x in v) + b'e'
    return b'd' + b''.join(ref_encode(a) + ref_encode(b) for a, b in v) + b'e'


# ------------------------------------------------------------------ the node under test

class Node:
    """a real KademliaProtocol on a DetLoop with a fake datagram transport, in the initial state of DhtIngress.tla:
    one known peer in the routing table, one stored announcement, one findNode request outstanding to the sender,
    the sender having replied recently."""

    def __init__(self, R):
        from .detloop import DetLoop, FakeDatagramTransport
        from lbry.dht.protocol.protocol import KademliaProtocol
        from lbry.dht.peer import PeerManager, make_kademlia_peer
        from lbry.dht.serialization.datagram import RequestDatagram
        make_kademlia_peer.cache_clear()
        self.R = R
        self.ids = {t: R.stream(t, 48) for t in (T_NODE, T_SELF, T_KNOWN, T_BLOB0, T_KEY, MUT(T_NODE), MUT(T_KEY))}
        self.rpcs = {R.stream(t, 20): t for t in (T_RPC, T_PENDING, T_PROBE, MUT(T_RPC), MUT(T_PENDING))}
        self.idtags = {v: k for k, v in self.ids.items()}
        loop = self.loop = DetLoop()
        loop._now = 100000.0
        with loop:
            self.pm = PeerManager(loop)
            self.proto = KademliaProtocol(loop, self.pm, self.ids[T_SELF], '1.2.3.5', 4444, 3333)
            self.tr = FakeDatagramTransport(loop, ('1.2.3.5', 4444), None)
            self.proto.connection_made(self.tr)
            self.proto.start()
            known = make_kademlia_peer(self.ids[T_KNOWN], '1.2.3.9', 4444, 3333)
            self.pm.report_last_replied('1.2.3.9', 4444)
            self.proto.add_peer(known)
        self.settle()
        self.proto.data_store.add_peer_to_blob(known, self.ids[T_BLOB0])
        self.pm.report_last_replied(*SENDER)
        with loop:
            sender = make_kademlia_peer(self.ids[T_NODE], SENDER[0], SENDER[1])
            req = RequestDatagram.make_find_node(self.ids[T_SELF], self.ids[T_KEY], rpc_id=R.stream(T_PENDING, 20))
            self.task = loop.create_task(self.proto.send_request(sender, req))
        self.settle(0.01)
        if len(self.tr.sent) != 1 or self.task.done():
            raise MachineryError('node set-up: the outstanding request was not sent')
        self.failure_calls = []
        orig = self.pm.report_failure

        def report_failure(address, udp_port):       # observed through the public method the protocol calls
            self.failure_calls.append((address, udp_port))
            return orig(address, udp_port)
        self.pm.report_failure = report_failure
        self.mark = len(self.tr.sent)
        if self.routing() != {self.ids[T_KNOWN]} or self.store() != {(self.ids[T_BLOB0], self.ids[T_KNOWN])}:
            raise MachineryError('node set-up: unexpected initial routing table / data store')

    def settle(self, dt=0.35):
        self.loop.drain(until=self.loop.time() + dt, limit=20000)

    def routing(self):
        return {p.node_id for p in self.proto.routing_table.get_peers()}

    def store(self):
        ds = self.proto.data_store
        return {(k, p.node_id) for k in list(ds.keys()) for p in ds.get_peers_for_blob(k)}

    def pend(self):
        if not self.task.done():
            return 'waiting'
        if self.task.cancelled() or self.task.exception() is not None:
            return 'failed'
        return 'resolved'

    def feed(self, data):
        """-> None if the handler returned, else the exception (Hang included)"""
        try:
            with watchdog(WATCHDOG_S + len(data) / 8192):      # 64 KiB decode in ~50 ms; a hang never returns
                with self.loop:
                    self.proto.datagram_received(data, SENDER)
        except BaseException as e:  # pylint: disable=broad-except
            if isinstance(e, (KeyboardInterrupt, SystemExit)):
                raise
            return e
        return None

    def sent_since_mark(self):
        """[(kind, rpc tag or -1, destination)] decoded with the REFERENCE decoder"""
        out = []
        for data, addr in self.tr.sent[self.mark:]:
            r = ref_decode_all(data)
            kind, rpc = 'undecodable', -1
            if r['ok'] and r['v'][0] == 'd':
                f = dict(_fields(r['v']))
                ty = f.get(b'0', ('i', -1))[1]
                kind = {0: 'request', 1: 'response', 2: 'error'}.get(ty, 'unknown')
                rid = f.get(b'1', ('s', b''))[1]
                rpc = self.rpcs.get(rid, -1) if isinstance(rid, bytes) else -1
            out.append((kind, rpc, addr))
        return out

    def probe(self):
        rpc, node = self.R.stream(T_PROBE, 20), self.ids[T_NODE]
        data = b'di0ei0ei1e20:' + rpc + b'i2e48:' + node + b'i3e4:pingi4eld15:protocolVersioni1eeee'
        before = len(self.tr.sent)
        exc = self.feed(data)
        if exc is not None:
            return f'probe ping raised {type(exc).__name__}'
        self.mark = before
        got = self.sent_since_mark()
        if ('response', T_PROBE, SENDER) not in got:
            return f'probe ping not answered (sent: {got})'
        return None

    def close(self):
        try:
            self.proto.stop()
            if not self.task.done():
                self.task.cancel()
            self.loop.drain(timers=False, limit=1000)
            if self.task.done() and not self.task.cancelled():
                self.task.exception()
        except Exception:  # pylint: disable=broad-except
            pass


def MUT(tag):
    return tag + 50 if tag < 256 else tag + 256


# ------------------------------------------------------------------ judging one input

class Judge:
    def __init__(self, ctx, R):
        self.ctx, self.R = ctx, R
        self.hangs = 0
        self.skipped_after_hang_cap = 0
        self.drift = 0
        self.drift_samples = []
        self.fed = 0
        self.by_class = {}

    def escape_key(self, exc, data):
        if isinstance(exc, Hang):
            import re
            return 'hang:negative-string-length' if re.search(rb'-\d+:', data) else 'hang:other'
        name = type(exc).__name__
        if name == 'ValueError' and 'cannot send datagram larger' in str(exc):
            return 'escape:ValueError:error-reply-too-large'
        return f'escape:{name}'

    def port_case(self, data, port):
        """a store request that is well-formed bencode but names a TCP port no peer can have: it must not become an announcement"""
        ctx = self.ctx
        node = Node(self.R)
        replay = {'hex': data.hex(), 'len': len(data), 'cls': 'garbage', 'origin': 'portrange:store', 'note': f'port {port}'}
        s0 = node.store()
        exc = node.feed(data)
        ctx.count(('portrange', port), nontrivial=True)
        if exc is not None:
            _violation(ctx, self.escape_key(exc, data), f'datagram_received(store with port {port}) did not return: {type(exc).__name__}', replay)
            return
        try:
            node.settle()
        except Exception as e:  # pylint: disable=broad-except
            raise MachineryError(f'settling the loop after a store with port {port} failed: {e!r}')
        if node.store() != s0:
            _violation(ctx, 'garbage-accepted:store-with-port-out-of-range', f'a store request naming tcp port {port} was recorded as an announcement', replay)

    def one(self, data, cls, origin, judge='full', exp=None, note=None):
        """feed `data` (class `cls` by the specification) to a fresh node and judge the outcome"""
        ctx = self.ctx
        if self.hangs >= HANG_CAP:
            self.skipped_after_hang_cap += 1
            return
        self.fed += 1
        self.by_class[cls] = self.by_class.get(cls, 0) + 1
        node = Node(self.R)
        replay = {'hex': data.hex(), 'len': len(data), 'cls': cls,
                  'origin': origin, 'note': note}
        try:
            r0, s0 = node.routing(), node.store()
            exc = node.feed(data)
            ctx.count((origin, hashlib.sha1(data).hexdigest()), nontrivial=len(data) > 1)
            if exc is not None:
                if isinstance(exc, Hang):
                    self.hangs += 1
                _violation(ctx, self.escape_key(exc, data),
                              f'datagram_received({_short(data)}) [{cls}, {origin}] did not return: {type(exc).__name__}: {str(exc)[:120]}',
                              replay)
                return
            try:
                node.settle()
            except Exception as e:  # pylint: disable=broad-except
                raise MachineryError(f'settling the loop after {origin} failed: {e!r}')
            r1, s1, fails, sent, pend = node.routing(), node.store(), len([a for a in node.failure_calls if a == SENDER]), \
                node.sent_since_mark(), node.pend()
            fam = origin.split(':')[0]
            if cls == 'garbage':
                what = []
                if r1 != r0:
                    what.append('routing table changed')
                if s1 != s0:
                    what.append('data store changed')
                if pend != 'waiting':
                    what.append(f'the outstanding request was {pend}')
                bad = [s for s in sent if s[0] != 'error' or s[2] != SENDER]
                if bad:
                    what.append(f'replied with {[b[0] for b in bad]}')
                if what:
                    _violation(ctx, f'garbage-accepted:{fam}:{note}',
                                  f'{_short(data)} is not a well-formed message ({note}) but: ' + ', '.join(what), replay)
                elif fails < 1:
                    _violation(ctx, f'garbage-no-failure-recorded:{fam}:{note}',
                                  f'{_short(data)} ({note}) was dropped without recording a failure against the sender', replay)
            elif exp is not None:
                got = {'routing': sorted(node.idtags.get(x, -1) for x in r1),
                       'store': sorted([node.idtags.get(a, -1), node.idtags.get(b, -1)] for a, b in s1),
                       'fails': fails, 'sent': [{'ty': k, 'rpc': t} for k, t, _ in sent], 'pend': pend}
                want = {'routing': sorted(exp['routing']), 'store': sorted(exp['store']), 'fails': exp['fails'],
                        'sent': [{'ty': s['ty'], 'rpc': s['rpc']} for s in exp['sent']], 'pend': exp['pend']}
                if got != want:
                    if judge == 'full':
                        _violation(ctx, f'wellformed-mishandled:{origin.split(":")[1] if ":" in origin else fam}',
                                      f'{_short(data)} is a well-formed message; node state {got}, specified {want}', replay)
                    else:
                        self.drift += 1
                        if len(self.drift_samples) < 5:
                            self.drift_samples.append({'input': _short(data), 'origin': origin, 'node_state': got, 'model': want})
            if cls in ('garbage', 'wellformed'):
                why = node.probe()
                if why:
                    _violation(ctx, f'node-stops-serving-after:{cls}', f'after {_short(data)}: {why}', replay)
        finally:
            node.close()


def _short(data):
    return repr(data if len(data) <= 60 else data[:48] + b'...' + data[-8:]) + (f' ({len(data)} bytes)' if len(data) > 60 else '')


# ------------------------------------------------------------------ decode agreement on well-formed input

def strip_pv(args):
    """arguments modulo the protocolVersion entry RequestDatagram maintains in a trailing dict"""
    args = list(args)
    if args and isinstance(args[-1], dict):
        kw = {k: v for k, v in args[-1].items() if k != b'protocolVersion'}
        args = args[:-1] + ([kw] if kw else [])
    return args


def same_message(msg, tree):
    """does the object decode_datagram returned carry the fields of the reference tree?"""
    f = {n: to_py(v) for n, v in _fields(tree)}
    ty = f[b'0']
    if msg.packet_type != ty or msg.rpc_id != f[b'1'] or msg.node_id != f[b'2']:
        return False
    if ty == 0:
        return msg.method == f[b'3'] and strip_pv(msg.args) == strip_pv(f.get(b'4', []))
    if ty == 1:
        return msg.response == f[b'3']
    return msg.exception_type == f[b'3'].decode() and msg.response == f[b'4'].decode()


def _is_text(b):
    try:
        b.decode()
        return True
    except UnicodeDecodeError:
        return False


def check_decode(ctx, data, tree, origin):
    from lbry.dht.serialization.datagram import decode_datagram
    f = dict(_fields(tree))
    if f[b'0'][1] == 2 and not (_is_text(f[b'3'][1]) and _is_text(f[b'4'][1])):
        return      # an error datagram whose fields are not UTF-8 carries no "text": outside the round-trip claim
    try:
        with watchdog(WATCHDOG_S):
            msg = decode_datagram(data)
    except BaseException as e:  # pylint: disable=broad-except
        if isinstance(e, (KeyboardInterrupt, SystemExit)):
            raise
        _violation(ctx, f'wellformed-not-decoded:{origin.split(":")[0]}',
                      f'decode_datagram({_short(data)}) raised {type(e).__name__}: {str(e)[:100]} on a well-formed message',
                      {'hex': data.hex(), 'origin': origin})
        return
    if not same_message(msg, tree):
        _violation(ctx, f'decoded-differently:{origin.split(":")[0]}',
                      f'decode_datagram({_short(data)}) = {vars(msg)!r:.300}, the reference decoder reads {to_py(tree)!r:.300}',
                      {'hex': data.hex(), 'origin': origin})


# ------------------------------------------------------------------ leg: codec

def leg_codec(ctx):
    from lbry.dht.serialization.bencoding import bencode, bdecode
    from lbry.dht.serialization.datagram import (RequestDatagram, ResponseDatagram, ErrorDatagram, decode_datagram,
                                                 make_compact_address, decode_compact_address)
    consts = {'MAXNEST': MAXNEST, 'FULL': ctx.thorough, 'EMIT': True}
    cfg = tlc.make_cfg(spec='BSpec', constants=consts, invariants=B_INVS, constraint='BEmit')
    res = tlc.run('Bencode', cfg, ctx, workers=1, coverage=False, timeout=1500, label='Bencode-emit')
    ctx.add_tlc(res, f'Bencode: all message shapes {consts}; laws {B_INVS}; emission')
    if res.violated:
        _violation(ctx, 'model:' + ','.join(res.violated), 'codec law violated in the specification', res.error_trace[:4000])
        return []
    cases = tlc.printed_json(res, 'CASE')
    if len(cases) != res.distinct:
        raise MachineryError(f'Bencode: emitted {len(cases)} cases, TLC found {res.distinct} states')
    R = Renderer(ctx.seed, safe=False)
    names = {}
    nmsg = ncompact = 0

    def call(fn, *a):
        try:
            with watchdog(WATCHDOG_S):
                return fn(*a), None
        except BaseException as e:  # pylint: disable=broad-except
            if isinstance(e, (KeyboardInterrupt, SystemExit)):
                raise
            return None, e

    for c in cases:
        if c['k'] == 'compact':
            ncompact += 1
            ip = '.'.join(str(x) for x in c['ip'])
            nid = R.stream(c['idtag'], c['idlen'])
            ctx.count(('compact', ip, c['port'], c['idlen']))
            got, exc = call(make_compact_address, nid, ip, c['port'])
            rep = {'call': 'make_compact_address', 'ip': ip, 'port': c['port'], 'idlen': c['idlen']}
            if c['ok']:
                want = R.render(c['bytes'])
                if exc is not None or bytes(got) != want:
                    _violation(ctx, 'compact-encode', f'make_compact_address({ip}, {c["port"]}) = {got!r} / {exc!r}, specified {want!r}', rep)
                    continue
                back, exc = call(decode_compact_address, want)
                if exc is not None or (bytes(back[0]), back[1], back[2]) != (nid, ip, c['port']):
                    _violation(ctx, 'compact-decode', f'decode_compact_address({want!r}) = {back!r} / {exc!r}', rep)
            else:
                if exc is None:
                    _violation(ctx, 'compact-encode-accepts-invalid', f'make_compact_address({ip}, {c["port"]}, id of {c["idlen"]} bytes) returned {got!r}', rep)
                elif not isinstance(exc, ValueError):
                    _violation(ctx, f'compact-encode-raises:{type(exc).__name__}', f'make_compact_address({ip}, {c["port"]}) raised {exc!r}', rep)
                if c['bytes']:
                    raw = R.render(c['bytes'])
                    back, exc = call(decode_compact_address, raw)
                    if exc is None:
                        _violation(ctx, 'compact-decode-accepts-invalid', f'decode_compact_address({raw!r}) returned {back!r}', rep)
                    elif not isinstance(exc, ValueError):
                        _violation(ctx, f'compact-decode-raises:{type(exc).__name__}', f'decode_compact_address({raw!r}) raised {exc!r}', rep)
            continue
        # ---- a protocol message
        nmsg += 1
        name = c['name']
        names[name] = names.get(name, 0) + 1
        want = R.render(c['bytes'])
        tree = R.tree(c['tree'])
        obj = to_py(tree)
        ctx.count(('msg', name, hashlib.sha1(want).hexdigest()))
        rep = {'name': name, 'expected_hex': want.hex()}
        # 1. the real encoder
        got, exc = call(bencode, _copy(obj))
        if exc is not None or got != want:
            _violation(ctx, f'encode-differs:{name}', f'bencode({obj!r:.120}): {_diff(got, want, exc)}', rep)
            continue
        # 2. the datagram classes
        f = obj
        built = []
        if f[0] == 0:
            built.append(('RequestDatagram', lambda: RequestDatagram(0, f[1], f[2], f[3], _copy(f[4])).bencode()))
            a = f[4]
            if name == 'ping':
                built.append(('make_ping', lambda: RequestDatagram.make_ping(f[2], f[1]).bencode()))
            elif name == 'store':
                built.append(('make_store', lambda: RequestDatagram.make_store(f[2], a[0], a[1], a[2], f[1]).bencode()))
            elif name == 'findNode':
                built.append(('make_find_node', lambda: RequestDatagram.make_find_node(f[2], a[0], f[1]).bencode()))
            elif name == 'findValue':
                built.append(('make_find_value', lambda: RequestDatagram.make_find_value(f[2], a[0], f[1], a[1][b'p']).bencode()))
        elif f[0] == 1:
            built.append(('ResponseDatagram', lambda: ResponseDatagram(1, f[1], f[2], _copy(f[3])).bencode()))
            if name in ('nodes', 'value'):      # the way the server builds it: tuples and str addresses
                built.append(('ResponseDatagram(server style)', lambda: ResponseDatagram(1, f[1], f[2], _server_style(f[3])).bencode()))
        else:
            built.append(('ErrorDatagram', lambda: ErrorDatagram(2, f[1], f[2], f[3], f[4]).bencode()))
        bad = False
        for label, fn in built:
            got, exc = call(fn)
            ctx.count()
            if exc is not None or got != want:
                _violation(ctx, f'datagram-encode-differs:{name}', f'{label}: {_diff(got, want, exc)}', rep)
                bad = True
        if bad:
            continue
        # 3. the real decoders give the message back
        check_decode(ctx, want, tree, f'msg:{name}')
        got, exc = call(bdecode, want)
        if exc is not None or got != obj:
            _violation(ctx, f'bdecode-differs:{name}', f'bdecode gives {got!r:.200} / {exc!r}; encoded value was {obj!r:.200}', rep)
        # 4. the independent reference decoder reads the REAL bytes identically
        r = ref_decode_all(want)
        if not (r['ok'] and r['strict'] and r['v'] == tree and r['nx'] == len(want)) or ref_class(r) != 'wellformed' \
                or ref_encode(r['v']) != want:
            raise MachineryError(f'transcribed reference decoder disagrees with Bencode.tla on {name}: {r!r:.300}')
        if names[name] == 1:
            ctx.sample({'message': name, 'bytes': len(want), 'real_bencode_equals_spec': True,
                        'decode_datagram_gives_it_back': True, 'tail': want[-32:].hex()}, cap=9)
    need = {'ping', 'store', 'findNode', 'findValue', 'pong', 'stored', 'nodes', 'value', 'error'}
    if set(names) != need or names['nodes'] != 17:
        raise MachineryError(f'Bencode: message shapes missing: {names}')
    ctx.leg('codec', message_shapes=nmsg, by_kind=names, compact_cases=ncompact, constants=consts, laws=B_INVS)
    return cases


def _diff(got, want, exc):
    if exc is not None:
        return f'raised {exc!r}'
    if not isinstance(got, (bytes, bytearray)):
        return f'returned {got!r:.100}'
    i = next((k for k in range(min(len(got), len(want))) if got[k] != want[k]), min(len(got), len(want)))
    return (f'{len(got)} bytes, specified {len(want)}; first difference at byte {i}: '
            f'real ...{bytes(got[max(0, i - 12):i + 20])!r}, specified ...{want[max(0, i - 12):i + 20]!r}')


def _copy(x):
    """deep copy; dicts are rebuilt in REVERSE key order so that the real encoder has to do the sorting"""
    if isinstance(x, dict):
        return {k: _copy(v) for k, v in reversed(list(x.items()))}
    if isinstance(x, list):
        return [_copy(v) for v in x]
    return x


def _server_style(x):
    """contact triples as KademliaRPC.find_node returns them: tuples with a str address"""
    if isinstance(x, dict):
        return {k: (_server_style(v) if k == b'contacts' else _copy(v)) for k, v in reversed(list(x.items()))}
    return [(t[0], t[1].decode(), t[2]) for t in x]


# ------------------------------------------------------------------ leg: ingress

def leg_ingress(ctx, judge):
    consts = {'MAXNEST': MAXNEST, 'FULL': False, 'EMIT': True, 'DEPTHS': {1, 10, 1000, 5000},
              'W2': 400 if ctx.thorough else 4, 'W3': 6 if ctx.thorough else 2, 'TINYLEN': 5 if ctx.thorough else 4}
    cfg = tlc.make_cfg(spec='ISpec', constants=consts, invariants=I_INVS, constraint='IEmit')
    res = tlc.run('DhtIngress', cfg, ctx, workers=1, coverage=False, timeout=3000, label='DhtIngress-emit')
    ctx.add_tlc(res, f'DhtIngress: all structurally generated inputs {_j(consts)}; invariants {I_INVS}; emission')
    if res.violated:
        _violation(ctx, 'model:' + ','.join(res.violated), 'invariant violated in the specification', res.error_trace[:4000])
        return None
    cases = tlc.printed_json(res, 'CASE')
    # one state before Receive, one after it (emitted), one after Probe: both actions were taken for every case
    if len(cases) * 3 != res.distinct:
        raise MachineryError(f'DhtIngress: emitted {len(cases)} cases, TLC found {res.distinct} states (3 per case expected)')
    # vacuity: every antecedent of the classification laws and of the property is reached (counted on TLC's own states)
    cnt = lambda pred: sum(1 for c in cases if pred(c))   # noqa: E731
    reach = {
        'garbage': cnt(lambda c: c['cls'] == 'garbage'), 'wellformed': cnt(lambda c: c['cls'] == 'wellformed'),
        'lenient': cnt(lambda c: c['cls'] == 'lenient'),
        'neglen': cnt(lambda c: c['fam'] == 'mut' and len(c['p']) == 2 and c['p'][1] == 5 and c['cls'] == 'garbage' and c['why'] == 'badtoken'),
        'deep': cnt(lambda c: c['why'] == 'deep'), 'trunc': cnt(lambda c: c['fam'] == 'trunc'),
        'resolved': cnt(lambda c: c['exp']['pend'] == 'resolved'), 'failed': cnt(lambda c: c['exp']['pend'] == 'failed'),
        'stored': cnt(lambda c: len(c['exp']['store']) > 1), 'answered': cnt(lambda c: any(s['ty'] == 'response' for s in c['exp']['sent'])),
        'error_reply_to_garbage': cnt(lambda c: c['cls'] == 'garbage' and c['exp']['sent']),
        'opaque_only': cnt(lambda c: c['fam'] == 'mut' and c['judge'] == 'full' and c['cls'] == 'wellformed'),
        'conf': cnt(lambda c: c['fam'] == 'conf' and c['cls'] == 'garbage'), 'miss': cnt(lambda c: c['fam'] == 'miss' and c['cls'] == 'garbage'),
        'big': cnt(lambda c: c['fam'] == 'big' and c['cls'] == 'garbage'),
        'spelt_number': cnt(lambda c: c['fam'] == 'mut' and len(c['p']) == 2 and c['p'][1] in (7, 8, 9, 10)),
    }
    if not all(reach.values()):
        raise MachineryError(f'vacuous DhtIngress run, unreached antecedents: {[k for k, v in reach.items() if not v]}')
    if ctx.thorough:      # the same as TLC reachability witnesses on a small configuration
        small = dict(consts, W2=0, W3=0, TINYLEN=2, EMIT=False)
        for w in I_WITNESSES:
            r = tlc.run('DhtIngress', tlc.make_cfg(spec='ISpec', constants=small, invariants=[w]), ctx, coverage=False,
                        timeout=600, label=w, workers=4)
            if w not in r.violated:
                raise MachineryError(f'reachability witness {w} not reached')
    R = judge.R
    fams = {}
    t0 = time.time()
    bases = {}
    for c in cases:
        data = R.render(c['bytes'])
        origin = f"{c['fam']}:{c['base']}:{','.join(map(str, c['p']))}" if len(c['p']) <= 8 else f"{c['fam']}:{c['base']}"
        # the transcribed reference decoder must agree with TLC on every emitted case (it classifies the random leg)
        r = ref_decode_all(data)
        k = ref_class(r)
        # ("split": a string that ends inside an opaque run; on real bytes the rest of the run is then a bad token,
        # or trailing bytes when the string is the whole datagram)
        if k != c['cls'] or (r['why'] != c['why'] and not (c['why'] == 'split' and r['why'] in ('badtoken', 'trailing'))):
            raise MachineryError(f'transcribed reference decoder disagrees with DhtIngress.tla on {origin}: '
                                 f'{k}/{r["why"]} vs {c["cls"]}/{c["why"]} for {_short(data)}')
        if k == 'wellformed' and ref_encode(r['v']) != data:
            raise MachineryError(f'strict well-formed input is not canonical: {origin}')
        fams[(c['fam'], k)] = fams.get((c['fam'], k), 0) + 1
        if c['fam'] == 'base':
            bases[c['base']] = data
        if k == 'wellformed':
            check_decode(ctx, data, r['v'], origin)
        judge.one(data, k, origin, judge=c['judge'], exp=c['exp'], note=_reason(r))
        if fams[(c['fam'], k)] == 1:
            ctx.sample({'input': _short(data), 'family': c['fam'], 'class_by_spec': k, 'reason': c['why'],
                        'judged': c['judge']}, cap=24)
    # the valid store request with its port replaced by integers no TCP port can be
    if b'i3333e' in bases.get('store', b''):
        for port in (-333, -1, 0, 65536, 70000, 2 ** 32):
            judge.port_case(bases['store'].replace(b'i3333e', b'i%de' % port, 1), port)
    else:
        raise MachineryError('the base store datagram does not carry its port as i3333e')
    ctx.leg('ingress', cases=len(cases), by_family_and_class={f'{a}/{b}': n for (a, b), n in sorted(fams.items())},
            reached=reach, constants=_j(consts), wall_real_code_s=round(time.time() - t0, 1))
    return bases


def _j(consts):
    return {k: sorted(v) if isinstance(v, (set, frozenset)) else v for k, v in consts.items()}


# ------------------------------------------------------------------ leg: random

def leg_random(ctx, judge, bases):
    rng = ctx.rng
    n_rand = 20000 if ctx.thorough else 1500
    n_edit = 40000 if ctx.thorough else 3000
    maxlen = 65507 if ctx.thorough else 4096           # largest UDP payload
    alphabets = [bytes(range(256)), b'dlie0123456789:-', b'dlie19:-ax\x00\xff']
    classes = {}
    t0 = time.time()
    for i in range(n_rand):
        a = alphabets[i % 3]
        if i % 50 == 0:
            ln = rng.choice([maxlen, maxlen - 1, maxlen // 2, 1401, 1400])
        else:
            ln = rng.choice([1, 2, 3, 5, 8, 13, 21, 64, 200, rng.randrange(1, 1500)])
        data = bytes(rng.choice(a) for _ in range(ln)) if ln < 5000 else rng.randbytes(ln) if i % 100 else \
            bytes(rng.choice(alphabets[1]) for _ in range(ln))
        if i % 7 == 3:       # a valid head followed by random bytes
            b = bases[rng.choice(sorted(bases))]
            data = b[:rng.randrange(1, len(b))] + data
            data = data[:maxlen]
        r = ref_decode_all(data)
        k = ref_class(r)
        classes[('random', k)] = classes.get(('random', k), 0) + 1
        judge.one(data, k, f'random:{i}', judge='total', note=_reason(r))
    names = sorted(bases)
    for i in range(n_edit):
        b = bytearray(bases[names[i % len(names)]])
        for _ in range(rng.choice([1, 1, 2, 3])):
            pos = rng.randrange(len(b))
            op = rng.randrange(4)
            if op == 0:
                b[pos] = rng.randrange(256)
            elif op == 1:
                b[pos] = rng.choice(b'0123456789-:ilde')
            elif op == 2:
                del b[pos]
            else:
                b.insert(pos, rng.choice(b'0123456789-:ilde\x00\xffx'))
        data = bytes(b)
        r = ref_decode_all(data)
        k = ref_class(r)
        classes[('edit', k)] = classes.get(('edit', k), 0) + 1
        if k == 'wellformed':
            check_decode(ctx, data, r['v'], f'edit:{i}')
        judge.one(data, k, f'edit:{names[i % len(names)]}:{i}', judge='total', note=_reason(r))
    ctx.leg('random', random_strings=n_rand, random_edits_of_valid_datagrams=n_edit, max_len=maxlen,
            by_class={f'{a}/{b}': n for (a, b), n in sorted(classes.items())}, wall_s=round(time.time() - t0, 1))


# ------------------------------------------------------------------ replay / entry point

def replay(ctx):
    with open(ctx.replay) as f:
        obj = json.load(f)
    rep = obj.get('replay') or {}
    hx = rep.get('hex') or rep.get('expected_hex')
    if not hx or hx.endswith('...'):
        raise MachineryError('replay file carries no complete datagram')
    data = bytes.fromhex(hx)
    r = ref_decode_all(data)
    k = ref_class(r)
    print(f'replaying {_short(data)}: class by the reference decoder = {k} ({r["why"]})')
    judge = Judge(ctx, Renderer(obj.get('seed', ctx.seed), safe=True))
    if k == 'wellformed':
        check_decode(ctx, data, r['v'], 'replay')
    judge.one(data, k, rep.get('origin') or 'replay', judge='total', note=_reason(r))


def run(ctx):
    from . import lbryenv  # noqa: F401  (silences product logging, import order)
    if ctx.replay:
        return replay(ctx)
    leg_codec(ctx)
    judge = Judge(ctx, Renderer(ctx.seed, safe=True))
    bases = leg_ingress(ctx, judge)
    if bases:
        leg_random(ctx, judge, bases)
    ctx.cov['traces_validated_against_impl'] = judge.fed
    ctx.cov['exhaustive'] = True
    ctx.leg('summary', inputs_fed_to_datagram_received=judge.fed, by_class=judge.by_class, hangs=judge.hangs,
            skipped_after_hang_cap=judge.skipped_after_hang_cap,
            wellformed_inputs_whose_effect_differs_from_the_model_not_judged=judge.drift, drift_samples=judge.drift_samples)
    ctx.cov['rule'] = (
        'codec: every TLC state of Bencode.tla is one message shape (4 request kinds, pong/OK, contact lists 0..16, '
        'findValue responses over contacts x peers x key position x pages x version flag, errors with text 0..999 bytes, '
        'compact addresses incl. invalid ones); ingress: every TLC case of DhtIngress.tla (8 valid datagrams; every proper '
        'prefix; all 1-position edits, 2-position edits within W2 and 3-position edits within W3 by six classes; every '
        'value/key type confusion; every missing entry; nesting depths; all strings <= TINYLEN over 8 symbols) is one '
        'call of the real datagram_received on a fresh node; plus seeded random strings and random byte edits classified '
        'by the transcribed reference decoder. Distinct = distinct input bytes; non-trivial = longer than one byte.')
    ctx.assumptions += [
        'opaque payloads (ids, tokens, text) are rendered from a seeded stream; in the ingress leg they avoid the bencode '
        'structural bytes so that the specification can treat an opaque byte at a token start as "not a token"',
        f'nesting deeper than {MAXNEST} is "deeply nested" for the specification (protocol messages nest <= 4); depths '
        'between 11 and 999 are not exercised',
        'datagrams that deviate from canonical bencode only by leading zeros, "-0", key order/duplicates or bytes after '
        'the top-level value are judged for totality only; so are well-formed datagrams other than the eight valid ones '
        'and their payload-byte variants (their effect is compared with the model and counted as drift)',
        'typing is decided at the datagram level (fields, lengths, method names); argument-level validation of requests '
        'and payload-level validation of responses is the RPC layer, not the codec',
        'failure recording is observed by wrapping PeerManager.report_failure on the instance',
    ]
