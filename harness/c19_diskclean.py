"""C19 -- disk cleanup. Leg A: DiskClean.tla exhaustively (the algorithm satisfies every clause of the property);
Leg C: passes of the real DiskSpaceManager.clean() on real sqlite storage + real files are validated by TLC
(DiskCleanTrace.tla): every clause is evaluated on the real before/after state, accounting must agree."""
import os
import shutil

from . import tlc
from .common import MachineryError

INVS = ['OnlyWhenOverContent', 'OnlyWhenOverNetwork', 'ClassDiscipline', 'NeverOwn', 'NothingWhenUnlimited',
        'WithinAfterContent', 'WithinAfterNetwork', 'MinimalContent', 'MinimalNetwork', 'DeletedWereHere']
WITNESSES = ['W_ContentDeleted', 'W_NetworkDeleted', 'W_SdDeleted', 'W_OverButUnlimited', 'W_SecondPassDeletes']
MIB = 1 << 20
SIZES = [MIB // 4, MIB - 1, MIB, MIB + 1, MIB * 7 // 4, 2 * MIB - 1, 2 * MIB]
CLS = ['own', 'content', 'nofile', 'network']


def leg_a(ctx):
    consts = {'SIZES': {1, 4, 7, 8}, 'MAXB': 4 if ctx.thorough else 3, 'LIMITS': {0, 1, 2, 3, 5}, 'MAXPASS': 2,
              'ADDS': 1 if not ctx.thorough else 1, 'Q': 4, 'PARTIAL': False, 'PHANTOM': False}
    if ctx.thorough:
        consts['LIMITS'] = {0, 1, 3, 5}
    res = tlc.run('DiskClean', tlc.make_cfg(constants=consts, invariants=INVS), ctx, timeout=3000, label='DiskClean-MC')
    ctx.add_tlc(res, f'DiskClean exhaustive {consts}')
    if res.violated:
        ctx.violation('model:' + res.violated[0], f'model invariant {res.violated[0]} violated', res.error_trace[:6000])
    tlc.require_coverage(res, ['CleanWith', 'AddBlob'], 'DiskClean')
    # partly downloaded streams in the initial population (pending rows, nothing on disk), smaller configuration
    part = dict(consts, SIZES={4, 7, 8}, MAXB=3, LIMITS={0, 1, 3}, PARTIAL=True)
    res = tlc.run('DiskClean', tlc.make_cfg(constants=part, invariants=INVS), ctx, timeout=3000, label='DiskClean-partial')
    ctx.add_tlc(res, f'DiskClean exhaustive with partly downloaded streams {part}')
    if res.violated:
        ctx.violation('model:partial:' + res.violated[0], f'model invariant {res.violated[0]} violated', res.error_trace[:6000])
    # negative control: pending rows as candidates, credited with their announced length
    r = tlc.run('DiskClean', tlc.make_cfg(constants=dict(part, PHANTOM=True), invariants=INVS), ctx, coverage=False, timeout=3000, label='DiskClean-phantom')
    if not r.violated:
        raise MachineryError('negative control failed: crediting blobs that are not on disk should violate a clause in the model')
    ctx.leg('A', negative_control_phantom_credit=r.violated[0])
    # reachability witnesses on a small configuration (behaviours of it are behaviours of the big one)
    small = dict(consts, MAXB=2, SIZES={4, 7, 8})
    for w in WITNESSES:
        r = tlc.run('DiskClean', tlc.make_cfg(constants=small, invariants=[w]), ctx, coverage=False, timeout=600, label=w)
        if w not in r.violated:
            raise MachineryError(f'reachability witness {w} not reached: the invariants may hold vacuously')
    ctx.leg('A', constants={k: sorted(v) if isinstance(v, set) else v for k, v in consts.items()},
            invariants=INVS, witnesses_reached=WITNESSES)


class Scenario:
    """one real storage + blob dir populated through the real storage API"""

    def __init__(self, ctx, n, blobs, climit, nlimit):
        from .lbryenv import StorageEnv, fake_hash
        from lbry.blob.disk_space_manager import DiskSpaceManager
        self.dir = ctx.mkdir(f'c19-{n}')
        self.env = StorageEnv(self.dir, blob_storage_limit=climit, network_storage_limit=nlimit)
        self.fake_hash = fake_hash
        self.n = n
        self.blobs = []          # dicts: cls, size, hash, sd (hash or None)
        self.dsm = DiskSpaceManager(self.env.config, self.env.storage, self.env.blob_manager)
        # usage is OBSERVED through a second manager, so that reading it never refreshes the cache of the one under test
        self.observer = DiskSpaceManager(self.env.config, self.env.storage, self.env.blob_manager)
        for b in blobs:
            self.add(b)

    def touch(self, h, size):
        with open(os.path.join(self.env.blob_dir, h), 'wb') as f:
            f.truncate(size)

    def add(self, b):
        from lbry.blob.blob_info import BlobInfo
        from lbry.stream.descriptor import StreamDescriptor
        env, i = self.env, len(self.blobs) + 1
        h = self.fake_hash(i, self.n)
        mine = b['cls'] == 'own'
        added_on = 1000 + i
        rec = dict(cls=b['cls'], size=b['size'], hash=h, sd=None)
        here = b.get('here', True)
        # here = False: a blob of a partly downloaded stream -- announced in the descriptor (row 'pending' with its length), not on disk
        env.run(env.storage.add_blobs((h, b['size'], added_on, mine), finished=here))
        if here:
            self.touch(h, b['size'])
        if b['cls'] != 'network':
            sd_hash = self.fake_hash(f'sd{i}', self.n)
            stream_hash = self.fake_hash(f'st{i}', self.n)
            infos = [BlobInfo(0, b['size'], '00' * 16, added_on, h, mine), BlobInfo(1, 0, '00' * 16, added_on, None, mine)]
            desc = StreamDescriptor(env.loop, env.blob_dir, f'stream{i}', '00' * 16, f'file{i}', infos, stream_hash, sd_hash)
            env.run(env.storage.add_blobs((sd_hash, 200, added_on, mine), finished=True))
            self.touch(sd_hash, 200)
            sd_blob = env.blob_manager.get_blob(sd_hash, 200, is_mine=mine)
            env.run(env.storage.store_stream(sd_blob, desc))
            if b['cls'] != 'nofile':
                env.run(env.storage.save_downloaded_file(stream_hash, f'file{i}', self.dir, 0.0, added_on=added_on))
            if mine:
                env.run(env.storage.update_blob_ownership(sd_hash, True))
            rec['sd'] = sd_hash
        self.blobs.append(rec)

    def recomplete(self, i):
        """blob i goes through BlobManager.blob_completed again (what the downloader / the start-up pass do for a file that is there)"""
        env = self.env
        b = self.blobs[i]
        with env.loop:
            t = env.blob_manager.blob_completed(env.blob_manager.get_blob(b['hash'], b['size']))
        env.loop.drain(stop=t.done, timers=False)

    def present(self):
        files = set(os.listdir(self.env.blob_dir))
        rows = {r[0] for r in self.env.rows("select blob_hash from blob where status='finished'")}
        return files & rows

    def clean(self):
        env = self.env
        here0 = self.present()
        used = env.run(self.observer.get_space_used_mb(cached=False))
        env.run(self.dsm.clean())
        here1 = self.present()
        gone = here0 - here1
        ev = {'event': 'Clean', 'cdel': [], 'csd': [], 'ndel': [],
              'cmb': used['content_storage'] + used['private_storage'], 'nmb': used['network_storage']}
        for i, b in enumerate(self.blobs, 1):
            if b['hash'] in gone:
                ev['ndel' if b['cls'] == 'network' else 'cdel'].append(i)
            if b['sd'] and b['sd'] in gone:
                ev['csd'].append(i)
        extra = here1 - here0
        return ev, extra

    def close(self):
        self.env.close()
        shutil.rmtree(self.dir, ignore_errors=True)


def gen_case(rng, k):
    n = rng.choice([0, 1, 2, 3, 3, 4, 4, 5, 6])
    if k % 5 == 0:      # boundary-directed: all one size class, mixed owners
        sz = rng.choice(SIZES)
        blobs = [{'cls': rng.choice(CLS), 'size': sz, 'here': True} for _ in range(n)]
    else:
        blobs = [{'cls': rng.choice(CLS), 'size': rng.choice(SIZES), 'here': True} for _ in range(n)]
    for b in blobs:
        if b['cls'] == 'content' and rng.random() < 0.2:
            b['here'] = False            # partly downloaded: the database knows the blob's length, the disk does not hold it
    cbytes = sum(b['size'] for b in blobs if b['cls'] in ('content', 'nofile') and b['here'])
    pbytes = sum(b['size'] for b in blobs if b['cls'] == 'own')
    nbytes = sum(b['size'] for b in blobs if b['cls'] == 'network')
    cused, nused = cbytes // MIB + pbytes // MIB, nbytes // MIB
    climit = rng.choice([0, max(0, cused - 3), max(0, cused - 1), cused, cused + 1, 100, 1, 2])
    nlimit = rng.choice([0, max(0, nused - 2), max(0, nused - 1), nused, nused + 1, 100, 1])
    steps = rng.choice([['Clean'], ['Clean', 'Clean'], ['Clean', 'Add', 'Clean'], ['Clean', 'Add', 'Add', 'Clean', 'Clean']])
    return blobs, climit, nlimit, steps


def leg_c(ctx):
    ncases = 3000 if ctx.thorough else 400
    traces = []
    for k in range(ncases):
        blobs, climit, nlimit, steps = gen_case(ctx.rng, k)
        sc = Scenario(ctx, k, blobs, climit, nlimit)
        try:
            evs = []
            for s in steps:
                if s == 'Clean':
                    ev, extra = sc.clean()
                    if extra:
                        raise MachineryError(f'blobs appeared during clean: {extra}')
                    evs.append(ev)
                else:
                    if ctx.rng.random() < 0.5:      # the daemon's status command reads the (cached) usage between passes
                        sc.env.run(sc.dsm.get_space_used_mb())
                    if sc.blobs and ctx.rng.random() < 0.5:     # a stored blob is completed again (bookkeeping only: nothing changes class)
                        present = sc.present()
                        cand = [i for i, b in enumerate(sc.blobs) if b['hash'] in present]
                        if cand:
                            sc.recomplete(ctx.rng.choice(cand))
                    b = {'cls': ctx.rng.choice(CLS), 'size': ctx.rng.choice(SIZES), 'here': True}
                    if b['cls'] == 'content' and ctx.rng.random() < 0.15:
                        b['here'] = False
                    sc.add(b)
                    evs.append({'event': 'Add', 'blob': b})
        finally:
            sc.close()
        tr = {'init': {'blobs': blobs, 'climit': climit, 'nlimit': nlimit}, 'ev': evs}
        traces.append(tr)
        deleted = any(e['event'] == 'Clean' and (e['cdel'] or e['ndel'] or e['csd']) for e in evs)
        ctx.count((repr(blobs), climit, nlimit, tuple(steps)), nontrivial=len(blobs) >= 2)
        if k < 3 or (deleted and len(ctx.cov['samples']) < 6):
            ctx.sample(tr)
    cfg = tlc.make_cfg(spec='TSpec', constants={'SIZES': set(), 'MAXB': 0, 'LIMITS': set(), 'MAXPASS': 1000, 'ADDS': 1000, 'Q': MIB, 'PARTIAL': True, 'PHANTOM': False},
                       invariants=INVS, constraint='Reached', postcondition='Report')
    verdicts = tlc.validate_traces('DiskCleanTrace', cfg, traces, ctx, label='DiskCleanTrace')
    drift = sum(1 for v in verdicts if v.get('drift'))
    for v in verdicts:
        tr = traces[v['tid']]
        if v['invariant']:
            ctx.violation(classify(tr, v), f"clause {v['invariant']} violated by a real cleanup pass", tr)
        elif not v['accepted']:
            ctx.violation('accounting-or-shape', f"real pass not a behaviour of the specification at event {v['matched'] + 1} "
                          f"(usage accounting differs from the specified one, or a blob outside the model was touched)", tr)
    ctx.cov['traces_validated_against_impl'] += len(traces)
    ndel = sum(1 for t in traces if any(e['event'] == 'Clean' and (e['cdel'] or e['ndel']) for e in t['ev']))
    ctx.leg('C', traces=len(traces), traces_with_deletions=ndel, spec_drift=drift)
    if drift:
        print(f'NOTE: {drift} real passes chose other blobs than the algorithm transcribed in DiskClean.tla (not a violation)')
    return traces


def classify(tr, v):
    k = v.get('inv_event')
    ev = tr['ev'][k] if k is not None and 0 <= k < len(tr['ev']) else {}
    if ev.get('event') == 'Clean' and ev['csd'] and ev['ndel'] and v['invariant'] in (
            'OnlyWhenOverContent', 'ClassDiscipline', 'MinimalContent', 'NeverOwn'):
        # stream descriptors vanished in a pass whose network scan ran to its end
        return 'network-pass-deletes-stream-descriptors'
    if v['invariant'] == 'OnlyWhenOverContent':
        return 'content-pass-deletes-under-nonzero-limit'
    return 'clause-' + v['invariant']


def run(ctx):
    leg_a(ctx)
    leg_c(ctx)
    ctx.cov['rule'] = ('Leg A: every state of DiskClean.tla in the stated constants. Leg C: seeded random and boundary-directed '
                       'mixes of own/content/no-file/network blobs (sizes 256 KiB .. 2 MiB incl. 1 MiB+-1 B) with limits 0/below/'
                       'equal/above usage, 1-3 real clean() passes with blobs added in between; one trace per scenario, '
                       'distinct = distinct (blobs, limits, steps); non-trivial = at least two blobs.')
    ctx.assumptions += ['blob rows created through the storage API with sparse files of the recorded length (the pass accounts from the database)',
                        'one stream per data blob (multi-blob streams change neither the accounting nor the scan order)']
