"""G07 -- streaming a byte range of a stream returns exactly those bytes (ManagedStream.stream_file).

specs/RangeStream.tla transcribes _prepare_range_response_headers, the body loop of stream_file, the blob layout of
descriptor.py and the part of aiohttp's payload writer the loop relies on, in the constants CAP / BLOCK.

Leg A   the scaled model (CAP=7, BLOCK=4): EVERY file size 0..MAXK*CAP+2 and EVERY range, as found (the statement's
        laws hold outside three request classes D1..D3, each class really breaks its law, the raw laws are refuted =
        negative controls) and as stated (switches repaired: the laws are invariants); the scripted and the free world
        (disconnect / cancellation / stop_tasks at every await point): clean-up invariants, witnesses, liveness.
Leg B   the same module with the REAL constants 2097151 / 16 over the boundary classes: every finished behaviour is
        emitted with the answer the model predicts (status, headers, the wire as runs of file bytes and NULs) and the
        answer the statement wants; each becomes one call of the real stream_file on a real stream of that size (real
        encrypted blobs, real BlobManager / SQLiteStorage, a real aiohttp Request + StreamWriter over a fake
        transport).  Judged: real vs statement (player view: status, headers, the first Content-Length body bytes),
        real vs model (drift).  The same for every token string of the Range header ("syntax") and for the scripted
        disconnects ("cuts": the transport closes after j writes, the task is cancelled at start / in a download / in
        drain, stop_tasks runs meanwhile, a blob nobody has): outcome, registered responses, events, tasks, readers.
"""
import asyncio
import collections
import os
import random
import re
from unittest import mock

from . import tlc
from .common import Hang, MachineryError, watchdog

R_CAP, R_BLOCK, R_LIMIT = 2 * 2 ** 20 - 1, 16, 0x10000
S_CAP, S_BLOCK, S_LIMIT = 7, 4, 1
ASFOUND = {'DIVOFF': 1, 'CLAMP': False, 'ORDERCHK': False, 'EOFTRUNC': False, 'CLEARALWAYS': False}
ASSTATED = {'DIVOFF': 0, 'CLAMP': True, 'ORDERCHK': True, 'EOFTRUNC': True, 'CLEARALWAYS': False}
COMMON_INVS = ['LayoutLaw', 'ParseAgrees', 'NeverBeyondFile', 'RefusalsClean', 'UnreadableRefused', 'CleanEnd', 'Registered', 'OthersProtected']
ASFOUND_INVS = COMMON_INVS + ['AsFound', 'D1Exact', 'D2Exact', 'D3Exact', 'QuietStoppedAsFound']
ASSTATED_INVS = COMMON_INVS + ['StatementLaws', 'NoExcess', 'QuietStopped']
MARKS = {101: 'W_D1', 102: 'W_D1Index', 103: 'W_D2', 104: 'W_D3', 105: 'W_Pad', 106: 'W_Claim', 107: 'W_Implausible',
         108: 'W_Multi', 109: 'W_CutReset', 110: 'W_CutStop', 111: 'W_Timeout', 112: 'W_Stuck', 113: 'W_Other', 114: 'W_OtherStopped',
         201: 'BodyIsSlice', 202: 'AnswersRequest', 203: 'Unsatisfiable416', 204: 'HeadersDescribeSlice', 205: 'EstimateSafe',
         206: 'NoExcess', 207: 'NoWastedReads', 208: 'QuietStopped'}
DEVKEY = {'D1': 'start-just-below-blob-boundary-served-from-wrong-blob',
          'D2': 'last-byte-pos-beyond-size-answered-416',
          'D3': 'first-byte-pos-after-last-byte-pos-answered-206'}
DEVTEXT = {'D1': 'skip_blobs = start // (MAX_BLOB_SIZE - 2): a first-byte-pos in the k bytes below blob boundary k is served from blob k '
                 'with a negative offset (wrong bytes, short body) or dies with IndexError after the 206 header',
           'D2': 'a last-byte-pos at or beyond the reported size is answered 416 instead of being clamped to the end (RFC 7233 2.1)',
           'D3': 'first-byte-pos > last-byte-pos is not tested: 206 with a Content-Length <= 0 instead of 416'}
TOKSTR = {'bytes': 'bytes', '=': '=', '-': '-', ',': ',', 'sp': ' ', 'x': 'x', '+': '+'}
FILE_NAME = 'video.mp4'


# ------------------------------------------------------------------------------------------------ TLC runs

def consts(scale, caseset, maxk=2, claims=False, strlen=0, emit=False, switches=ASFOUND):
    cap, block, limit = (R_CAP, R_BLOCK, R_LIMIT) if scale == 'real' else (S_CAP, S_BLOCK, S_LIMIT)
    d = {'CAP': cap, 'BLOCK': block, 'LIMIT': limit, 'CASESET': caseset, 'MAXK': maxk, 'CLAIMS': claims, 'STRLEN': strlen, 'EMIT': emit}
    d.update(switches)
    return d


def marks_of(res):
    out = {}
    for m in re.finditer(r'^<<"MARK", (\d+), (TRUE|FALSE)>>', res.out, re.M):
        out[int(m.group(1))] = m.group(2) == 'TRUE'
    if len(out) != len(MARKS):
        raise MachineryError(f'marks run printed {len(out)} of {len(MARKS)} marks\n{res.out[-1500:]}')
    return out


def run_model(ctx, label, c, invs, what, marks=False, emit=False, props=(), workers=8, timeout=1500):
    constraint = [x for x in (['Marks'] if marks else []) + (['Emit'] if emit else [])]
    cfg = tlc.make_cfg(constants=c, invariants=invs, properties=props, constraint=constraint or None,
                       postcondition='Post' if marks else None)
    res = tlc.run('RangeStream', cfg, ctx, workers=1 if (marks or emit) else workers, coverage=False, timeout=timeout, label=label)
    ctx.add_tlc(res, what)
    if res.violated:
        ctx.violation('model:' + label + ':' + ','.join(sorted(set(res.violated))), f'specification law violated in the model ({what})',
                      res.error_trace[:5000])
        return res, None
    return res, (marks_of(res) if marks else None)


def cases_of(res):
    cases = []
    pat = re.compile(r'^<<"CASE", "(.*)">>$')
    import json
    for ln in res.printed:
        m = pat.match(ln)
        if m:
            cases.append(json.loads(tlc._untla(m.group(1))))  # pylint: disable=protected-access
    return cases


def leg_a(ctx):
    reached = collections.Counter()
    th = ctx.thorough

    def take(marks):
        if marks:
            for k, v in marks.items():
                reached[k] += 1 if v else 0

    c = consts('scaled', 'all', maxk=4 if th else 2)
    res, m = run_model(ctx, 'asfound-all', c, ASFOUND_INVS, f'RangeStream AS FOUND, scaled, every size 0..{c["MAXK"] * S_CAP + 2} x every '
                       f'range (5 header forms); invariants {ASFOUND_INVS} + witnesses + refutation of the raw laws', marks=True,
                       timeout=2400)
    if m is None:
        return False
    take(m)
    n_all = res.distinct
    c = consts('scaled', 'all', maxk=2 if th else 1, claims=True)
    res, _ = run_model(ctx, 'asfound-claims', c, ASFOUND_INVS, 'RangeStream AS FOUND, scaled, with every claimed size in '
                       '[estimate-BLOCK-1, estimate+1] (honest, lying inside the window, implausible)')
    if res.violated:
        return False
    c = consts('scaled', 'all', maxk=3 if th else 2, claims=th, switches=ASSTATED)
    res, _ = run_model(ctx, 'asstated-all', c, ASSTATED_INVS, f'RangeStream AS STATED (skip_blobs = start // (MAX-1), last-byte-pos clamped, '
                       f'start > end refused, final chunk cut to Content-Length): {ASSTATED_INVS} are invariants')
    if res.violated:
        return False
    c = consts('scaled', 'cuts')
    res, m = run_model(ctx, 'asfound-cuts', c, ASFOUND_INVS, 'RangeStream AS FOUND, scaled, scripted world: transport closes before / after j '
                       'writes, cancellation at start / start2 / in a download / in drain, stop_tasks meanwhile, absent blob', marks=True)
    if m is None:
        return False
    take(m)
    c = consts('scaled', 'free')
    res, m = run_model(ctx, 'asfound-free', c, ASFOUND_INVS, 'RangeStream AS FOUND, scaled, free world (reset, cancel, stop_tasks each at most '
                       'once at any await point, delayed-stop ticks anywhere) + liveness Ends', marks=True, props=['Ends'])
    if m is None:
        return False
    take(m)
    # negative control for the clean-up clauses: a `finally` that clears `streaming` while another response is registered
    c = consts('scaled', 'cuts', switches=dict(ASFOUND, CLEARALWAYS=True))
    r = tlc.run('RangeStream', tlc.make_cfg(constants=c, invariants=['OthersProtected']), ctx, workers=4, coverage=False, timeout=600, label='neg-clearalways')
    if 'OthersProtected' not in r.violated:
        raise MachineryError('negative control: OthersProtected holds although the finally clears `streaming` unconditionally')
    ctx.add_tlc(r, 'negative control: `streaming` cleared without looking at streaming_responses -- OthersProtected is violated, as it must be')
    ctx.leg('A', scaled_constants={'CAP': S_CAP, 'BLOCK': S_BLOCK}, cases_all=n_all, invariants_as_found=ASFOUND_INVS,
            invariants_as_stated=ASSTATED_INVS)
    return reached


# ------------------------------------------------------------------------------------------------ the real side

def _imports():
    from aiohttp.web import Request, HTTPException
    from aiohttp.http_writer import StreamWriter, HttpVersion
    from aiohttp.http_parser import RawRequestMessage
    from aiohttp.base_protocol import BaseProtocol
    from aiohttp.streams import EMPTY_PAYLOAD
    from multidict import CIMultiDict, CIMultiDictProxy
    from yarl import URL
    return locals()


class Lab:
    """one real blob directory + storage + blob manager under a deterministic loop; real streams by size"""

    def __init__(self, ctx, name, cache):
        from .lbryenv import StorageEnv
        self.ctx = ctx
        self.dir = ctx.mkdir(name)
        self.env = StorageEnv(self.dir, fixed_peers=[], blob_lru_cache_size=32 if cache else 0)
        self.loop = self.env.loop
        self.cache = cache
        self.ai = _imports()
        BaseProtocol = self.ai['BaseProtocol']

        class Proto(BaseProtocol):       # the connection side of aiohttp: real flow control, observable suspension in drain
            ssl_context = None
            peername = ('127.0.0.1', 50000)
            sockname = ('127.0.0.1', 5280)
            nsusp = 0
            suspended = False

            async def _drain_helper(self):
                self.nsusp += 1
                self.suspended = True
                try:
                    await BaseProtocol._drain_helper(self)
                finally:
                    self.suspended = False
        self.Proto = Proto

    def make_stream(self, size, miss=None, tag=''):
        from lbry.stream.descriptor import StreamDescriptor
        from lbry.stream.managed_stream import ManagedStream
        src = os.path.join(self.dir, f'src-{size}{tag}')
        os.makedirs(src, exist_ok=True)
        path = os.path.join(src, FILE_NAME)
        data = random.Random(size * 7919 + 13).randbytes(size)
        with open(path, 'wb') as f:
            f.write(data)
        loop = self.loop
        bm = self.env.blob_manager
        with watchdog(120):
            desc = loop.run(StreamDescriptor.create_stream(loop, self.env.blob_dir, path, blob_completed_callback=bm.blob_completed))
            loop.drain(timers=False)
        os.remove(path)
        if miss is not None and miss < len(desc.blobs) - 1:
            os.remove(os.path.join(self.env.blob_dir, desc.blobs[miss].blob_hash))     # nobody has this blob
        st = Stream()
        st.size, st.data, st.desc, st.lab = size, data, desc, self
        st.lengths = [b.length for b in desc.blobs]
        st.ms = self.new_ms(st)
        return st

    def new_ms(self, st):
        from lbry.stream.managed_stream import ManagedStream
        with self.loop:
            return ManagedStream(self.loop, self.env.config, self.env.blob_manager, st.desc.sd_hash, descriptor=st.desc)

    def request(self, st, header):
        ai, loop = self.ai, self.loop
        tr = Tr(loop)
        proto = self.Proto(loop)
        tr.protocol = proto
        proto.connection_made(tr)
        writer = ai['StreamWriter'](proto, loop)
        h = ai['CIMultiDict']()
        if header is not None:
            h['Range'] = header
        headers = ai['CIMultiDictProxy'](h)
        raw = tuple((k.encode(), v.encode()) for k, v in headers.items())
        path = f'/stream/{st.desc.sd_hash}'
        msg = ai['RawRequestMessage']('GET', path, ai['HttpVersion'](1, 1), headers, raw, False, None, False, False, ai['URL'](path))
        req = ai['Request'](msg, ai['EMPTY_PAYLOAD'], proto, writer, mock.Mock(), loop)
        return req, tr, proto


class Stream:
    pass


def _tr_base():
    from .detloop import FakeTransport
    return FakeTransport


class Tr(_tr_base()):
    """the socket: collects what is written; can close itself after the j-th body write (the client went away)"""

    def __init__(self, loop):
        super().__init__(loop)
        self.nwrites = 0
        self.close_after = None

    def write(self, data):
        if self.closing:
            return
        self.out.append(bytes(data))
        self.nwrites += 1
        if self.close_after is not None and self.nwrites - 1 == self.close_after:
            self.close()


def set_claim(st, claimed):
    """claimed: None = no claim at all, 0 = a claim without a size, n = stream.source.size = n"""
    ms = st.ms
    if claimed is None:
        ms.stream_claim_info = None
        return
    from lbry.schema.claim import Claim
    c = Claim()
    c.stream.source.name = FILE_NAME
    if claimed:
        c.stream.source.size = claimed
    ms.set_claim({'txid': 'ab' * 32, 'nout': 0, 'claim_id': 'cd' * 20, 'name': 'video', 'amount': 1000, 'height': 1,
                  'address': 'bTestAddress', 'claim_sequence': 1}, c)


def header_text(case):
    if case['hdr'] == ['absent']:
        return None
    return ''.join(str(case['a']) if t == 'A' else str(case['b']) if t == 'B' else TOKSTR.get(t, t) for t in case['hdr'])


def exc_name(ai, e):
    if isinstance(e, asyncio.CancelledError):
        return 'CancelledError'
    if isinstance(e, ai['HTTPException']):
        return str(e.status)
    for t in (ConnectionResetError, TimeoutError, IndexError, ValueError):
        if isinstance(e, t):
            return t.__name__
    if isinstance(e, OSError):
        return 'OSError'
    return type(e).__name__


class Obs:
    def __init__(self, lab, task, tr):
        ai = lab.ai
        if not task.done():
            self.kind, self.exc = 'pending', ''
        elif task.cancelled():
            self.kind, self.exc = 'raised', 'CancelledError'
        elif task.exception() is not None:
            self.kind, self.exc = 'raised', exc_name(ai, task.exception())
            self.detail = repr(task.exception())[:120]
        else:
            self.kind, self.exc = 'returned', ''
            self.resp_status = getattr(task.result(), 'status', None)
        raw = b''.join(tr.out)
        self.hsent = bool(raw)
        head, _, self.wire = raw.partition(b'\r\n\r\n')
        lines = head.decode('latin-1').split('\r\n') if raw else []
        self.status_line = lines[0] if lines else ''
        self.headers = {}
        for ln in lines[1:]:
            k, _, v = ln.partition(':')
            self.headers[k.strip().lower()] = v.strip()
        m = re.match(r'HTTP/1\.1 (\d+)', self.status_line)
        self.status = int(m.group(1)) if m else 0
        self.cr = self.headers.get('content-range')
        try:
            self.cl = int(self.headers.get('content-length', 'x'))
        except ValueError:
            self.cl = None

    def brief(self):
        return {'outcome': self.kind, 'exception': self.exc, 'status': self.status, 'content_range': self.cr,
                'content_length': self.cl, 'body_bytes_on_wire': len(self.wire)}


def bytes_of(runs, data):
    return b''.join(data[r['lo']:r['hi']] if r['k'] == 'f' else b'\x00' * (r['hi'] - r['lo']) for r in runs)


def runs_len(runs):
    return sum(r['hi'] - r['lo'] for r in runs)


def serve_plain(lab, st, header):
    loop = lab.loop
    req, tr, proto = lab.request(st, header)
    with watchdog(120):
        task = loop.spawn(st.ms.stream_file(req))
        loop.drain(stop=task.done, until=loop.time() + 5, limit=400000)
    return Obs(lab, task, tr), tr


def meets_statement(o, case, st):
    """player view: status, the four headers, and the body a client reads when it frames by Content-Length"""
    w = case['want']
    if w['kind'] == '416':
        return (o.kind == 'raised' and o.exc == '416' and not o.hsent), 'wants 416 before anything is sent'
    if w['kind'] == '206':
        if o.kind != 'returned':
            return False, f'wants 206 bytes {w["start"]}-{w["end"]}/{w["size"]}, call ended with {o.exc or o.kind}'
        cl = w['end'] - w['start'] + 1
        if o.status != 206 or o.headers.get('accept-ranges') != 'bytes' or o.cr != f'bytes {w["start"]}-{w["end"]}/{w["size"]}' or o.cl != cl:
            return False, f'wants 206 bytes {w["start"]}-{w["end"]}/{w["size"]} length {cl}'
        if o.headers.get('content-type') != 'video/mp4':
            return False, 'wants Content-Type video/mp4'
        if len(o.wire) < cl:
            return False, f'body has {len(o.wire)} bytes, Content-Length says {cl}'
        want = bytes_of(case['wantbody'], st.data)
        if len(want) != cl:
            raise MachineryError('expected body has the wrong length')
        if o.wire[:cl] != want:
            i = next(i for i in range(cl) if o.wire[i] != want[i])
            return False, f'body differs from file[{w["start"]}:{w["end"] + 1}] at body offset {i} (file offset {w["start"] + i})'
        return True, ''
    # unreadable header / implausible claim: a refusal before anything is sent, or a self-consistent answer
    if o.kind == 'raised' and not o.hsent and (o.exc == 'ValueError' or re.fullmatch(r'4\d\d', o.exc)):
        return True, ''
    if o.kind == 'returned' and o.status == 206 and o.cr and o.cl is not None:
        m = re.fullmatch(r'bytes (\d+)-(\d+)/(\d+)', o.cr)
        if m:
            s, e, z = map(int, m.groups())
            padded = st.data + b'\x00' * (R_BLOCK - 1)
            if 0 <= s <= e < z <= len(padded) and z >= len(st.data) and o.cl == e - s + 1 and o.wire[:o.cl] == padded[s:e + 1]:
                return True, ''
    return False, 'an unreadable request must be refused before anything is sent (or answered consistently)'


def meets_model(o, case, st):
    m = case['out']
    if o.kind != m['k'] or (m['k'] == 'raised' and o.exc != m['exc']):
        return False, f'model: {m["k"]} {m["exc"]}, real: {o.kind} {o.exc}'
    if o.hsent != case['hsent']:
        return False, f'model: header block sent = {case["hsent"]}, real: {o.hsent}'
    if o.hsent:
        if o.status != 206 or o.cr != f'bytes {case["start"]}-{case["end"]}/{case["size"]}' or o.cl != case['clen']:
            return False, f'model: bytes {case["start"]}-{case["end"]}/{case["size"]} length {case["clen"]}, real: {o.cr} length {o.cl}'
        if len(o.wire) != runs_len(case['wire']):
            return False, f'model: {runs_len(case["wire"])} body bytes on the wire, real: {len(o.wire)}'
        if o.wire != bytes_of(case['wire'], st.data):
            return False, 'the bytes on the wire differ from the runs the model predicts'
    return True, ''


class Judge:
    def __init__(self, ctx):
        self.ctx = ctx
        self.n = collections.Counter()
        self.drift = collections.Counter()
        self.excess_max = 0
        self.dev_seen = collections.Counter()

    def plain(self, lab, st, case, header, o, extra=''):
        ctx = self.ctx
        okS, whyS = meets_statement(o, case, st)
        okM, whyM = meets_model(o, case, st)
        self.n['calls'] += 1
        self.n[f'real:{o.kind}:{o.exc or o.status}'] += 1
        replay = {'file_size': st.size, 'blob_lengths': st.lengths, 'range_header': header, 'claimed_size': case['claim'] or None,
                  'lru_cache': lab.cache, 'real': o.brief(), 'statement_wants': case['want'], 'model_as_found': {
                      'out': case['out'], 'start': case['start'], 'end': case['end'], 'size': case['size'], 'clen': case['clen'],
                      'skip_blobs': case['skipb'], 'first_blob_offset': case['foff'], 'wire': case['wire']}}
        if okS:
            if not okM:
                self.drift[('answers the statement where the as-found model deviates (' + case['dev'] + '): ' if case['dev'] else
                            'differs from the model without breaking the statement: ') + whyM.split(',')[0][:60]] += 1
            elif case['dev']:
                self.n['wrong_byte_equals_right_byte_by_chance'] += 1      # D1 with a one- or two-byte body of random data
            if o.kind == 'returned' and o.cl is not None and len(o.wire) > o.cl:
                self.n['excess_after_content_length'] += 1
                self.excess_max = max(self.excess_max, len(o.wire) - o.cl)
            return True
        if okM and case['dev']:
            self.dev_seen[case['dev']] += 1
            ctx.violation(DEVKEY[case['dev']], f'{DEVTEXT[case["dev"]]}: file of {st.size} bytes, Range {header!r}{extra}: {whyS}; real answer '
                          f'{o.brief()}', replay)
            return False
        where = 'as the model predicts, outside every known class' if okM else f'NOT as the model predicts ({whyM})'
        what = ('wrong-status' if case['want']['kind'] == '416' or o.kind != 'returned' else
                'wrong-headers' if 'wants 206' in whyS or 'Content-Type' in whyS else 'wrong-body')
        ctx.violation(f'unpredicted:{what}', f'file of {st.size} bytes, Range {header!r}{extra}: {whyS}; real answer {o.brief()}; {where}', replay)
        return False


def settle(lab, st, secs=12):
    lab.loop.drain(until=lab.loop.time() + secs, limit=400000)


def leftovers(lab, st):
    loop = lab.loop
    tasks = sorted(getattr(t.get_coro(), '__qualname__', repr(t.get_coro())) for t in asyncio.all_tasks(loop) if not t.done())
    readers = sum(len(b.readers) for b in lab.env.blob_manager.blobs.values())
    writers = sum(len(b.writers) for b in lab.env.blob_manager.blobs.values())
    return {'tasks': tasks, 'readers': readers, 'writers': writers, 'registered': len(st.ms.streaming_responses),
            'streaming': st.ms.streaming.is_set(), 'saving': st.ms.saving.is_set(), 'pending_jobs': len(loop.pending_jobs),
            'loop_exception_handler_calls': len(loop.exceptions)}


def check_clean(ctx, lab, st, what, replay, running_expected=False):
    lo = leftovers(lab, st)
    ok = True
    if lo['registered'] or lo['streaming']:
        ctx.violation('response-left-registered', f'{what}: streaming_responses holds {lo["registered"]} entr(ies), streaming event '
                      f'{"set" if lo["streaming"] else "clear"} after the call ended', dict(replay, leftovers=lo))
        ok = False
    if lo['tasks'] or lo['pending_jobs']:
        ctx.violation('task-left-running', f'{what}: tasks still alive 12 virtual seconds after the call ended: {lo["tasks"]}',
                      dict(replay, leftovers=lo))
        ok = False
    if lo['loop_exception_handler_calls']:
        msgs = sorted({str(c.get('message'))[:80] + ' ' + repr(c.get('exception'))[:80] for c in lab.loop.exceptions})
        lab.loop.exceptions.clear()
        ctx.violation('exception-lost-in-event-loop', f'{what}: {lo["loop_exception_handler_calls"]} exception(s) reached the loop\'s exception '
                      f'handler (never retrieved by anybody): {msgs[:3]}', dict(replay, leftovers=lo))
        ok = False
    if lo['readers'] or lo['writers']:
        ctx.violation('reader-or-writer-left-open', f'{what}: {lo["readers"]} blob reader(s), {lo["writers"]} blob writer(s) left open',
                      dict(replay, leftovers=lo))
        ok = False
    return ok, lo


# ------------------------------------------------------------------------------------------------ Leg B: boundary + syntax

def leg_b_boundary(ctx, judge, reached):
    th = ctx.thorough
    c = consts('real', 'boundary', maxk=3 if th else 2, claims=True, emit=True)
    res, m = run_model(ctx, 'real-boundary', c, ASFOUND_INVS, f'RangeStream AS FOUND with the REAL constants CAP={R_CAP} BLOCK={R_BLOCK}: boundary '
                       f'sizes k*CAP+d (k<= {c["MAXK"]}), starts/ends around blob boundaries, the window below them, real and reported size; '
                       f'claims honest / lying / implausible; emission of every finished behaviour', marks=True, emit=True, timeout=2400)
    if m is None:
        return
    for k, v in m.items():
        reached[k] += 1 if v else 0
    cases = cases_of(res)
    if not cases or len({(x['fsize'], x['claim'], tuple(x['hdr']), x['a'], x['b']) for x in cases}) != len(cases):
        raise MachineryError(f'boundary emission: {len(cases)} cases, duplicates or none')
    by_size = collections.defaultdict(list)
    for x in cases:
        by_size[x['fsize']].append(x)
    labs = [Lab(ctx, 'lab-nocache', False), Lab(ctx, 'lab-cache', True)]
    stats = collections.Counter()
    huge = [2 ** 31, 2 ** 63 + 1, 10 ** 30]
    for si, size in enumerate(sorted(by_size)):
        lab = labs[si % 2]
        st = lab.make_stream(size)
        est = sum(n - 1 for n in st.lengths[:-1])
        stats['streams'] += 1
        stats['bytes'] += size
        stats['blobs'] += len(st.lengths) - 1
        current = 'unset'
        group = sorted(by_size[size], key=lambda x: (x['claim'], x['a'], x['b']))
        ref = next(x for x in group if x['claim'] == 0 and x['res'] in ('ok', '416'))
        if ref['nblobs'] != len(st.lengths) - 1 or ref['size'] != est:
            # the stream the real publisher makes of this file is not the one descriptor.py is transcribed to make (C02's ground)
            ctx.violation('blob-layout-not-as-modelled', f'file of {size} bytes: the specification predicts {ref["nblobs"]} content blob(s) and an '
                          f'estimated size of {ref["size"]}, the real descriptor has blob lengths {st.lengths} (estimate {est})',
                          {'file_size': size, 'blob_lengths': st.lengths})
            continue
        for ci, case in enumerate(group):
            claimed = case['claim'] if case['claim'] else (0 if si % 3 == 1 else None)     # every third stream carries a claim without a size
            if claimed != current:
                set_claim(st, claimed)
                current = claimed
            header = header_text(case)
            o, _ = serve_plain(lab, st, header)
            ctx.count(('b', size, case['claim'], header), nontrivial=case['res'] == 'ok')
            extra = f' (claim says {case["claim"]} bytes)' if case['claim'] else ''
            ok = judge.plain(lab, st, case, header, o, extra)
            stats[f'want:{case["want"]["kind"]}'] += 1
            if case['dev']:
                stats['dev:' + case['dev']] += 1
            if ok and case['res'] == 'ok' and case['nread'] > case['needed'] > 0:
                stats['reads_blobs_beyond_the_range_D5'] += 1
                stats['blobs_read_beyond_the_range_D5'] += case['nread'] - case['needed']
            if ok and stats['sampled'] < 6 and case['res'] == 'ok' and case['skipb'] >= 1 and ci % 5 == 0:
                stats['sampled'] += 1
                ctx.sample({'file_size': size, 'blob_lengths': st.lengths, 'range': header, 'real': o.brief(),
                            'model_wire_runs': case['wire'], 'statement_body_runs': case['wantbody']}, cap=12)
            # numbers far beyond any size (not representable in TLC) stand in for the class "beyond"
            if case['hdr'] == ['bytes', '=', 'A', '-'] and case['a'] == case['size'] + R_CAP and case['claim'] == 0:
                for hnum in huge:
                    o2, _ = serve_plain(lab, st, f'bytes={hnum}-')
                    ctx.count(('huge', size, hnum))
                    if not (o2.kind == 'raised' and o2.exc == '416' and not o2.hsent):
                        ctx.violation('unpredicted:wrong-status', f'file of {size} bytes, Range bytes={hnum}-: wants 416, real {o2.brief()}',
                                      {'file_size': size, 'range_header': f'bytes={hnum}-'})
                    stats['huge'] += 1
            if ci % 97 == 0:     # now and then let the delayed stop run down, so that start() is exercised from both states
                settle(lab, st, 5)
        settle(lab, st)
        check_clean(ctx, lab, st, f'after {len(group)} undisturbed requests on the {size}-byte stream', {'file_size': size})
        if st.ms._running.is_set():  # pylint: disable=protected-access
            ctx.violation('stream-not-stopped-after-idle', f'the {size}-byte stream is still running 12 s after its last request', {'file_size': size})
        st.data = None
        for b in st.desc.blobs[:-1]:
            try:
                os.remove(os.path.join(lab.env.blob_dir, b.blob_hash))
            except OSError:
                pass
    ctx.leg('B-boundary', cases=len(cases), **{k: v for k, v in stats.items() if k != 'sampled'},
            sizes=sorted(by_size) if len(by_size) <= 60 else len(by_size))
    if stats['reads_blobs_beyond_the_range_D5']:
        print(f'NOTE: in {stats["reads_blobs_beyond_the_range_D5"]} correctly answered requests the loop decrypts blobs the range does not '
              f'touch ({stats["blobs_read_beyond_the_range_D5"]} blobs in all): it always runs to the last blob (D5)', flush=True)
    return len(cases)


def leg_b_syntax(ctx, judge):
    th = ctx.thorough
    c = consts('real', 'syntax', strlen=5 if th else 4, emit=True)
    res, _ = run_model(ctx, 'real-syntax', c, ASFOUND_INVS, f'RangeStream AS FOUND, real constants, a 40-byte stream: every token string of the Range '
                       f'header up to {c["STRLEN"]} tokens over 10 tokens + everything within one edit of 7 grammar strings', emit=True, timeout=2400)
    if res.violated:
        return 0
    cases = cases_of(res)
    if not cases:
        raise MachineryError('syntax emission: no cases')
    lab = Lab(ctx, 'lab-syntax', False)
    st = lab.make_stream(cases[0]['fsize'])
    stats = collections.Counter()
    lenient = []
    for i, case in enumerate(cases):
        header = header_text(case)
        o, _ = serve_plain(lab, st, header)
        ctx.count(('s', header), nontrivial=len(case['hdr']) >= 3)
        judge.plain(lab, st, case, header, o)
        stats['wf' if case['wf'] else ('lenient-served' if case['res'] == 'ok' else 'refused:' + case['out']['exc'])] += 1
        if not case['wf'] and case['res'] == 'ok' and len(lenient) < 12 and i % 37 == 0:
            lenient.append(header)
        if i % 2500 == 7:
            ctx.sample({'range': header, 'well_formed': case['wf'], 'real': o.brief(), 'model': case['out']}, cap=16)
    settle(lab, st)
    check_clean(ctx, lab, st, f'after {len(cases)} header strings', {})
    ctx.leg('B-syntax', cases=len(cases), **stats, lenient_examples_served_D7=lenient)
    print(f'NOTE: {stats["lenient-served"]} header strings outside the grammar are served (D7), e.g. {lenient[:6]}; '
          f'{sum(v for k, v in stats.items() if k.startswith("refused:ValueError"))} unreadable ones raise ValueError before anything is sent '
          f'(HTTP 500 in the daemon), among them the suffix form bytes=-N and several ranges', flush=True)
    return len(cases)


# ------------------------------------------------------------------------------------------------ Leg B/C: the scripted world

def drive_cut(lab, st, case, header):
    """one real call of stream_file with the scripted event of the case; returns (Obs, fired, log)"""
    loop, ms = lab.loop, st.ms
    cut = case['cut']
    req, tr, proto = lab.request(st, header)
    fired = False
    log = []
    if cut['mode'] == 'reset' and cut['pt'] == 'pre':
        tr.close()
        loop.drain(timers=False)
        fired = True
    if cut['mode'] == 'reset' and cut['pt'] == 'wrote':
        tr.close_after = cut['at']
    if cut['pt'] == 'drain':
        proto.pause_writing()
    task = loop.spawn(ms.stream_file(req))
    deadline = loop.time() + 400
    handled = 0
    steps = 0

    def fire():
        nonlocal fired
        fired = True
        if cut['mode'] == 'cancel':
            task.cancel()
        elif cut['mode'] == 'stop':
            t2 = loop.spawn(ms.stop_tasks())
            loop.drain(timers=False, jobs=False, stop=t2.done)
            if not t2.done():
                raise MachineryError('stop_tasks did not finish in one go')
            t2.result()
        log.append(f'{cut["mode"]}@{cut["pt"]}{cut["at"]} t={loop.time():.0f}')

    while not task.done():
        steps += 1
        if steps > 2_000_000:
            raise MachineryError('cut driver does not terminate')
        if loop.ready_count():
            loop.step()
            continue
        mine = [j for j in loop.pending_jobs if j[3] is task]
        if proto.suspended and proto.nsusp > handled:
            handled = proto.nsusp
            if not fired and cut['pt'] == 'drain' and cut['mode'] in ('cancel', 'stop') and proto.nsusp == cut['at'] + 1:
                fire()
            elif proto.transport is not None:
                proto.resume_writing()
                proto.pause_writing()
            continue
        if not fired and cut['mode'] == 'cancel' and cut['pt'] in ('start', 'start2') and mine and not tr.out:
            if (cut['pt'] == 'start') == (ms.delayed_stop_task is None):
                fire()
                continue
        if loop.pending_jobs:
            loop.complete_job(0)
            continue
        if not fired and cut['pt'] == 'read' and cut['mode'] in ('cancel', 'stop') and not proto.suspended:
            fire()           # nothing ready, no job, not in drain: the task waits for a blob nobody has
            continue
        if not loop.advance(until=deadline):
            break
    if tr.close_after is not None and tr.closing and cut['mode'] == 'reset':
        fired = True
    if cut['mode'] == 'reset' and cut['pt'] == 'pre':
        fired = True
    return Obs(lab, task, tr), fired, log, tr


def start_other(lab, st):
    """another player connection on the same ManagedStream: whole file, client not reading (suspended in its first drain)"""
    loop = lab.loop
    req0, tr0, proto0 = lab.request(st, None)
    proto0.pause_writing()
    t0 = loop.spawn(st.ms.stream_file(req0))
    n = 0
    while not t0.done() and not proto0.suspended:
        n += 1
        if loop.ready_count():
            loop.step()
        elif loop.pending_jobs:
            loop.complete_job(0)
        else:
            break
        if n > 1_000_000:
            break
    if t0.done() or not proto0.suspended:
        raise MachineryError('the other request is not suspended in drain')
    return t0, tr0, proto0


def finish_other(ctx, lab, st, other, stopped, what, replay):
    """called when OUR call has ended: the other response must still be protected; then its client reads on"""
    loop = lab.loop
    t0, tr0, proto0 = other
    ms = st.ms
    if not stopped:
        if t0.done() or len(ms.streaming_responses) != 1 or not ms.streaming.is_set():
            ctx.violation('other-response-unprotected', f'{what}: when the call ended the other response was '
                          f'{"ended" if t0.done() else "alive"}, streaming_responses holds {len(ms.streaming_responses)}, streaming event '
                          f'{"set" if ms.streaming.is_set() else "CLEAR"} (the delayed stop may now fire under the other player)', replay)
    if proto0._paused:  # pylint: disable=protected-access
        proto0.resume_writing()
    loop.drain(stop=t0.done, until=loop.time() + 5, limit=400000)
    o0 = Obs(lab, t0, tr0)
    if not stopped:
        est = sum(n - 1 for n in st.lengths[:-1])
        want = st.data + b'\x00' * (est - st.size)
        if o0.kind != 'returned' or o0.cl != est or o0.wire[:est] != want:
            ctx.violation('other-response-damaged', f'{what}: the other request (whole file) ended with {o0.brief()}', replay)
    elif o0.kind == 'pending':
        ctx.violation('stream_file-never-ends', f'{what}: the other request has not ended after stop_tasks', replay)


def leg_cuts(ctx):
    c = consts('real', 'cuts', emit=True)
    res, _ = run_model(ctx, 'real-cuts', c, ASFOUND_INVS, 'RangeStream AS FOUND, real constants, scripted world: 4 stream sizes (1 short blob, 1 full '
                       'blob, 2 full blobs, 3 blobs) x 3-4 ranges x 20 scripted events + absent blobs; emission', emit=True)
    if res.violated:
        return 0
    cases = cases_of(res)
    labs = {}
    stats = collections.Counter()
    drift = collections.Counter()
    for case in sorted(cases, key=lambda x: (x['fsize'], x['miss'], x['cut']['mode'], x['cut']['pt'], x['cut']['at'], x['a'], x['b'])):
        size = case['fsize']
        absent = None
        if case['miss'] >= 0:
            # the model's miss is relative to the first blob the loop reads
            absent = (case['skipb'] if case['res'] == 'ok' else 0) + case['miss']
            if absent >= case['nblobs']:
                absent = 'none'       # the absent blob is beyond the stream: nothing is missing
        keyl = (size, absent)
        if keyl not in labs:
            lab = Lab(ctx, f'lab-cut-{size}-{absent}', False)
            labs[keyl] = (lab, lab.make_stream(size, miss=absent if isinstance(absent, int) else None))
        lab, st = labs[keyl]
        st.ms = lab.new_ms(st)        # a fresh ManagedStream per behaviour: the previous one may be left "running" (D8)
        header = header_text(case)
        cut = case['cut']
        other = start_other(lab, st) if case['others'] else None
        name = f'{cut["mode"]}@{cut["pt"]}{cut["at"] if cut["pt"] in ("wrote", "read", "drain") else ""}' if cut['mode'] != 'none' else f'absent-blob{case["miss"]}'
        what = f'file of {size} bytes, Range {header!r}, {name}'
        replay = {'file_size': size, 'range_header': header, 'event': cut, 'absent_blob': absent, 'model': {'out': case['out'], 'fired': case['fired'],
                                                                                                          'wire': case['wire'], 'running': case['running']}}
        try:
            with watchdog(120):
                o, fired, log, tr = drive_cut(lab, st, case, header)
                if other is not None:
                    finish_other(ctx, lab, st, other, fired and cut['mode'] == 'stop', what, replay)
                settle(lab, st, 14)
        except Hang:
            ctx.violation('stream_file-hangs', f'{what}: no return within 120 s', replay)
            continue
        ctx.count(('cut', size, header, name, case['miss'], case['others']), nontrivial=True)
        stats['behaviours'] += 1
        if other is not None:
            what += ' while another request is being served'
            stats['with_another_request'] += 1
        stats[f'{cut["mode"]}:{o.exc or o.kind}'] += 1
        replay['real'] = dict(o.brief(), fired=fired, log=log)
        if o.kind == 'pending':
            ctx.violation('stream_file-never-ends', f'{what}: the call has not ended after 400 virtual seconds', replay)
            continue
        mid_body = o.hsent
        ok, lo = check_clean(ctx, lab, st, what, replay)
        # the model's prediction
        okM, whyM = meets_model(o, case, st)
        if okM and fired != case['fired']:
            okM, whyM = False, f'model: event fired = {case["fired"]}, real: {fired}'
        running = st.ms._running.is_set()  # pylint: disable=protected-access
        if okM and running != case['running']:
            okM, whyM = False, f'model: running = {case["running"]} when all is quiet, real: {running}'
        if not okM:
            drift[f'{name}: {whyM}'[:140]] += 1
        if running:
            stats['left_running_D8'] += 1
            if mid_body:
                ctx.violation('stream-left-running-after-disconnect', f'{what}: _running still set and no delayed-stop task 14 s after the call ended', replay)
        if stats['behaviours'] % 40 == 3:
            ctx.sample({'file_size': size, 'range': header, 'event': name, 'real': replay['real'], 'leftovers': lo, 'model_out': case['out']}, cap=20)
    for (lab, st) in labs.values():
        lab.env.close()
    if drift:
        print(f'NOTE: {sum(drift.values())} scripted behaviour(s) end differently from the model (no clean-up clause broken): '
              f'{dict(drift.most_common(6))}', flush=True)
    ctx.cov['spec_drift_cuts'] = dict(drift)
    if stats['left_running_D8']:
        print(f'NOTE: {stats["left_running_D8"]} behaviour(s) cancelled inside start() before the header block leave _running set with no '
              f'delayed-stop task (D8): the stream is not stopped by inactivity until something calls stop(); outside "mid-body"', flush=True)
    ctx.leg('C-cuts', cases=len(cases), **stats)
    return len(cases)


# ------------------------------------------------------------------------------------------------ the run

def run(ctx):
    reached = leg_a(ctx)
    if reached is False:
        return
    judge = Judge(ctx)

    def leg(f, *a):
        # a machinery problem AFTER violations (the code under test no longer behaves like anything the driver can script)
        # must not turn exit 1 into exit 2
        try:
            return f(ctx, *a) or 0
        except MachineryError as e:
            if not ctx.violations:
                raise
            print(f'NOTE: {f.__name__} stopped after violations were already recorded: {str(e)[:200]}', flush=True)
            return 0
    nb = leg(leg_b_boundary, judge, reached)
    ns = leg(leg_b_syntax, judge)
    nc = leg(leg_cuts)
    missing = [MARKS[k] for k in MARKS if not reached[k]]
    if missing and not ctx.violations:
        raise MachineryError(f'witnesses / refutations never reached in any model run: {missing}')
    if judge.drift:
        print(f'NOTE: the real code differs from the as-found model in {sum(judge.drift.values())} call(s) without breaking the statement: '
              f'{dict(judge.drift.most_common(5))}', flush=True)
    if judge.n['excess_after_content_length']:
        print(f'NOTE: {judge.n["excess_after_content_length"]} of {judge.n["calls"]} real answers are followed by stray bytes after the '
              f'Content-Length body (up to {judge.excess_max} bytes): the final write_eof is not cut (D4); a client framing by '
              f'Content-Length reads the right body and the connection is closed afterwards', flush=True)
    ctx.cov['spec_drift'] = dict(judge.drift)
    ctx.cov['traces_validated_against_impl'] = nb + ns + nc
    ctx.cov['exhaustive'] = True
    ctx.leg('B-real', **{k: v for k, v in judge.n.items()}, excess_max_bytes=judge.excess_max, deviation_classes_reproduced=dict(judge.dev_seen))
    ctx.leg('A', witnesses_and_refutations_reached=[MARKS[k] for k in MARKS if reached[k]])
    ctx.cov['rule'] = (
        'Leg A: every state of RangeStream.tla for the scaled constants (CAP=7, BLOCK=4): every file size x every (a, b) x 5 header forms '
        '(x every claimed size in the plausibility window +-1), as found and as stated; scripted and free world. Leg B: one real call of '
        'ManagedStream.stream_file per finished behaviour TLC emits with the real constants: boundary sizes k*2097151+d (d in +-{0,1,2,15,16,17}, '
        '8, 49), starts {0,1, j*CAP-j-1, j*CAP-j, j*CAP-1, j*CAP, j*CAP+1, size-1, size, size+1, reported-1, reported, reported+1, far beyond}, '
        'ends {absent, 0, a-1, a, a+1, size-1, size, reported-2, reported-1, reported, blob boundary -1/0, next boundary, far beyond}, claims '
        '{none, without size, honest, +-1, implausible}; every token string of the header up to STRLEN; 10^30-sized numbers for "beyond". '
        'Leg C: every scripted event x 4 stream shapes x 3-4 ranges. Distinct = distinct (size, claim, header text[, event]); non-trivial = '
        'answered 206 by the model / header of at least 3 tokens / any scripted event.')
    ctx.assumptions += [
        'aiohttp is the environment: its real Request, StreamResponse and StreamWriter (3.14 here, 3.7.4 pinned upstream: same write / '
        'write_eof cutting rule) run over a fake transport and a BaseProtocol; the HTTP parser and the server loop are not in the picture',
        'the player frames the body by Content-Length: the judged body is the first Content-Length bytes after the header block; bytes '
        'written after them (D4) are reported as a NOTE',
        'all blobs are local and verified (the only absent blob is the scripted one; nobody serves it); the blob exchange is G04/C10',
        'one request at a time per ManagedStream; stop_tasks is the only concurrent caller modelled; the LRU cache of decrypted blobs '
        '(every second stream runs with blob_lru_cache_size=32) is G09',
        'NUL bytes between the real and the reported size are the code\'s documented behaviour (upstream tests), not a violation (D6)',
        'a cancellation before the header block is sent is outside "mid-body": _running left set (D8) is reported as a NOTE',
        'streams are the ones this SDK publishes: every content blob but the last carries exactly MAX_BLOB_SIZE - 1 plaintext bytes '
        '(LayoutLaw, bound to the real publisher for every size used); the arithmetic of _prepare_range_response_headers relies on it, '
        'a foreign descriptor with short inner blobs is outside the statement',
        'saving to a file at the same time (file_output_task) is not modelled',
    ]
