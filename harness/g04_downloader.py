"""G04 (growth) -- multi-peer blob download: BlobDownloader.download_blob over the real blob-exchange client.

Leg A: specs/Downloader.tla exhaustively (MCDownloader instances): populations of 2-4 peers over 11 kinds x arrival orders x
       response timings x ban expiry x close / cancel / server closing a kept connection; the clauses of the statement as
       invariants, action properties and liveness under weak fairness; reachability witnesses; the clauses the code is
       known to break refuted in the model of the code as found (and holding in the repaired variants BANDROPS /
       CLOSECANCELS); negative controls (no ban, cap ignored, losers not cancelled, shared announced length).
Leg C: the REAL BlobDownloader + request_blob + BlobExchangeClientProtocol + BlobManager under the deterministic loop;
       loop.create_connection maps every peer address to a scripted server behaviour or to a real BlobServerProtocol
       over a second real BlobManager; seeded schedules (kinds, arrival order and times, latencies, cap, 1-3 blobs, length
       known or not, early close / cancel, final close); every run is recorded (loop passes with the public dictionaries,
       request start / end with outcome, connections opened / closed, header / last byte deliveries, tasks left) and judged
       by TLC against DownloaderTrace.tla, which replays the record THROUGH THE ACTIONS of Downloader.tla and compares the
       public state of the real object with the specification's state after every event.
Leg B: the complete space of small schedules enumerated by TLC (DownloaderSched.tla: kinds x arrival ticks x delays x
       cap x length known x stop), each replayed on the real downloader: completion as the specification predicts, and the
       recorded run judged like those of Leg C.
Findings are reported under specific keys (known_findings.json: KNOWN-FINDING, exit 0); nothing in /repo is repaired."""
import asyncio
import hashlib
import json
import os
import shutil

from . import tlc
from .common import MachineryError, watchdog
from .detloop import FakeTransport

ADDRESS = 'bQEaw42GXsgCAGio1nxFncJSyRmnztSCjP'
PORT = 3333


# ------------------------------------------------------------------------------------------------ the fake network

class Endpoint(FakeTransport):
    """one end of a fake TCP connection; bytes written are delivered to the protocol at the other end after the link's
    latency (server->client additionally chunked and paced); close() reaches the other end as connection_lost"""

    def __init__(self, loop, proto, peername, link, side):
        super().__init__(loop, proto, peername=peername)
        self.link = link
        self.side = side

    def write(self, data):
        if self.closing or not data:
            return
        self.link.send(self.side, bytes(data))

    def close(self):
        if self.closing:
            return
        super().close()
        self.link.closed(self.side)


class Link:
    def __init__(self, net, pid, spec):
        self.net, self.loop, self.pid, self.spec = net, net.loop, pid, spec
        self.end = {}          # side -> Endpoint
        self.escaped = []
        self.next_free = 0.0   # pacing of the server->client direction
        self.writes = 0        # server writes since the last client request (1st = response header, 2nd = blob bytes)

    def other(self, side):
        return self.end['server' if side == 'client' else 'client']

    def send(self, side, data):
        lat = self.spec.get('latency', 0.01)
        if side == 'client':
            self.writes = 0
            self.loop.call_later(lat, self._deliver, 'server', data, None)
            return
        self.writes += 1
        chunk = (self.spec.get('chunk') or len(data)) if self.writes >= 2 else len(data)      # the header is never cut
        gap = self.spec.get('gap', 0.0)
        t = max(self.loop.time() + lat, self.next_free)
        pieces = []       # (time, bytes): paced chunks, each handed over in pieces of at most 64 KiB as a transport does
        for i in range(0, len(data), chunk):
            part = data[i:i + chunk]
            pieces += [(t, part[j:j + 65536]) for j in range(0, len(part), 65536)]
            t += gap
        for n, (when, piece) in enumerate(pieces):
            mark = 'hdr' if (self.writes == 1 and n == 0) else 'last' if (self.writes == 2 and n == len(pieces) - 1) else None
            self.loop.call_at(when, self._deliver, 'client', piece, mark)
        self.next_free = t

    def _deliver(self, side, data, mark):
        ep = self.end[side]
        if ep.closing:
            return
        if mark:
            self.net.rec(mark, p=self.pid)
        try:
            with watchdog(30):
                ep.protocol.data_received(data)
        except Exception as e:  # pylint: disable=broad-except
            # what a selector transport does with a raising data_received: fatal error, connection closed
            self.escaped.append(type(e).__name__)
            self.net.escaped.append((self.pid, side, type(e).__name__))
            ep.closing = True
            ep.lost_called = True
            ep.protocol.connection_lost(e)
            self.closed(side)

    def closed(self, side):
        if side == 'client':
            self.net.note_close(self.pid, self)
        o = self.other(side)
        if not o.closing:
            self.loop.call_later(self.spec.get('latency', 0.01), self._peer_closed, o)

    def _peer_closed(self, ep):
        if ep.closing:
            return
        ep.closing = True
        ep.closed_at = self.loop.time()
        if ep.side == 'client':
            self.net.note_close(self.pid, self)
        ep._lost()


class ScriptedServer(asyncio.Protocol):
    """a peer that speaks (or abuses) the blob exchange protocol; one request per data_received"""

    def __init__(self, loop, kind, blobs, spec):
        self.loop, self.kind, self.blobs, self.spec = loop, kind, blobs, spec
        self.transport = None
        self.requests = 0

    def connection_made(self, transport):
        self.transport = transport

    def connection_lost(self, exc):
        self.transport = None

    def header(self, h, length):
        return json.dumps({'available_blobs': [h], 'blob_data_payment_rate': 'RATE_ACCEPTED',
                           'incoming_blob': {'blob_hash': h, 'length': length}}).encode()

    def data_received(self, data):
        try:
            h = json.loads(data).get('requested_blob')
        except ValueError:
            return
        self.requests += 1
        content = self.blobs.get(h)
        k = self.kind
        if k == 'silent':
            return
        if k == 'dropreq':
            return self.transport.close()
        if k == 'garbage':
            return self.transport.write(b'\x00\x01 not json [ \x07\x07')
        if content is None or k == 'nothave':
            return self.transport.write(json.dumps({'available_blobs': [], 'blob_data_payment_rate': 'RATE_ACCEPTED',
                                                    'incoming_blob': {'error': 'BLOB_UNAVAILABLE'}}).encode())
        delay = self.spec.get('resp_delay', 0.0)
        if delay:
            self.loop.call_later(delay, self.answer, h, content)
        else:
            self.answer(h, content)

    def answer(self, h, content):
        if self.transport is None or self.transport.is_closing():
            return
        k = self.kind
        if k in ('honest', 'slow'):
            self.transport.write(self.header(h, len(content)))
            self.transport.write(content)
        elif k == 'tooslow':       # honest bytes, but the second half only after more than blob_download_timeout
            self.transport.write(self.header(h, len(content)))
            self.transport.write(content[:len(content) // 2])
            self.loop.call_later(40.0, lambda: self.transport and self.transport.write(content[len(content) // 2:]))
        elif k == 'corrupt':
            b = bytearray(content)
            b[len(b) // 2] ^= 0x20
            self.transport.write(self.header(h, len(content)))
            self.transport.write(bytes(b))
        elif k == 'wronglen':         # announces 7 bytes more than the blob has (7 less for a blob of the maximum size: the
            # announced length stays a possible one) and sends that many bytes, not the blob's
            body = bytes(b ^ 0x55 for b in content[:64]) + content[64:]
            body = body + b'\x00' * 7 if len(content) + 7 <= 2 * 1024 * 1024 else body[:-7]
            self.transport.write(self.header(h, len(body)))
            self.transport.write(body)
        elif k == 'dropmid':       # right header, half of the bytes (none of a 1-byte blob), then the connection is closed
            self.transport.write(self.header(h, len(content)))
            self.transport.write(content[:len(content) // 2])
            self.transport.close()
        elif k == 'stall':         # right header, half of the bytes, then nothing more
            self.transport.write(self.header(h, len(content)))
            self.transport.write(content[:len(content) // 2])
        else:
            raise MachineryError('unknown peer kind ' + k)


class Net:
    """loop.create_connection for the downloader: (host, port) -> the peer's behaviour"""

    def __init__(self, loop, rec):
        self.loop, self.rec = loop, rec
        self.peers = {}        # (host, port) -> dict(pid, kind, spec, factory)
        self.open = {}         # pid -> number of open client-side transports
        self.links = []
        self.escaped = []
        self.max_open = {}
        self.opened = {}       # pid -> connections ever established

    def add_peer(self, pid, host, kind, spec, factory=None):
        self.peers[(host, PORT)] = {'pid': pid, 'kind': kind, 'spec': spec, 'factory': factory}

    def note_close(self, pid, link):
        if getattr(link, 'counted', False):
            link.counted = False
            self.open[pid] -= 1
            self.rec('conn_close', p=pid)

    async def create_connection(self, protocol_factory, host=None, port=None, **kw):
        peer = self.peers[(host, port)]
        pid, kind, spec = peer['pid'], peer['kind'], peer['spec']
        self.rec('conn_try', p=pid)
        if kind == 'refuse':
            if spec.get('connect_delay'):
                await asyncio.sleep(spec['connect_delay'])
            raise ConnectionRefusedError(f'{host}:{port}')
        if kind == 'blackhole':
            await self.loop.create_future()          # SYNs vanish: only the caller's timeout ends this
        if spec.get('connect_delay'):
            await asyncio.sleep(spec['connect_delay'])
        proto = protocol_factory()
        link = Link(self, pid, spec)
        sproto = peer['factory']() if peer['factory'] else ScriptedServer(self.loop, kind, spec['blobs'], spec)
        cep = Endpoint(self.loop, proto, (host, port), link, 'client')
        sep = Endpoint(self.loop, sproto, ('7.7.7.7', 40000 + len(self.links)), link, 'server')
        link.end = {'client': cep, 'server': sep}
        link.counted = True
        self.links.append(link)
        self.open[pid] = self.open.get(pid, 0) + 1
        self.opened[pid] = self.opened.get(pid, 0) + 1
        self.max_open[pid] = max(self.max_open.get(pid, 0), self.open[pid])
        self.rec('conn_open', p=pid)
        sproto.connection_made(sep)
        proto.connection_made(cep)
        return cep, proto


# ------------------------------------------------------------------------------------------------ one recorded run

def make_content(rng, size):
    c = bytes(rng.getrandbits(8) for _ in range(min(size, 2048)))
    return (c * (size // len(c) + 1))[:size]


class World:
    """a real BlobDownloader (own BlobManager + sqlite storage in scratch dirs) whose TCP connections go to `Net`.
    peers: list of dicts {pid, kind, spec}; kinds 'real' / 'realempty' are real BlobServerProtocol instances over a
    second real BlobManager that holds all blobs / none."""

    def __init__(self, ctx, name, rng, peers, blob_sizes, cap, known_length=True):
        from .lbryenv import StorageEnv
        import lbry.blob_exchange.downloader as dmod
        from lbry.blob_exchange.downloader import BlobDownloader
        from lbry.blob_exchange.server import BlobServerProtocol
        from lbry.dht.peer import make_kademlia_peer
        self.ctx, self.rng, self.name = ctx, rng, name
        self.dir = ctx.mkdir(f'g04-{name}')
        self.env = StorageEnv(os.path.join(self.dir, 'c'), max_connections_per_download=cap)
        os.makedirs(os.path.join(self.dir, 'c'), exist_ok=True)
        self.loop = self.env.loop
        self.cap = cap
        self.ev = []
        self.t0 = self.loop.time()
        self.blobs = []
        for size in blob_sizes:
            c = make_content(rng, size)
            self.blobs.append({'hash': hashlib.sha384(c).hexdigest(), 'content': c, 'length': len(c) if known_length else None})
        self.by_hash = {b['hash']: b['content'] for b in self.blobs}
        self.net = Net(self.loop, self.rec)
        self.loop.create_connection = self.net.create_connection
        self.servers = {}
        self.peers, self.pid_of = {}, {}
        for i, p in enumerate(peers):
            host = f'44.{1 + i // 200}.7.{1 + i % 200}'
            factory = None
            if p['kind'] in ('real', 'realempty'):
                senv = self._server_env(p['kind'])
                factory = (lambda senv=senv: BlobServerProtocol(self.loop, senv.blob_manager, ADDRESS, idle_timeout=30.0, transfer_timeout=60.0))
            spec = dict(p.get('spec') or {})
            spec['blobs'] = self.by_hash
            self.net.add_peer(p['pid'], host, p['kind'], spec, factory)
            kp = make_kademlia_peer(hashlib.sha384(p['pid'].encode()).digest(), host, udp_port=4444, tcp_port=PORT)
            self.peers[p['pid']] = kp
            self.pid_of[kp] = p['pid']
        with self.loop:
            self.queue = asyncio.Queue()
            self.dl = BlobDownloader(self.loop, self.env.config, self.env.blob_manager, self.queue)
        self._dmod, self._orig_rb = dmod, dmod.request_blob
        self._instrument()
        self.consumer = None
        self.last_rb = {}

    def _server_env(self, kind):
        if kind in self.servers:
            return self.servers[kind]
        from .lbryenv import StorageEnv
        d = os.path.join(self.dir, 's-' + kind)
        os.makedirs(d, exist_ok=True)
        senv = StorageEnv(d, loop=self.loop)
        if kind == 'real':
            for b in self.blobs:
                with open(os.path.join(senv.blob_dir, b['hash']), 'wb') as f:
                    f.write(b['content'])
        self.loop.run(senv.blob_manager.setup())
        if kind == 'real':
            for b in self.blobs:
                with self.loop:
                    t = senv.blob_manager.blob_completed(senv.blob_manager.get_blob(b['hash'], len(b['content'])))
                self.loop.drain(stop=t.done, timers=False)
        self.servers[kind] = senv
        return senv

    # ---- recording
    def now(self):
        return int(round((self.loop.time() - self.t0) * 1000))

    def rec(self, e, **kw):
        for i, b in enumerate(getattr(self, 'blobs', ())):          # blob.verified is polled before every observation
            if not b.get('seen_verified') and b['hash'] in self.env.blob_manager.blobs and \
                    self.env.blob_manager.blobs[b['hash']].get_is_verified():
                b['seen_verified'] = True
                self.ev.append({'e': 'verified', 't': self.now(), 'b': i})
        d = {'e': e, 't': self.now()}
        d.update(kw)
        self.ev.append(d)

    def pids(self, it):
        return sorted(self.pid_of[p] for p in it)

    def snap(self):
        dl = self.dl
        return {
            'active': self.pids(dl.active_connections.keys()),
            'done': self.pids(p for p, t in dl.active_connections.items() if t.done()),
            'ignored': {self.pid_of[p]: int(round((w - self.t0) * 1000)) for p, w in dl.ignored.items()},
            'failures': {self.pid_of[p]: n for p, n in dl.failures.items()},
            'scores': {self.pid_of[p]: min(int(s * 1000), 2_000_000_000) for p, s in dl.scores.items()},
            'conns': self.pids(dl.connections.keys()),
            'live': self.pids(p for p, pr in dl.connections.items() if pr.transport is not None and not pr.transport.is_closing()),
            'connfail': self.pids(dl.connection_failures),
            'running': dl.is_running.is_set(),
            'bst': 'none' if self.cur_blob is None else 'verified' if self.cur_blob.get_is_verified() else
                   'none' if self.cur_blob.is_writeable() else 'writing',
        }

    def _instrument(self):
        dl, w = self.dl, self
        orig_req, orig_wait, orig_clean = dl.request_blob_from_peer, dl.new_peer_or_finished, dl.cleanup_active
        real_rb = self._orig_rb

        async def request_blob(loop, blob, address, tcp_port, *a, **kw):
            if loop is not w.loop:
                return await real_rb(loop, blob, address, tcp_port, *a, **kw)
            pid = w.net.peers[(address, tcp_port)]['pid']
            cp = kw.get('connected_protocol')
            w.rec('rb_start', p=pid, reuse=bool(cp and cp.transport and not cp.transport.is_closing()))
            n, proto = await real_rb(loop, blob, address, tcp_port, *a, **kw)
            w.last_rb[pid] = 'keep' if (proto and n) else 'keep0' if proto else 'failn' if n else 'fail0'
            return n, proto
        self._dmod.request_blob = request_blob

        async def request_blob_from_peer(blob, peer, connection_id=0, just_probe=False):
            pid = w.pid_of[peer]
            w.last_rb.pop(pid, None)
            w.rec('req_start', p=pid, b=blob.blob_hash[:6])
            try:
                await orig_req(blob, peer, connection_id, just_probe)
            except asyncio.CancelledError:
                w.rec('req_end', p=pid, out='cancelled', s=w.snap())
                raise
            except Exception as e:  # pylint: disable=broad-except
                w.rec('req_end', p=pid, out='error', exc=type(e).__name__, s=w.snap())
                raise
            w.rec('req_end', p=pid, out=w.last_rb.get(pid, 'early'), s=w.snap())
        dl.request_blob_from_peer = request_blob_from_peer

        async def new_peer_or_finished():
            w.rec('iter', s=w.snap())
            await orig_wait()
            w.rec('wake', s=w.snap())
        dl.new_peer_or_finished = new_peer_or_finished

        def cleanup_active():
            orig_clean()
            w.rec('cleanup', s=w.snap())
        dl.cleanup_active = cleanup_active

    cur_blob = None

    # ---- schedule
    def arrive_at(self, t, pids):
        def put():
            self.rec('arrive', peers=list(pids))
            self.queue.put_nowait([self.peers[p] for p in pids])
        self.loop.call_at(self.t0 + t, put)

    def start_consumer(self, t=0.0, blobs=None, gap=0.0):
        async def consume():
            for i in (blobs if blobs is not None else range(len(self.blobs))):
                b = self.blobs[i]
                self.cur_blob = self.env.blob_manager.get_blob(b['hash'], b['length'])
                self.rec('call', b=i, already=self.cur_blob.get_is_verified(), s=self.snap())
                try:
                    blob = await self.dl.download_blob(b['hash'], b['length'])
                except asyncio.CancelledError:
                    self.rec('cancelled', b=i, s=self.snap())
                    raise
                self.rec('return', b=i, verified=blob.get_is_verified(), good=self.file_good(i), s=self.snap())
                if not blob.get_is_verified():
                    break           # the downloader was closed: a stream reader stops here
                if gap:
                    await asyncio.sleep(gap)

        def go():
            self.consumer = self.loop.create_task(consume())
        self.loop.call_at(self.t0 + t, go)

    def close_at(self, t):
        def do():
            self.rec('close_call', s=self.snap())
            self.dl.close()
            self.rec('close', s=self.snap(), tasks=self.client_tasks())
        self.loop.call_at(self.t0 + t, do)

    def cancel_at(self, t):
        def do():
            if self.consumer and not self.consumer.done():
                self.rec('cancel', s=self.snap())
                self.consumer.cancel()
        self.loop.call_at(self.t0 + t, do)

    def file_good(self, i):
        b = self.blobs[i]
        path = os.path.join(self.env.blob_dir, b['hash'])
        if not os.path.isfile(path):
            return 'none'
        with open(path, 'rb') as f:
            return 'good' if f.read() == b['content'] else 'bad'

    def client_tasks(self):
        """unfinished tasks that belong to the downloading side (product coroutines of blob_exchange / the sleep of
        new_peer_or_finished), by coroutine name"""
        out = []
        for t in asyncio.all_tasks(self.loop):
            if t.done():
                continue
            co = t.get_coro()
            qn = getattr(co, '__qualname__', '')
            code = getattr(co, 'cr_code', None)
            fn = code.co_filename if code else ''
            if 'blob_exchange/server' in fn or 'storage' in fn or 'consume' in qn or 'ConnectionManager' in qn:
                continue
            if 'World._instrument.<locals>.request_blob_from_peer' in qn:
                qn = 'request_blob_from_peer'
            elif 'World._instrument.<locals>.request_blob' in qn:
                continue        # the recording shim around request_blob: the inner task is counted
            out.append(qn)
        return sorted(out)

    def run(self, until, limit=3_000_000):
        with watchdog(120):
            self.loop.drain(jobs=True, timers=True, limit=limit, until=self.t0 + until)

    def settle(self):
        with watchdog(60):
            self.loop.drain(jobs=True, timers=False, limit=500_000)

    def close(self):
        self._dmod.request_blob = self._orig_rb
        try:
            for t in asyncio.all_tasks(self.loop):
                t.cancel()
            self.loop.drain(jobs=True, timers=False, limit=200_000)
        except Exception:  # pylint: disable=broad-except
            pass
        self.env.close()
        for s in self.servers.values():
            s.close()
        shutil.rmtree(self.dir, ignore_errors=True)


# ------------------------------------------------------------------------------------------------ scenarios (Leg C)

TICK = 0.25            # every delay of the fake network and of the schedule is a multiple of this (TPS = 4 in the trace spec)
TPS = 4
UNIVERSE = [f'p{i}' for i in range(1, 17)]
SPEC_KIND = {'honest': 'honest', 'real': 'honest', 'slow': 'honest', 'realempty': 'nothave', 'nothave': 'nothave',
             'silent': 'silent', 'refuse': 'refuse', 'blackhole': 'blackhole', 'corrupt': 'corrupt', 'wronglen': 'wronglen',
             'stall': 'stall', 'tooslow': 'stall', 'dropreq': 'dropreq', 'dropmid': 'dropmid', 'garbage': 'garbage'}
HOLDERS = ('honest', 'real', 'slow')
HOSTILE = ['silent', 'refuse', 'blackhole', 'corrupt', 'wronglen', 'stall', 'tooslow', 'nothave', 'realempty', 'garbage']
DROPS = ['dropreq', 'dropmid']
TRACE_EVENTS = {'arrive', 'call', 'verified', 'iter', 'req_start', 'conn_open', 'conn_close', 'hdr', 'last', 'req_end', 'cleanup', 'return',
                'cancel', 'cancelled', 'close_call', 'close', 'end'}


def ticks(rng, lo, hi):
    return rng.randint(lo, hi) * TICK


def peer_spec(rng, kind, size):
    spec = {'latency': ticks(rng, 1, 2), 'connect_delay': ticks(rng, 0, 4)}
    if kind == 'refuse':
        spec['connect_delay'] = ticks(rng, 0, 2)
    if kind in ('slow', 'real') and size > 4:
        n = rng.choice([2, 4, 8])
        spec['chunk'] = max(1, -(-size // n))
        spec['gap'] = ticks(rng, 1, 8) if kind == 'slow' else ticks(rng, 0, 1)
    if kind in ('honest', 'corrupt', 'wronglen', 'dropmid', 'stall') and rng.random() < 0.3:
        spec['resp_delay'] = ticks(rng, 1, 12)
    return spec


def make_scenario(rng, k, thorough):
    """a seeded schedule: population, cap, blobs, arrival batches, optional early close / cancel"""
    shape = rng.choice(['mixed', 'mixed', 'mixed', 'race', 'noholder', 'cap', 'drops', 'lateholder', 'stop', 'liar'])
    cap = rng.choice([1, 2, 2, 3, 4])
    sizes = [rng.choice([1, 300, 5000, 70_000])] * 1
    nblobs = rng.choice([1, 1, 2, 3])
    sizes = [rng.choice([1, 300, 5000, 70_000]) for _ in range(nblobs)]
    if thorough and k % 50 == 17:
        sizes[0] = 2 * 1024 * 1024
    kinds = []
    if shape == 'mixed':
        n = rng.randint(2, 7)
        kinds = [rng.choice(HOLDERS)] + [rng.choice(HOSTILE + list(HOLDERS)) for _ in range(n - 1)]
    elif shape == 'race':
        n = rng.randint(2, 6)
        kinds = [rng.choice(HOLDERS) for _ in range(n)] + [rng.choice(HOSTILE)]
    elif shape == 'noholder':
        kinds = [rng.choice(HOSTILE) for _ in range(rng.randint(1, 5))]
    elif shape == 'cap':
        cap = 1
        n = rng.randint(11, 14)
        kinds = [rng.choice(['silent', 'silent', 'stall', 'blackhole', 'honest', 'slow']) for _ in range(n)]
        kinds[rng.randrange(n)] = 'honest'
    elif shape == 'drops':
        kinds = [rng.choice(HOLDERS)] + [rng.choice(DROPS) for _ in range(rng.randint(1, 2))] + [rng.choice(HOSTILE) for _ in range(rng.randint(0, 2))]
        cap = max(cap, 3)
    elif shape == 'lateholder':
        kinds = [rng.choice(HOSTILE) for _ in range(rng.randint(1, 4))] + [rng.choice(HOLDERS)]
    elif shape == 'stop':
        kinds = [rng.choice(HOLDERS + ('silent', 'blackhole', 'slow', 'slow')) for _ in range(rng.randint(1, 5))]
    elif shape == 'liar':       # a blob of unknown length (sd blob), a peer that announces a wrong length, honest holders
        kinds = ['wronglen'] + [rng.choice(HOLDERS) for _ in range(rng.randint(1, 2))] + [rng.choice(HOSTILE) for _ in range(rng.randint(0, 2))]
    lenknown = shape != 'liar' and rng.random() > 0.15
    if shape not in ('lateholder',):
        rng.shuffle(kinds)
    kinds = kinds[:len(UNIVERSE)]
    peers = [{'pid': UNIVERSE[i], 'kind': kd, 'spec': peer_spec(rng, kd, max(sizes))} for i, kd in enumerate(kinds)]
    # arrivals: batches at tick multiples; duplicates now and then
    pids = [p['pid'] for p in peers]
    arrivals = []
    if shape == 'lateholder':
        arrivals.append((0.0, pids[:-1]))
        arrivals.append((ticks(rng, 4, 160), [pids[-1]]))
    else:
        rest = list(pids)
        t = 0.0
        while rest:
            n = rng.randint(1, len(rest))
            arrivals.append((t, rest[:n]))
            rest = rest[n:]
            t += ticks(rng, 0, 24)
    if rng.random() < 0.3:
        arrivals.append((ticks(rng, 0, 40), [rng.choice(pids)]))       # a peer found again
    last_arrival = max(t for t, _ in arrivals)
    early = None
    if shape == 'stop' or rng.random() < 0.1:
        early = (rng.choice(['close', 'cancel']), ticks(rng, 1, 30))
    n_hold = sum(1 for kd in kinds if kd in HOLDERS)
    n_drop = sum(1 for kd in kinds if kd in DROPS)
    # when the run is stopped for good: time for every blob even if each pass of `cap` peers first wastes its timeouts
    rounds = -(-len(kinds) // max(1, cap)) + 1
    horizon = last_arrival + (45.0 * rounds + 40.0) * (len(sizes) if n_hold else 1)
    if not n_hold:
        horizon = last_arrival + (20.0 if n_drop else 75.0)
    if n_drop and n_hold:
        horizon = min(horizon, last_arrival + 120.0)
    if shape == 'liar':
        horizon = last_arrival + 60.0
    expect = list(range(1, len(sizes) + 1)) if (n_hold and early is None and n_drop < cap) else []
    return {'k': k, 'shape': shape, 'cap': cap, 'lenknown': lenknown, 'sizes': sizes, 'peers': peers, 'arrivals': arrivals, 'early': early,
            'stop_at': horizon, 'expect': expect}


def run_scenario(ctx, sc, rng):
    w = World(ctx, f"s{sc['k']}", rng, sc['peers'], sc['sizes'], sc['cap'], known_length=sc.get('lenknown', True))
    try:
        for t, pids in sc['arrivals']:
            w.arrive_at(t, pids)
        w.start_consumer(0.0)
        if sc['early']:
            (w.close_at if sc['early'][0] == 'close' else w.cancel_at)(sc['early'][1])
        w.close_at(sc['stop_at'])                       # StreamDownloader.stop()
        budget = 400_000            # an ordinary run takes < 40 000 loop steps: more means spinning without time passing
        try:
            w.run(sc['stop_at'] + 70.0, limit=budget)
            w.settle()
            w.rec('end', s=w.snap(), tasks=w.client_tasks(), open=sum(w.net.open.values()))
            hung = None
        except Exception as e:  # pylint: disable=broad-except
            if type(e).__name__ not in ('BudgetExceeded', 'Hang'):
                raise
            hung = f'{type(e).__name__}: {e}'
        ev = []
        for e in w.ev:
            if e['e'] not in TRACE_EVENTS:
                continue
            e = dict(e)
            if e['e'] in ('close', 'end'):
                e['tasks'] = len(e['tasks'])
            ev.append(e)
        rec = {'cap': sc['cap'], 'lenknown': bool(sc.get('lenknown', True)), 'kind': {p['pid']: SPEC_KIND[p['kind']] for p in sc['peers']}, 'expect': sc['expect'], 'ev': ev}
        info = {'k': sc['k'], 'shape': sc['shape'], 'cap': sc['cap'], 'lenknown': sc.get('lenknown', True), 'sizes': sc['sizes'],
                'kinds': {p['pid']: p['kind'] for p in sc['peers']}, 'specs': {p['pid']: p['spec'] for p in sc['peers']},
                'arrivals': sc['arrivals'], 'early': sc['early'], 'stop_at': sc['stop_at'], 'expect': sc['expect'],
                'hung': hung, 'steps': w.loop.steps, 'events': len(ev), 'end_tasks': [e['tasks'] for e in w.ev if e['e'] in ('close', 'end')], 'max_open': dict(w.net.max_open), 'opened': dict(w.net.opened),
                'escaped': list(w.net.escaped), 'loop_exceptions': [str(c.get('exception') or c.get('message'))[:200] for c in w.loop.exceptions][:5],
                'files': [w.file_good(i) for i in range(len(sc['sizes']))],
                'verified': [bool(w.env.blob_manager.get_blob(b['hash'], b['length']).get_is_verified()) for b in w.blobs]}
        return rec, info
    finally:
        w.close()


# ------------------------------------------------------------------------------------------------ TLC judge

TRACE_CONSTS = dict(PROBEF=10, TPS=TPS, CONNTO=3 * TPS, DLTO=30 * TPS, BANMAX=30, FMAX=6, NBLOBS=3, UNIT=1000,
                    BAN=True, BANDROPS=False, CAPPED=True, CANCELLOSERS=True, CLOSECANCELS=False, PERCONN=True, EXT=1_000_000, ENVFAIR=False)
TINVS = ['TRefines', 'TBoundedConcurrency', 'TOnePerPeer', 'THonestKeepsConnection', 'TNeverUnverified', 'TCancelsLosers',
         'TNoBusyLoop', 'TQuiescent', 'TCompletes']
FLAG_KEYS = {'FailedIsShunned': 'peer-that-closes-the-connection-is-never-banned',
             'CloseLeavesNothing': 'close-leaves-requests-running',
             'NoTransferAfterStop': 'close-leaves-requests-running',
             'Completes': 'wrong-length-reply-on-unknown-length-blob-starves-honest-holder'}


def trace_cfg(consts=None):
    c = dict(TRACE_CONSTS)
    c.update(consts or {})
    c['CAPS'] = set()
    lines = ['SPECIFICATION TSpec', 'CONSTANTS', '  PEERS = {' + ', '.join(f'"{p}"' for p in UNIVERSE) + '}', '  POPS = {}', '  LENS = {}', '  SCORES <- Nat']
    lines += [f'  {k} = {tlc.tla_value(v)}' for k, v in c.items()]
    lines += [f'INVARIANT {i}' for i in TINVS]
    lines += ['CONSTRAINT Reached', 'POSTCONDITION Report', 'CHECK_DEADLOCK FALSE']
    return '\n'.join(lines) + '\n'


def judge(ctx, recs, label='DownloaderTrace', consts=None, chunk=400):
    """recs -> list of verdict dicts {accepted, matched, len, invariant, inv_event, drift, flags}"""
    import re
    verdicts = [None] * len(recs)
    for cap, idx in [('', list(range(len(recs))))]:
        for base in range(0, len(idx), chunk):
            part = idx[base:base + chunk]
            path = os.path.join(ctx.mkdir('traces'), f'{label}-{base}.json')
            with open(path, 'w') as f:
                json.dump([recs[i] for i in part], f)
            res = tlc.run('DownloaderTrace', trace_cfg(consts), ctx, workers=1, coverage=False, env={'TRACE_FILE': path},
                          timeout=1500, label=f'{label}-{base}', cont=True)
            ctx.add_tlc(res, f'{label} traces [{base}:{base + len(part)}]')
            seen = {}
            for ln in res.printed:
                m = re.match(r'^<<"TRACE", (\d+), "(accepted|rejected)", (-?\d+), (\d+)>>', ln)
                if m:
                    seen[int(m.group(1))] = {'accepted': m.group(2) == 'accepted', 'matched': int(m.group(3)), 'len': int(m.group(4)),
                                             'invariant': None, 'inv_event': None, 'drift': None, 'flags': []}
            for ln in res.printed:
                m = re.match(r'^<<"FLAG", (\d+), "(\w+)">>', ln)
                if m and int(m.group(1)) in seen:
                    seen[int(m.group(1))]['flags'].append(m.group(2))
            if len(seen) != len(part):
                raise MachineryError(f'trace validation {label}: {len(seen)} verdicts for {len(part)} traces\n{res.out[-3000:]}')
            if res.violated:
                for blk in re.split(r'Error: Invariant ', res.out)[1:]:
                    name = blk.split(' ', 1)[0]
                    mt = re.findall(r'/\\ tid = (\d+)', blk)
                    if not mt:
                        continue
                    tid = int(mt[-1])
                    if tid in seen and seen[tid]['invariant'] is None:
                        ml = re.findall(r'/\\ l = (\d+)', blk)
                        md = re.findall(r'/\\ drift = "([^"]*)"', blk)
                        seen[tid].update(invariant=name, inv_event=(int(ml[-1]) - 2 if ml else None), drift=(md[-1] if md else None))
            for j, i in enumerate(part):
                verdicts[i] = seen[j + 1]
    return verdicts


# ------------------------------------------------------------------------------------------------ Leg A

SAFETY = ['TypeOK', 'BoundedConcurrency', 'HonestKeepsConnection', 'NeverUnverified', 'CancelsLosers', 'NoBusyLoop']
ACTIONP = ['CapWhenKept', 'NoRetryWhileBanned', 'BanOnlyExpires']
LIVE = ['Completes', 'RequestsEnd']
MODEL = dict(PROBEF=2, TPS=1, CONNTO=1, DLTO=2, BANMAX=2, FMAX=2, NBLOBS=1, UNIT=1, SCORES={2}, BAN=True, BANDROPS=False,
             CAPPED=True, CANCELLOSERS=True, CLOSECANCELS=False, PERCONN=True, EXT=0, ENVFAIR=True)
CORE_ACTIONS = ['Feed', 'Reader', 'Tick', 'Select', 'Wake', 'PostCleanup', 'Return', 'Begin', 'Connected', 'Header', 'LastByte',
                'WriterCallback', 'Verified', 'ConnFail', 'ReqTimeout', 'EndKeep', 'Killed', 'Reject', 'LastBad', 'Bad', 'XferTimeout', 'EndKeep0']


def model_cfg(peers, pops, caps, invariants=(), properties=(), spec='Spec', **over):
    c = dict(MODEL)
    over = dict(over)
    lens = over.pop('LENS', {True})
    c.update(over)
    lines = [f'SPECIFICATION {spec}', 'CONSTANTS', f'  PEERS <- {peers}', f'  POPS <- {pops}', '  CAPS = ' + tlc.tla_value(set(caps)),
             '  LENS = ' + tlc.tla_value(set(lens))]
    lines += [f'  {k} = {tlc.tla_value(v)}' for k, v in c.items()]
    lines += [f'INVARIANT {i}' for i in invariants] + [f'PROPERTY {p}' for p in properties]
    lines.append('CHECK_DEADLOCK FALSE')
    return '\n'.join(lines) + '\n'


def leg_a(ctx):
    W = 8
    # (label, peers, pops, caps, overrides, invariants, properties, liveness?)
    runs = [('quick3', 'P3', 'PopQuick3', {1}, {}, SAFETY + ['FailedIsShunned'], ACTIONP, True)]
    if ctx.thorough:
        runs = [
            ('hostile3', 'P3', 'PopHostile3', {1}, {}, SAFETY + ['FailedIsShunned'], ACTIONP, True),
            ('race3', 'P3', 'PopRace3', {1}, {}, SAFETY + ['FailedIsShunned'], ACTIONP, True),
            ('race3-cap2', 'P3', 'PopRace3', {2}, {}, SAFETY + ['FailedIsShunned'], ACTIONP, False),
            ('noholder3', 'P3', 'PopNoHolder3', {1}, {}, SAFETY, ACTIONP, False),
            ('two-blobs-ext', 'P2', 'PopTwo', {1}, dict(NBLOBS=2, EXT=1), SAFETY, ACTIONP, False),
            ('unknown-length3', 'P3', 'PopSd3', {1}, dict(LENS={False}), SAFETY + ['FailedIsShunned'], ACTIONP, True),
            ('drops3-repaired', 'P3', 'PopDrop3', {2}, dict(BANDROPS=True), SAFETY + ['FailedIsShunned'], ACTIONP, False),
            ('close-repaired', 'P2', 'PopTwo', {1}, dict(EXT=1, CLOSECANCELS=True), SAFETY + ['CloseLeavesNothing', 'NoTransferAfterStop'], [], False),
            ('all2', 'P2', 'PopAll2', {1}, dict(LENS={True, False}), SAFETY, ACTIONP, False),
            ('mix4', 'P4', 'PopMix4', {2}, {}, SAFETY + ['FailedIsShunned'], ACTIONP, False),
        ]
    summary = []
    for label, peers, pops, caps, over, invs, props, live in runs:
        cfg = model_cfg(peers, pops, caps, invs, props + (LIVE if live else []), spec='LiveSpec' if live else 'Spec', **over)
        res = tlc.run('MCDownloader', cfg, ctx, workers=W, timeout=3000, label=f'Downloader-{label}')
        ctx.add_tlc(res, f'Downloader exhaustive {label}: {pops} caps={sorted(caps)} {over}' + (' + liveness' if live else ''))
        if res.violated:
            ctx.violation('model:' + res.violated[0], f'model property {res.violated[0]} violated ({label})', res.error_trace[:8000])
            return False
        if label in ('quick3', 'hostile3'):
            tlc.require_coverage(res, [a for a in CORE_ACTIONS if label != 'quick3' or a not in ('Reject', 'XferTimeout')], f'Downloader-{label}')
        summary.append((label, res.distinct))
    # one single-worker run of the model of the code as found: every reachability witness, and the clauses the code is
    # known to break (refuted in the model just as on the real code), collected through TLC registers
    marks = {}
    if ctx.thorough:
        cfg = model_cfg('P2', 'PopMarks', {1}, [], [], NBLOBS=2, EXT=1).replace('CHECK_DEADLOCK', 'CONSTRAINT Marks\nPOSTCONDITION ReportMarks\nCHECK_DEADLOCK')
        res = tlc.run('MCDownloader', cfg, ctx, workers=1, timeout=3000, label='Downloader-marks')
        ctx.add_tlc(res, 'Downloader exhaustive marks: PopMarks, 2 blobs, one disturbance (close / cancel / server close / repeated call)')
        if res.violated:
            ctx.violation('model:' + res.violated[0], f'model property {res.violated[0]} violated (marks)', res.error_trace[:8000])
            return False
        import re
        marks = dict(re.findall(r'^<<"MARK", "([\w-]+)", (TRUE|FALSE)>>', res.out, re.M))
        missing = [k for k, v in marks.items() if v != 'TRUE']
        if len(marks) < 21 or missing:
            raise MachineryError(f'witnesses / refutations not reached in the marks run: {missing or marks}')
        summary.append(('marks', res.distinct))
    else:
        # quick tier: the antecedents are witnessed by action coverage of the core run (bans, timeouts, losers, kept
        # connections: CORE_ACTIONS) and two of the finding clauses are refuted directly (first violation ends the run)
        for inv, pops, over in (('FailedIsShunned', 'PopMarks', {}), ('NoTransferAfterStop', 'PopMarks', dict(EXT=1))):
            r = tlc.run('MCDownloader', model_cfg('P2', pops, {1}, [inv], **over), ctx, coverage=False, workers=4, timeout=900, label=f'asfound-{inv}')
            if inv not in r.violated:
                raise MachineryError(f'the model of the code as found should refute {inv}')
            marks['not-' + inv] = 'TRUE'
    starve = liar = None
    if ctx.thorough:
        # starvation behind peers that are never banned (liveness face of the first finding)
        r = tlc.run('MCDownloader', model_cfg('P3', 'PopDrop3', {1}, [], ['Completes'], spec='LiveSpec', PROBEF=1), ctx, coverage=False,
                    workers=4, timeout=900, label='asfound-Completes-drops')
        starve = bool(r.violated)
        # negative control for the design of 19ea4a3: with the announced length on the SHARED blob object a wrong-length reply
        # on a blob of unknown length starves the honest holder
        r = tlc.run('MCDownloader', model_cfg('P3', 'PopLiar3', {2}, [], ['Completes'], spec='LiveSpec', LENS={False}, PERCONN=False), ctx, coverage=False,
                    workers=4, timeout=900, label='asfound-Completes-liar')
        liar = bool(r.violated)
        if not (starve and liar):
            raise MachineryError(f'the model of the code as found should refute Completes (drops: {starve}, liar: {liar})')
    controls = [
        ('no-ban', dict(BAN=False), 'NoRetryWhileBanned', 'P3', 'PopCore3', True),
        ('cap-ignored', dict(CAPPED=False), 'BoundedConcurrency', 'P3', 'PopRace3', False),
        ('losers-not-cancelled', dict(CANCELLOSERS=False), 'CancelsLosers', 'P3', 'PopRace3', False),
    ]
    if not ctx.thorough:
        controls = controls[:2]
    for label, over, inv, peers, pops, is_prop in controls:
        cfg = model_cfg(peers, pops, {1}, [] if is_prop else [inv], [inv] if is_prop else [], **over)
        r = tlc.run('MCDownloader', cfg, ctx, coverage=False, workers=4, timeout=900, label=f'control-{label}')
        if inv not in r.violated:
            raise MachineryError(f'negative control {label} should violate {inv}')
    ctx.leg('A', runs=summary, safety=SAFETY, action_properties=ACTIONP, liveness=LIVE,
            witnesses_reached=sorted(k for k in marks if k.startswith('W_')), refuted_as_found=sorted(k for k in marks if k.startswith('not-')),
            completes_refuted_behind_unbanned_peers=starve, completes_refuted_by_wrong_length_on_unknown_length=liar,
            negative_controls=[c[0] for c in controls],
            antecedents_witnessed_by_action_coverage=[a for a in CORE_ACTIONS if ctx.thorough or a not in ('Reject', 'XferTimeout')])
    return True


# ------------------------------------------------------------------------------------------------ Leg B

def sched_scenario(c, k):
    """a case of DownloaderSched.tla as a schedule for run_scenario"""
    n = len(c['kind'])
    peers = []
    for i in range(n):
        kd = c['kind'][i]
        d = c['delay'][i] * TICK
        peers.append({'pid': UNIVERSE[i], 'kind': kd, 'spec': {'latency': TICK, 'connect_delay': d,
                                                               'resp_delay': d if kd in ('honest', 'corrupt', 'wronglen', 'dropmid', 'stall') else 0.0}})
    arrivals = {}
    for i in range(n):
        arrivals.setdefault(c['arrive'][i] * TICK, []).append(UNIVERSE[i])
    return {'k': f'b{k}', 'shape': 'sched', 'cap': c['cap'], 'lenknown': c['lenknown'], 'sizes': [5000], 'peers': peers,
            'arrivals': sorted(arrivals.items()), 'early': None if c['stop'] == 'none' else (c['stop'], c['stopat'] * TICK),
            'stop_at': 45.0, 'expect': [1] if (c['verified'] and c['predicted']) else []}


def leg_b(ctx, recs, infos):
    """every schedule of DownloaderSched.tla replayed on the real downloader"""
    if ctx.thorough:
        consts = dict(NP=3, KINDS={'honest', 'nothave', 'silent', 'refuse', 'corrupt', 'dropreq'}, ARRIVE={0, 6}, DELAY={0, 3}, CAPS={1},
                      LENS={True}, STOPS={'none'})
        extra = [dict(NP=2, KINDS={'honest', 'nothave', 'silent', 'refuse', 'blackhole', 'corrupt', 'wronglen', 'stall', 'dropreq', 'dropmid', 'garbage'},
                      ARRIVE={0, 2, 6}, DELAY={0, 3}, CAPS={1, 2}, LENS={True, False}, STOPS={'none', 'close', 'cancel'})]
    else:
        consts = dict(NP=2, KINDS={'honest', 'nothave', 'silent', 'refuse', 'corrupt', 'dropreq'}, ARRIVE={0, 6}, DELAY={0, 3}, CAPS={1},
                      LENS={True}, STOPS={'none'})
        extra = []
    cases = []
    for c in [consts] + extra:
        res = tlc.run('DownloaderSched', tlc.make_cfg(constants=c, invariants=['HolderDecides'], constraint='Emit'), ctx, workers=1,
                      coverage=False, timeout=900, label=f'DownloaderSched-NP{c["NP"]}')
        ctx.add_tlc(res, f'DownloaderSched: all schedules {c}')
        if res.violated:
            raise MachineryError('DownloaderSched: law on the case space violated')
        got = tlc.printed_json(res, 'CASE')
        if len(got) != res.distinct:
            raise MachineryError(f'DownloaderSched: {len(got)} cases emitted for {res.distinct} states')
        cases += got
    enumerated = len(cases)
    if ctx.thorough:        # both spaces are enumerated in full by TLC; a seeded sample of each is replayed
        head = [c for c in cases if len(c['kind']) == 3]
        rest = [c for c in cases if len(c['kind']) != 3]
        cases = ctx.rng.sample(head, min(len(head), 800)) + ctx.rng.sample(rest, min(len(rest), 600))
    base = len(recs)
    wrong = 0
    for k, c in enumerate(cases):
        rng = ctx.rng
        sc = sched_scenario(c, k)
        if sum(1 for i in infos if i['hung']) >= 5:
            break
        rec, info = run_scenario(ctx, sc, rng)
        info['case'] = c
        recs.append(rec)
        infos.append(info)
        ctx.count(('sched', json.dumps(c, sort_keys=True)), nontrivial=True)
        if c['predicted'] and info['verified'][0] != c['verified']:
            wrong += 1
            ctx.violation('sched:completion-differs-from-specification',
                          f"schedule {c}: the specification says verified={c['verified']}, the real downloader ended with verified={info['verified'][0]}",
                          {'case': c, 'info': info})
    ctx.leg('B', schedules_enumerated=enumerated, schedules_replayed=len(cases), completion_mismatches=wrong)
    return base


# ------------------------------------------------------------------------------------------------ the check

def classify(v, rec):
    if v['invariant'] == 'TRefines':
        return f"refinement:{v['drift'] or 'state'}-differs-from-specification"
    if v['invariant']:
        return 'clause:' + v['invariant'][1:]
    ev = rec['ev'][v['matched']] if v['matched'] < len(rec['ev']) else {'e': 'end'}
    return f"refinement:no-action-of-the-specification-matches-{ev['e']}" + (f"-{ev['out']}" if ev['e'] == 'req_end' else '')


def report(ctx, recs, infos, verdicts, replay_of):
    for i, (v, rec, info) in enumerate(zip(verdicts, recs, infos)):
        rp = {'how': replay_of(i), 'info': info, 'verdict': v}
        if info['hung']:
            ctx.violation('busy-loop:downloader-spins-without-time-passing', f"run {info['k']} ({info['kinds']}): {info['hung']}", rp)
            continue
        if not v['accepted'] or v['invariant']:
            at = v['inv_event'] if v['invariant'] else v['matched']
            near = [{a: b for a, b in e.items() if a != 's'} for e in rec['ev'][max(0, (at or 0) - 4):(at or 0) + 2]]
            ctx.violation(classify(v, rec), f"run {info['k']} shape={info['shape']} cap={info['cap']} kinds={info['kinds']}: "
                          f"{'clause ' + v['invariant'] if v['invariant'] else 'rejected'} at event {at} of {v['len']}; events there: {near}", rp)
        for f in v['flags']:
            ctx.violation(FLAG_KEYS[f], f"run {info['k']} kinds={info['kinds']}: clause {f} of Downloader.tla is false on the real run", rp)
        if any(m > 1 for m in info['max_open'].values()):
            ctx.violation('clause:OnePerPeer', f"run {info['k']}: two connections open to one peer at once: {info['max_open']}", rp)
        if any('no return within' in m for m in info['loop_exceptions']):
            ctx.violation('hang:callback-exceeds-wall-clock-watchdog', f"run {info['k']} kinds={info['kinds']} sizes={info['sizes']}: {info['loop_exceptions']}", rp)
        elif info['loop_exceptions']:
            ctx.violation('request-task-raised', f"run {info['k']} kinds={info['kinds']}: exception escaped a task: {info['loop_exceptions']}", rp)
        for i_b, good in enumerate(info['files']):
            if good == 'bad' or (info['verified'][i_b] and good != 'good'):
                ctx.violation('clause:NeverUnverified', f"run {info['k']}: blob {i_b} verified={info['verified'][i_b]} file={good}", rp)


def run(ctx):
    if ctx.replay:
        with open(ctx.replay) as f:
            how = json.load(f)['replay']['how']
        import random
        if how['leg'] == 'C':
            rng = random.Random(how['seed'] * 100003 + how['k'])
            rec, info = run_scenario(ctx, make_scenario(rng, how['k'], how['thorough']), rng)
        else:
            rec, info = run_scenario(ctx, sched_scenario(how['case'], 'replay'), ctx.rng)
        ctx.count(('replay', info['k']))
        report(ctx, [rec], [info], judge(ctx, [rec], label='replay'), lambda i: how)
        ctx.cov['traces_validated_against_impl'] += 1
        return
    if not leg_a(ctx):
        return
    import random
    recs, infos, hows = [], [], []
    n = 800 if ctx.thorough else 150
    for k in range(n):
        rng = random.Random(ctx.seed * 100003 + k)
        sc = make_scenario(rng, k, ctx.thorough)
        rec, info = run_scenario(ctx, sc, rng)
        recs.append(rec)
        infos.append(info)
        hows.append({'leg': 'C', 'seed': ctx.seed, 'k': k, 'thorough': ctx.thorough})
        if sum(1 for i in infos if i['hung']) >= 5:
            break               # the downloader spins: enough evidence, do not burn the budget
        ctx.count(('C', sc['shape'], sc['cap'], tuple(sorted(info['kinds'].values())), len(sc['sizes']), sc['lenknown'], str(sc['early'])),
                  nontrivial=len(sc['peers']) >= 2)
    ctx.leg('C', runs=len(recs), events=sum(i['events'] for i in infos), shapes=sorted({i['shape'] for i in infos}),
            blobs_delivered=sum(sum(1 for v in i['verified'] if v) for i in infos), runs_expecting_delivery=sum(1 for i in infos if i['expect']))
    nb = len(recs)
    leg_b(ctx, recs, infos)
    for j in range(nb, len(recs)):
        hows.append({'leg': 'B', 'case': infos[j]['case']})
    verdicts = judge(ctx, recs)
    report(ctx, recs, infos, verdicts, lambda i: hows[i])
    ctx.cov['traces_validated_against_impl'] += len(recs)
    ctx.leg('C', accepted=sum(1 for v in verdicts[:nb] if v['accepted'] and not v['invariant']))
    ctx.leg('B', accepted=sum(1 for v in verdicts[nb:] if v['accepted'] and not v['invariant']))
    import collections
    ctx.leg('findings', flagged_runs=dict(collections.Counter(f for v in verdicts for f in v['flags'])))
    esc = sorted({f'{k}:{e}' for i in infos for (_, k, e) in i['escaped']})
    if esc:
        print(f'NOTE: exceptions escaped protocol callbacks (data_received) in {sum(1 for i in infos if i["escaped"])} runs: {esc} '
              '(outside the G04 statement; the connection is closed as a transport would)')
        ctx.leg('C', escaped_callback_exceptions=esc)
    for i in (0, 1, nb, nb + 1):
        if i < len(infos):
            ctx.sample({k: infos[i][k] for k in ('k', 'shape', 'cap', 'kinds', 'sizes', 'arrivals', 'early', 'verified', 'events', 'opened')})
    ctx.cov['rule'] = ('Leg A: all states of Downloader.tla for the listed populations (3-4 peers of 11 kinds, cap 1-2, 1-2 blobs, one or two outside '
                       'disturbances), safety + action properties + liveness under weak fairness, reachability witnesses, the clauses the code '
                       'breaks refuted in the model of the code as found, negative controls. Leg C: seeded schedules (10 shapes: mixed, race, no '
                       'holder, cap, drops, late holder, stop, liar ...; 1-14 peers of 15 behaviours incl. real BlobServerProtocol over a second '
                       'BlobManager; 1-3 blobs of 1 B..70 kB (2 MiB in thorough); arrival batches, duplicates, early close / cancel, final '
                       'close) on the real BlobDownloader under virtual time; Leg B: every schedule of DownloaderSched.tla. Every run is replayed '
                       'by TLC through the actions of Downloader.tla (DownloaderTrace.tla): an event no action allows, or a public dictionary that '
                       'differs from the specification state, is a violation; the clauses are invariants on the replayed states. '
                       'Distinct = distinct (shape, cap, multiset of kinds, blobs, length known, early stop) / distinct schedule.')
    ctx.assumptions += ['TCP is replaced by a fake network (fixed latencies that are multiples of 250 ms, chunked pacing, refusal, black hole, close); '
                        'a raising data_received closes the connection as a selector transport does',
                        'time is virtual: sleep(1), peer_connect_timeout 3 s, blob_download_timeout 30 s, ban min(30, failures^2) s are exact',
                        'observation through public attributes of BlobDownloader (active_connections, ignored, failures, scores, connections, '
                        'connection_failures, is_running), blob.get_is_verified / is_writeable, and by wrapping the instance methods '
                        'request_blob_from_peer / new_peer_or_finished / cleanup_active and the module-level name request_blob (recording only)',
                        'peer identity = KademliaPeer equality; one address per peer']
