"""G12 -- money the daemon spends on its own: wallet-server fees (WalletServerPayer) and key-fee purchases
(ExchangeRateManager.to_dewies, WalletManager.create_purchase_transaction, FileManager.download_from_uri).

Part 1  specs/ServerPayer.tla: the pay loop, one action per await point, the server's features a nondeterministic choice
        from a catalogue (fee TEXTS parsed in TLA+ with the lbc_to_dewies grammar; address classes), lock state and funds
        changing between periods, broadcast accepted / refused / timed out / disconnected / accepted but never seen, stop()
        at every await point.
        Leg A: exhaustive TLC, reference model (all clauses + liveness), as-found model (PARSEDIES / REFUSEDIES: every
               clause except KeepsRunning holds, KeepsRunning is violated), negative controls, reachability witnesses.
        Leg B: TLC-generated behaviours (every one-period behaviour by exhaustive emission, multi-period behaviours by
               -simulate) replayed on the REAL WalletServerPayer over a real Ledger / sqlite Database / Wallet (WalletEnv)
               under DetLoop and virtual time with a scripted network object; per period the observation (on_payment values
               and errors, transaction handed to broadcast: who gets how much, reservations left, task alive, clock) must
               equal what the model says.
Part 2  specs/FeeConvert.tla: see leg_convert.
"""
import asyncio
import json
import os
import shutil
from binascii import unhexlify
from concurrent.futures import ThreadPoolExecutor

from . import tlc
from .common import MachineryError, watchdog

LEVEL = 'model_checking'

# ------------------------------------------------------------------------------------------------ ServerPayer: Leg A
SP_INVS = ['TypeOK', 'AtMostOncePerPeriod', 'NeverAboveMaxFee', 'OnlyToValidPubkeyAddress', 'NeverWhileLocked',
           'ReleasesUnbroadcast', 'RefusalReported']
SP_PROPS = ['StopsAtOnce', 'StopFinal', 'PayableIsPaid', 'PeriodEnds']
SP_WITNESSES = {   # witness -> (PARSEDIES, REFUSEDIES) of the model it must be reachable in
    'W_Paid': (True, True), 'W_PaidAtLimit': (True, True), 'W_PaidZero': (True, True), 'W_Dead': (True, True),
    'W_DeadThenNothing': (True, True), 'W_LockedRefused': (True, True), 'W_AboveRefused': (True, True),
    'W_ReleasedAfterLost': (True, True), 'W_RefusedThenPaid': (False, False), 'W_StoppedInBroadcast': (True, True),
    'W_UnseenThenPaid': (True, True), 'W_LockChanges': (True, True),
}
SP_ACTIONS = ['SleepOver', 'Features', 'FeaturesFail', 'CreateOK', 'CreateInsufficient', 'BroadcastOK', 'BroadcastRefused',
              'BroadcastLost', 'WaitSeen', 'WaitTimeout', 'Stop']


def sp_cfg(maxp, invs=(), props=(), parsedies=True, refusedies=True, late=False, nolock=False, norelease=False, emit=False,
           constraint=None):
    return tlc.make_cfg(constants={'MAXP': maxp, 'PARSEDIES': parsedies, 'REFUSEDIES': refusedies, 'LATELIMIT': late,
                                   'NOLOCKCHK': nolock, 'NORELEASE': norelease, 'EMIT': emit},
                        invariants=invs, properties=props, constraint=constraint)


def sp_leg_a(ctx):
    maxp = 2
    res = tlc.run('ServerPayer', sp_cfg(maxp, SP_INVS + ['KeepsRunning'], SP_PROPS, parsedies=False, refusedies=False), ctx,
                  timeout=1500, label='ServerPayer-reference')
    ctx.add_tlc(res, f'ServerPayer reference model (refusals keep the task running), MAXP={maxp}: all clauses + liveness')
    if res.violated:
        ctx.violation('model:reference:' + res.violated[0], f'reference model violates {res.violated[0]}', res.error_trace[:6000])
        return False
    tlc.require_coverage(res, SP_ACTIONS, 'ServerPayer-reference')
    res = tlc.run('ServerPayer', sp_cfg(maxp, SP_INVS, SP_PROPS), ctx, timeout=1500, label='ServerPayer-asfound')
    ctx.add_tlc(res, f'ServerPayer as-found model (PARSEDIES, REFUSEDIES), MAXP={maxp}: all clauses except KeepsRunning + liveness')
    if res.violated:
        ctx.violation('model:asfound:' + res.violated[0], f'as-found model violates {res.violated[0]}', res.error_trace[:6000])
        return False
    tlc.require_coverage(res, SP_ACTIONS, 'ServerPayer-asfound')

    if ctx.thorough:
        # deeper than the exhaustive bound: random walks over 6 periods with every clause checked on every state
        for label, pd in (('reference', False), ('asfound', True)):
            invs = SP_INVS + ([] if pd else ['KeepsRunning'])
            r = tlc.run('ServerPayer', sp_cfg(6, invs, ['StopsAtOnce', 'StopFinal'], parsedies=pd, refusedies=pd), ctx, workers=4,
                        simulate='num=40000', depth=45, seed=ctx.seed + 5, coverage=False, timeout=900, label=f'ServerPayer-walk-{label}')
            ctx.add_tlc(r, f'ServerPayer {label} model, 40000 random walks over MAXP=6 with all clauses')
            if r.violated:
                ctx.violation(f'model:{label}:' + r.violated[0], f'{label} model violates {r.violated[0]} on a random walk', r.error_trace[:6000])
                return False
    jobs = []
    # the finding at model level + negative controls: (label, cfg, must-violate)
    jobs.append(('asfound-KeepsRunning', sp_cfg(2, ['KeepsRunning']), 'KeepsRunning'))
    jobs.append(('neg-latelimit', sp_cfg(2, ['NeverAboveMaxFee'], late=True), 'NeverAboveMaxFee'))
    jobs.append(('neg-nolockcheck', sp_cfg(2, ['NeverWhileLocked'], nolock=True), 'NeverWhileLocked'))
    jobs.append(('neg-norelease', sp_cfg(2, ['ReleasesUnbroadcast'], norelease=True), 'ReleasesUnbroadcast'))
    for w, (pd, rd) in SP_WITNESSES.items():
        jobs.append((w, sp_cfg(2, [w], parsedies=pd, refusedies=rd), w))

    def one(job):
        label, cfg, must = job
        r = tlc.run('ServerPayer', cfg, ctx, coverage=False, timeout=900, label=f'SP-{label}', workers=2)
        return label, must, r
    with ThreadPoolExecutor(max_workers=6) as ex:
        results = list(ex.map(one, jobs))
    for label, must, r in results:
        if must not in r.violated:
            raise MachineryError(f'ServerPayer {label}: {must} is not violated (witness unreachable / negative control fails)')
    ctx.leg('A-ServerPayer', maxp=maxp, invariants=SP_INVS + ['KeepsRunning (reference only)'], properties=SP_PROPS,
            witnesses=sorted(SP_WITNESSES), negative_controls=['LATELIMIT', 'NOLOCKCHK', 'NORELEASE'],
            asfound='KeepsRunning violated with PARSEDIES / REFUSEDIES')
    return True


# ------------------------------------------------------------------------------------------------ ServerPayer: the real class
PERIOD = 1000.0
MAXFEE = '1.0'
FEE_TEXT = {
    'below': '0.5', 'at': '1.0', 'above': '1.00000001', 'huge': '9999999999.9', 'zero': '0.0', 'empty': '',
    'negative': '-0.5', 'nodot': '1', 'nofrac': '1.', 'exponent': '1e-1', 'int11': '12345678901.0', 'dec9': '0.123456789',
    'number': 0.5, 'numzero': 0,
}
FEE_DEWIES = {'below': 50000000, 'at': 100000000, 'zero': 0}
H160 = bytes(range(0x21, 0x35))
GARBAGE = ['garbage', 'bK2xkXQ4Lg4Mh7xEbDcdPxKZbPzpTc2cX9', '0OIl', 'not an address', 'bé']


class _Clock:
    """lbry.wallet.ledger reads time.perf_counter() for the 600 s bound of Ledger.wait: under virtual time it reads the loop"""

    def __init__(self, loop, real):
        self._loop, self._real = loop, real

    def perf_counter(self):
        return self._loop.time()

    def __getattr__(self, name):
        return getattr(self._real, name)


class Net:
    """the scripted wallet server: every call parks on a future the driver resolves"""
    is_connected = True

    def __init__(self, world):
        self.w = world
        self.gate = None
        self.log = []           # (kind, virtual time, argument)

    async def retriable_call(self, f, *a, **k):
        return await f(*a, **k)

    async def _park(self, kind, arg):
        fut = self.w.loop.create_future()
        g = self.gate = (kind, fut, arg)
        self.log.append((kind, self.w.loop.time(), arg))
        try:
            return await fut
        finally:
            if self.gate is g:
                self.gate = None

    def get_server_features(self):
        return self._park('features', None)

    def broadcast(self, raw):
        return self._park('broadcast', raw)


class Prepared:
    """a funded wallet database, prepared once and copied per behaviour"""

    def __init__(self, ctx):
        from .walletenv import WalletEnv, snapshot
        self.dir = ctx.mkdir('g12-prep')
        env = WalletEnv(self.dir)
        env.fund([300000000] * 4)
        env.fund([300000000] * 4)
        self.snap = os.path.join(self.dir, 'snap.db')
        snapshot(env, self.snap)
        env.close()


_PREP = {}


def get_prep(ctx):
    if ctx.tmp not in _PREP:
        _PREP[ctx.tmp] = Prepared(ctx)
    return _PREP[ctx.tmp]


class World:
    def __init__(self, ctx, prep, k):
        import lbry.wallet  # noqa: F401
        import lbry.wallet.ledger as ledger_mod
        from lbry.wallet.usage_payment import WalletServerPayer
        from .walletenv import WalletEnv
        self.dir = ctx.mkdir(f'g12-run-{k % 8}')
        for fn in os.listdir(self.dir):
            os.unlink(os.path.join(self.dir, fn))
        shutil.copyfile(prep.snap, os.path.join(self.dir, 'blockchain.db'))
        self.env = WalletEnv(self.dir)
        self.loop, self.ledger, self.wallet = self.env.loop, self.env.ledger, self.env.wallet
        self._ledger_mod, self._real_time = ledger_mod, ledger_mod.time
        ledger_mod.time = _Clock(self.loop, ledger_mod.time)
        self.net = Net(self)
        self.ledger.network = self.net
        self.wallet.encrypt('pw')
        self.is_locked = False
        self.mine = set(r['address'] for r in self.env.run(self.env.account.get_addresses(read_only=True))) \
            if False else set(self.env.run(self.env.account.get_addresses()))
        self.harness_held = []
        self.sent_unseen = set()   # inputs of transactions the server accepted and sync never reported back
        self.events = []        # ('tx', Transaction) | ('err', exception)
        self.payer = WalletServerPayer(payment_period=PERIOD, max_fee=MAXFEE)
        self.payer.on_payment.listen(lambda tx: self.events.append(('tx', tx)), on_error=lambda e: self.events.append(('err', e)))
        self.t0 = self.loop.time()
        self.env.run(self.payer.start(ledger=self.ledger, wallet=self.wallet))
        self.task = self.payer.task

    # --- environment
    def set_locked(self, want):
        if want and not self.wallet.is_locked:
            with self.loop:
                self.wallet.lock()
        elif not want and self.wallet.is_locked:
            self.env.run(self.wallet.unlock('pw'))
        if self.wallet.is_locked != want:
            raise MachineryError('cannot set the lock state of the wallet')

    def set_funds(self, have):
        if not have and not self.harness_held:
            utxos = self.env.run(self.env.account.get_utxos())
            self.env.run(self.ledger.db.reserve_outputs(utxos))
            self.harness_held = utxos
        elif have and self.harness_held:
            self.env.run(self.ledger.db.release_outputs(self.harness_held))
            self.harness_held = []

    def settle(self):
        with watchdog(60):
            self.loop.drain(timers=False, limit=200000)

    def run_until(self, cond, until):
        with watchdog(60):
            self.loop.drain(limit=400000, until=until, stop=lambda: cond() or self.task.done())
        return cond()

    def parked(self, kind):
        return self.net.gate is not None and self.net.gate[0] == kind

    def held(self):
        """outputs reserved for a transaction that was never sent (not spent, not held by the driver)"""
        q = "select txo.txoid from txo left join txi using (txoid) where txo.is_reserved = 1 and txi.txoid is null"
        rows = self.env.run(self.ledger.db.db.execute_fetchall(q))
        mineheld = {o.id for o in self.harness_held} | self.sent_unseen
        return sorted(r['txoid'] for r in rows if r['txoid'] not in mineheld)

    def deliver(self, tx):
        """what sync does once the server has the transaction: store it, extend the address histories, announce it"""
        from lbry.wallet.ledger import TransactionEvent
        self.env.mark_broadcast(tx)
        addrs = set()
        for txi in tx.inputs:
            if txi.txo_ref.txo is not None:
                addrs.add(self.ledger.hash160_to_address(txi.txo_ref.txo.pubkey_hash))
        for txo in tx.outputs:
            if txo.is_pubkey_hash:
                addrs.add(self.ledger.hash160_to_address(txo.pubkey_hash))
        for a in sorted(addrs & self.mine):
            ph = self.ledger.address_to_hash160(a)
            self.env.run(self.ledger.db.save_transaction_io(tx, a, ph, f'{tx.id}:0:'))
        for a in sorted(addrs & self.mine):
            with self.loop:
                self.ledger._on_transaction_controller.add(TransactionEvent(a, tx))

    def stop(self):
        self.env.run(self.payer.stop())
        self.settle()

    def close(self):
        try:
            if not self.task.done():
                self.task.cancel()
                self.settle()
            if self.task.done() and not self.task.cancelled():
                self.task.exception()
        except BaseException:  # pylint: disable=broad-except
            pass
        self._ledger_mod.time = self._real_time
        self.env.close()


def features_of(rec, rng):
    f = {'server_version': '0.0', 'hosts': {}}
    fee, addr = rec['fee'], rec['addr']
    from lbry.wallet.ledger import Ledger, RegTestLedger
    if fee != 'absent':
        f['daily_fee'] = FEE_TEXT[fee]
    if addr == 'pub':
        f['payment_address'] = Ledger.hash160_to_address(H160)
    elif addr == 'script':
        f['payment_address'] = Ledger.hash160_to_script_address(H160)
    elif addr == 'foreign':
        f['payment_address'] = rng.choice([RegTestLedger.hash160_to_address(H160), '1BoatSLRHtKNngkdXEeobR76b53LETtpyT'])
    elif addr == 'garbage':
        f['payment_address'] = rng.choice(GARBAGE)
    elif addr == 'empty':
        f['payment_address'] = ''
    return f


# ------------------------------------------------------------------------------------------------ ServerPayer: Leg B
ERRNAME = {'e_addr': 'ServerPaymentInvalidAddressError', 'e_locked': 'ServerPaymentWalletLockedError',
           'e_above': 'ServerPaymentFeeAboveMaxAllowedError', 'e_funds': 'InsufficientFundsError'}
FATAL_KEY = {    # outcome of the reference model -> the finding it is, as found
    'x_key': 'features-without-fee-or-address-key-end-the-payer-task',
    'x_addr': 'garbage-payment-address-ends-the-payer-task',
    'x_fee': 'malformed-daily-fee-ends-the-payer-task',
    'bc_refused': 'refused-broadcast-ends-the-payer-task',
}


class Mismatch(Exception):
    def __init__(self, key, what):
        super().__init__(what)
        self.key, self.what = key, what


def _resolve_inputs(w, tx):
    ids = [txi.txo_ref.id for txi in tx.inputs]
    txos = w.env.run(w.ledger.db.get_txos(txoid__in=ids, no_tx=True))
    by = {o.id: o for o in txos}
    for txi in tx.inputs:
        if txi.txo_ref.id in by:
            txi.txo_ref = by[txi.txo_ref.id].ref
    tx.height = 0


def _observe_payment(w, raw, rec, feats):
    """the transaction handed to the network: exactly one output leaves the wallet, to the server's address, of the quoted amount"""
    from lbry.wallet.transaction import Transaction
    tx = Transaction(unhexlify(raw))
    out = []
    for o in tx.outputs:
        if o.is_pubkey_hash and w.ledger.hash160_to_address(o.pubkey_hash) in w.mine:
            continue
        out.append(o)
    want_amount = FEE_DEWIES.get(rec['fee'])
    limit = 100000000
    total = sum(o.amount for o in out)
    if total > limit:
        raise Mismatch('payment-above-max-fee', f'{total} dewies leave the wallet, max_fee is {MAXFEE} LBC (daily_fee {feats.get("daily_fee")!r})')
    if w.wallet.is_locked:
        raise Mismatch('payment-while-locked', 'a transaction was built and handed to broadcast while the wallet is locked')
    if rec['addr'] != 'pub':
        raise Mismatch('payment-to-invalid-address', f'payment to address class {rec["addr"]}: {feats.get("payment_address")!r}')
    if len(out) != 1 or not out[0].is_pubkey_hash or out[0].pubkey_hash != H160:
        raise Mismatch('payment-to-other-address', f'outputs leaving the wallet: {[(o.amount, o.script.source.hex()) for o in out]}')
    if want_amount is None or out[0].amount != want_amount:
        raise Mismatch('payment-of-wrong-amount', f'daily_fee {feats.get("daily_fee")!r}: paid {out[0].amount}, model says {want_amount}')
    return tx


def replay_payer(ctx, prep, hist, k, rng):
    """one TLC behaviour (the per-period records of ServerPayer.tla) on the real class. Returns (periods replayed, fatal key or None)."""
    w = World(ctx, prep, k)
    try:
        return _replay_payer(ctx, w, hist, rng)
    finally:
        w.close()


def _alive(w):
    return not w.task.done() and w.payer.running


def _replay_payer(ctx, w, hist, rng):
    last_call = w.t0
    n = 0
    for rec in hist:
        n += 1
        ev0, log0 = len(w.events), len(w.net.log)
        out = rec['out']

        def expect(cond, key, what):
            if not cond:
                raise Mismatch(key, f'period {n} ({rec}): {what}')

        def after_stop(at):
            t = w.loop.time()
            w.stop()
            expect(w.task.done() and not w.payer.running, 'stop-does-not-end-the-task', f'stop() while in {at}: task still alive')
            w.run_until(lambda: False, t + 3 * PERIOD)
            expect(len(w.net.log) == nlog[0], 'network-call-after-stop', f'stop() while in {at}: later calls {w.net.log[nlog[0]:]}')
            expect(len(w.events) == nev[0], 'on_payment-after-stop', f'stop() while in {at}: later events {w.events[nev[0]:]}')
            expect(not w.held(), 'outputs-left-reserved-after-stop', f'stop() while in {at}: reserved and unspent {w.held()}')

        nlog, nev = [0], [0]
        if rec['stop'] == 'sleep':
            w.settle()
            expect(_alive(w) and w.net.gate is None, 'not-sleeping', 'the task should be asleep')
            nlog[0], nev[0] = len(w.net.log), len(w.events)
            after_stop('sleep')
            return n, None
        # ---- the sleep ends, the features are asked for
        got = w.run_until(lambda: w.parked('features'), w.loop.time() + 3 * PERIOD)
        expect(got, 'no-features-call', f'no get_server_features within 3 periods (task done={w.task.done()})')
        now = w.loop.time()
        expect(len(w.net.log) == log0 + 1 and len(w.events) == ev0, 'activity-during-sleep',
               f'calls {w.net.log[log0:]} events {w.events[ev0:]} before the features call')
        expect(now - last_call >= PERIOD, 'two-rounds-within-one-period',
               f'features asked at {now}, previous round (or start) at {last_call}: less than the payment period {PERIOD}')
        last_call = now
        w.set_locked(rec['locked'])
        if rec['stop'] == 'features':
            nlog[0], nev[0] = len(w.net.log), len(w.events)
            after_stop('features')
            return n, None
        fut = w.net.gate[1]
        feats = None
        if rec['fee'] == 'timeout':
            fut.set_exception(asyncio.TimeoutError())
        elif rec['fee'] == 'disconnect':
            fut.set_exception(ConnectionError('connection lost'))
        else:
            w.set_funds(rec['funds'] != 'no')
            feats = features_of(rec, rng)
            fut.set_result(feats)
        if rec['stop'] == 'create':
            with watchdog(60):
                w.loop.drain(jobs=False, timers=False, limit=200000)
            expect(bool(w.loop.pending_jobs) and _alive(w), 'not-in-create', 'the task should be inside Transaction.create')
            nlog[0], nev[0] = len(w.net.log), len(w.events)
            after_stop('create')
            return n, None
        w.settle()
        # ---- where is the task now
        went = w.parked('broadcast')
        fatal = None
        if out in ('skip', 'f_timeout', 'f_disconnect', 'e_addr', 'e_locked', 'e_above', 'e_funds', 'x_key', 'x_addr', 'x_fee'):
            if went:
                _observe_payment(w, w.net.gate[2], rec, feats)      # names the clause if one is broken
            expect(not went, 'unexpected-payment', f'a transaction was handed to broadcast, the model says {out}')
        else:
            expect(went, 'no-payment', f'no transaction was handed to broadcast, the model says {out}; events {w.events[ev0:]} '
                                       f'task done={w.task.done()}')
            tx = _observe_payment(w, w.net.gate[2], rec, feats)
            expect(len(w.held()) > 0, 'nothing-reserved-while-broadcasting', 'no output is reserved while the broadcast is in flight')
            fut = w.net.gate[1]
            if rec['stop'] == 'broadcast':
                nlog[0], nev[0] = len(w.net.log), len(w.events)
                after_stop('broadcast')
                return n, None
            if rec['bc'] == 'ok':
                fut.set_result(tx.id)
                w.settle()
                if rec['stop'] == 'wait':
                    nlog[0], nev[0] = len(w.net.log), len(w.events)
                    t = w.loop.time()
                    w.stop()
                    expect(w.task.done() and not w.payer.running, 'stop-does-not-end-the-task', 'stop() while waiting: task alive')
                    w.run_until(lambda: False, t + 3 * PERIOD)
                    expect(len(w.net.log) == nlog[0] and len(w.events) == nev[0], 'activity-after-stop', 'calls / events after stop()')
                    return n, None
                if rec['seen'] == 'yes':
                    _resolve_inputs(w, tx)
                    w.deliver(tx)
                    w.run_until(lambda: len(w.events) > ev0, w.loop.time() + 5)
                else:
                    w.sent_unseen |= {txi.txo_ref.id for txi in tx.inputs}
                    w.run_until(lambda: w.parked('features'), w.loop.time() + 700)      # Ledger.wait gives up after 600 s
                    expect(not w.parked('features'), 'two-rounds-within-one-period', 'features asked again within 700 s')
            elif rec['bc'] == 'refused':
                from lbry.wallet.rpc import RPCError
                fut.set_exception(RPCError(-26, 'the server refuses the transaction'))
            elif rec['bc'] == 'timeout':
                fut.set_exception(asyncio.TimeoutError())
            elif rec['bc'] == 'disconnect':
                fut.set_exception(ConnectionError('connection lost'))
            else:
                raise MachineryError(f'behaviour record without a broadcast plan: {rec}')
            w.settle()
        # ---- the observation of the period
        evs = w.events[ev0:]
        kinds = [type(e).__name__ if k == 'err' else 'tx' for k, e in evs]
        alive = _alive(w)
        ctx.count(('payer', rec['fee'], rec['addr'], rec['locked'], rec['funds'], rec['bc'], rec['seen'], rec['stop']))
        if out in FATAL_KEY:
            # reference: an error on on_payment, task keeps running. As found: the task is dead.
            if not alive:
                exc = w.task.exception() if w.task.done() and not w.task.cancelled() else None
                expect(not w.held(), 'outputs-left-reserved', f'task dead and outputs still reserved {w.held()}')
                return n, (FATAL_KEY[out], f'{type(exc).__name__}: {str(exc)[:120]}', feats)
            expect(len(kinds) == 1 and kinds[0] != 'tx', 'refusal-not-reported', f'events {kinds}, expected one error')
        elif out in ERRNAME:
            expect(alive, 'payer-task-died', f'task dead after {out}: {w.task}')
            expect(kinds == [ERRNAME[out]], 'refusal-not-reported', f'events {kinds}, expected [{ERRNAME[out]}]')
        elif out == 'paid':
            expect(alive, 'payer-task-died', f'task dead after a payment: {w.task}')
            expect(kinds == ['tx'], 'payment-not-reported', f'events {kinds}, expected the transaction')
            expect(evs[0][1].id == tx.id, 'payment-not-reported', 'on_payment carried another transaction')
        else:   # skip, f_*, bc_timeout, bc_disconnect, unseen
            expect(alive, 'payer-task-died', f'task dead after {out}: {w.task}')
            expect(kinds == [], 'unexpected-event', f'events {kinds}, expected none')
        expect(not w.held(), 'outputs-left-reserved', f'after {out}: reserved and unspent {w.held()}')
    return n, None


def sp_behaviours(ctx):
    """(a) every behaviour of one period (exhaustive emission, reference model); (b) multi-period behaviours by -simulate"""
    res = tlc.run('ServerPayer', sp_cfg(1, [], [], parsedies=False, refusedies=False, emit=True, constraint='Emit'), ctx,
                  workers=1, coverage=False, timeout=900, label='ServerPayer-emit1')
    ctx.add_tlc(res, 'ServerPayer reference model MAXP=1: every behaviour emitted (Leg B scripts)')
    one = tlc.printed_json(res, 'BEH')
    if len(one) < 150:
        raise MachineryError(f'only {len(one)} one-period behaviours emitted')
    simdir = ctx.mkdir('sp-sim')
    num = 1500 if ctx.thorough else 260
    maxp = 5
    res = tlc.run('ServerPayer', sp_cfg(maxp, [], [], parsedies=False, refusedies=False) + 'ACTION_CONSTRAINT LateStop\n', ctx, workers=1,
                  simulate=f'file={simdir}/tr,num={num}', depth=6 * maxp + 2, seed=ctx.seed + 12, coverage=False, timeout=900,
                  label='ServerPayer-sim')
    ctx.add_tlc(res, f'ServerPayer reference model -simulate num={num} MAXP={maxp} (Leg B scripts)')
    behs = tlc.parse_simulate_dir(simdir, 'tr')
    multi = []
    seen = set()
    for b in behs:
        h = b[-1]['state']['hist']
        h = [dict(r) for r in h]
        key = json.dumps(h, sort_keys=True)
        if h and key not in seen:
            seen.add(key)
            multi.append(h)
    if len(multi) < num // 3:
        raise MachineryError(f'only {len(multi)} distinct simulated behaviours of {num}')
    return one, multi


def sp_leg_b(ctx, one, multi):
    prep = get_prep(ctx)
    rng = ctx.rng
    fatal = {}
    outs = {}
    nper = npaid = 0
    for k, hist in enumerate(one + multi):
        try:
            n, fat = replay_payer(ctx, prep, hist, k, rng)
        except Mismatch as m:
            ctx.violation(m.key, m.what, {'behaviour': hist})
            continue
        nper += n
        for r in hist[:n]:
            outs[r['out']] = outs.get(r['out'], 0) + 1
        npaid += sum(1 for r in hist[:n] if r['out'] == 'paid')
        if fat:
            fatal.setdefault(fat[0], []).append((fat[1], fat[2], hist[:n]))
        if k % 60 == 0:
            ctx.sample({'payer_behaviour': [f"{r['fee']}/{r['addr']}/{'locked' if r['locked'] else 'unlocked'} -> {r['out']}" for r in hist[:n]]})
    # max_fee = '0.0' switches the payer off: start() creates no task, nothing is ever asked of the server
    w = World(ctx, prep, 0)
    try:
        from lbry.wallet.usage_payment import WalletServerPayer
        off = WalletServerPayer(payment_period=PERIOD, max_fee='0.0')
        w.env.run(off.start(ledger=w.ledger, wallet=w.wallet))
        w.env.run(off.stop())
        ctx.count(('payer', 'max_fee=0.0'))
        if off.task is not None or off.running:
            ctx.violation('payer-runs-with-max-fee-zero', "WalletServerPayer(max_fee='0.0').start() created a payment task")
    finally:
        w.close()
    for key, lst in sorted(fatal.items()):
        exc, feats, hist = lst[0]
        ctx.violation(key, f'{len(lst)} behaviours: the payer task ends for good ({exc}) on server features {feats!r}; '
                           f'no later period is ever paid or reported', {'behaviour': hist, 'features': feats})
    need = {'skip', 'e_addr', 'e_locked', 'e_above', 'e_funds', 'paid', 'unseen', 'bc_timeout', 'bc_disconnect', 'f_timeout',
            'f_disconnect', 'stop_sleep', 'stop_features', 'stop_broadcast', 'stop_wait'}
    if not ctx.violations and not need <= set(outs):
        raise MachineryError(f'Leg B never exercised outcomes {sorted(need - set(outs))}')
    ctx.cov['traces_validated_against_impl'] += len(one) + len(multi)
    ctx.leg('B-ServerPayer', behaviours_one_period=len(one), behaviours_multi_period=len(multi), periods=nper, paid_periods=npaid,
            outcomes=outs)



# ------------------------------------------------------------------------------------------------ FeeConvert
FC_LAWS = ['Monotone', 'Identity', 'NeedsRate', 'UnknownRefused', 'HalfUnit', 'WithinLimit', 'BuysTheFee']
FC_WITNESSES = ['W_Above', 'W_BuyUnderUsdLimit', 'W_LimitUnconvertible', 'W_Override', 'W_Tiny', 'W_Tie']


def fc_cfg(invs=(), emit=False, wrongway=False, zeromissing=False):
    return tlc.make_cfg(constants={'EMIT': emit, 'WRONGWAY': wrongway, 'ZEROMISSING': zeromissing}, invariants=invs,
                        constraint='Emit' if emit else None)


def fc_leg_a(ctx):
    res = tlc.run('FeeConvert', fc_cfg(FC_LAWS, emit=True), ctx, workers=1, coverage=False, timeout=900, label='FeeConvert-emit')
    ctx.add_tlc(res, f'FeeConvert: every case (currency x amount x feed configuration [x limit x override x address]) with the laws {FC_LAWS} + emission')
    if res.violated:
        ctx.violation('model:feeconvert:' + res.violated[0], f'FeeConvert law {res.violated[0]} violated in the model', res.error_trace[:5000])
        return None
    cases = tlc.printed_json(res, 'CASE')
    if len(cases) != res.distinct:
        raise MachineryError(f'FeeConvert emitted {len(cases)} cases, TLC found {res.distinct} states')
    jobs = [('neg-wrongway', fc_cfg(['HalfUnit'], wrongway=True), 'HalfUnit'),
            ('neg-zeromissing', fc_cfg(['NeedsRate'], zeromissing=True), 'NeedsRate')]
    jobs += [(w, fc_cfg([w]), w) for w in FC_WITNESSES]

    def one(job):
        label, cfg, must = job
        return label, must, tlc.run('FeeConvert', cfg, ctx, coverage=False, timeout=600, label=f'FC-{label}', workers=2)
    with ThreadPoolExecutor(max_workers=8) as ex:
        for label, must, r in ex.map(one, jobs):
            if must not in r.violated:
                raise MachineryError(f'FeeConvert {label}: {must} is not violated (witness unreachable / negative control fails)')
    ctx.leg('A-FeeConvert', laws=FC_LAWS, witnesses=FC_WITNESSES, negative_controls=['WRONGWAY', 'ZEROMISSING'], cases=len(cases))
    return cases


def _dec(c, s):
    from decimal import Decimal
    return Decimal(c).scaleb(s - 8)


def make_exchange(case):
    """a real ExchangeRateManager whose feeds hold exactly the rates of the case (no network)"""
    import time
    from lbry.extras.daemon.exchange_rate_manager import ExchangeRateManager, MarketFeed, ExchangeRate
    erm = ExchangeRateManager(feeds=())
    feeds = []
    for market, key in (('BTCLBC', 'btc'), ('USDLBC', 'usd')):
        for f in case[key]:
            feed = type('ModelFeed', (MarketFeed,), {'market': market, 'name': 'model'})()
            spot = f['m'] / 16.0 * 10 ** f['sh']
            if f['st'] != 'norate':
                feed.rate = ExchangeRate(market, spot, int(time.time()))
            feed.last_check = time.time() - (100000 if f['st'] == 'offline' else 0)
            feeds.append(feed)
    erm.market_feeds = feeds
    return erm


def _classify(e):
    from lbry.error import CurrencyConversionError, KeyFeeAboveMaxAllowedError, InsufficientFundsError
    if isinstance(e, CurrencyConversionError):
        return 'conversion'
    if isinstance(e, KeyFeeAboveMaxAllowedError):
        return 'above'
    if isinstance(e, InsufficientFundsError):
        return 'insufficient'
    if isinstance(e, ValueError):
        return 'format'
    return 'other:' + type(e).__name__


class Buyer:
    """a real WalletManager over the funded WalletEnv wallet; claims are real Outputs with real Claim protobufs"""

    def __init__(self, ctx):
        import lbry.wallet  # noqa: F401
        from types import SimpleNamespace
        from lbry.wallet.manager import WalletManager
        from .walletenv import WalletEnv
        prep = get_prep(ctx)
        d = ctx.mkdir('g12-buy')
        shutil.copyfile(prep.snap, os.path.join(d, 'blockchain.db'))
        self.env = WalletEnv(d)
        self.ledger = self.env.ledger
        self.env.wallet.accounts  # noqa
        self.wm = WalletManager([self.env.wallet], {type(self.ledger): self.ledger})
        self.wm.config = SimpleNamespace(max_key_fee=None)
        self.mine = set(self.env.run(self.env.account.get_addresses()))
        self.fee_addr = self.ledger.hash160_to_address(H160)
        self.claim_h160 = bytes(range(0x41, 0x55))

    def claim_txo(self, cur, c, s, ownaddr):
        from lbry.schema.claim import Claim
        from lbry.wallet.transaction import Transaction, Output
        claim = Claim()
        claim.stream.source.sd_hash = 'ab' * 48
        fee = claim.stream.fee
        if cur == 'LBC':
            fee.dewies = c * 10 ** s
        elif cur == 'BTC':
            fee.satoshis = c * 10 ** s
        else:
            fee.pennies = c * 10 ** (s - 6)
        if ownaddr:
            fee.address = self.fee_addr
        txo = Output.pay_claim_name_pubkey_hash(1000000, 'paid-stream', claim, self.claim_h160)
        tx = Transaction()
        tx.add_outputs([txo])
        return txo

    def limit(self, lim):
        if lim['cur'] == 'none':
            return None
        return {'currency': lim['cur'], 'amount': float(_dec(lim['c'], lim['s']))}

    def close(self):
        self.env.close()


def check_purchase_tx(b, tx, txo, want, ownaddr):
    """who gets how much: one payment output of the converted fee to the fee address (or the claim's address), the purchase
    note naming the claim, everything else back to the wallet"""
    outs = [o for o in tx.outputs if not (o.is_pubkey_hash and b.ledger.hash160_to_address(o.pubkey_hash) in b.mine)]
    pay = [o for o in outs if o.is_pubkey_hash]
    notes = [o for o in outs if not o.is_pubkey_hash]
    to = H160 if ownaddr else b.claim_h160
    if len(pay) != 1 or pay[0].amount != want or pay[0].pubkey_hash != to:
        return f'payment outputs {[(o.amount, o.pubkey_hash.hex()) for o in pay]}, expected one of {want} to {to.hex()}'
    if len(notes) != 1 or not notes[0].is_purchase_data or notes[0].purchase_data.claim_id != txo.claim_id or notes[0].amount != 0:
        return f'purchase note wrong: {[(o.amount, o.script.source.hex()) for o in notes]}'
    return None


def fc_leg_b(ctx, cases):
    from lbry.extras.daemon.exchange_rate_manager import FEEDS
    from lbry.error import InvalidExchangeRateResponseError
    # --- the direction of a feed's rate: a ticker price p (currency per LBC) must become spot = 1/p (LBC per currency)
    samples = {'Bittrex': lambda p: {'lastTradeRate': p}, 'CoinEx': lambda p: {'data': {'ticker': {'last': p}}}}
    for Feed in FEEDS:
        feed = Feed()
        mk = samples.get(feed.name)
        if mk is None:
            continue
        for p in ('0.5', '0.25', '0.00000128'):
            got = feed.get_rate_from_response(mk(p))
            ctx.count(('feed', Feed.__name__, p))
            if got != 1.0 / float(p):
                ctx.violation('feed-rate-direction', f'{Feed.__name__}.get_rate_from_response(price {p}) = {got}, expected {1.0 / float(p)}')
        try:
            feed.get_rate_from_response({})
            ctx.violation('feed-accepts-empty-response', f'{Feed.__name__}.get_rate_from_response({{}}) returned a rate')
        except InvalidExchangeRateResponseError:
            pass
        if feed.market not in ('BTCLBC', 'USDLBC'):
            ctx.violation('feed-market', f'{Feed.__name__}.market = {feed.market}')
    # --- conversions and purchase decisions
    b = Buyer(ctx)
    nconv = nbuy = nbought = 0
    dec = {}
    try:
        for i, c in enumerate(cases):
            erm = make_exchange(c)
            amount = _dec(c['c'], c['s'])
            want = int(''.join(str(x) for x in c['v'])) if c['ok'] else None
            try:
                with watchdog(30):
                    got, err = erm.to_dewies(c['cur'], amount), None
            except Exception as e:  # pylint: disable=broad-except
                got, err = None, _classify(e)
            key = (c['cur'], c['c'], c['s'], c['cfg'])
            ctx.count(('conv',) + key, nontrivial=c['cur'] != 'LBC')
            nconv += 1
            if c['ok'] and (err or got != want):
                k = 'conversion-wrong-amount' if err is None else f'conversion-refused:{err}'
                ctx.violation(k, f'to_dewies({c["cur"]}, {amount}) with feeds btc={c["btc"]} usd={c["usd"]}: got {got} / {err}, exact value {want}',
                              {'case': c})
                continue
            if not c['ok'] and err != c['err']:
                k = 'conversion-of-missing-rate' if c['err'] == 'conversion' else 'conversion-outside-range'
                ctx.violation(k, f'to_dewies({c["cur"]}, {amount}) with feeds btc={c["btc"]} usd={c["usd"]}: got {got} / {err}, the model says {c["err"]}',
                              {'case': c})
                continue
            if i % 900 == 5:
                ctx.sample({'to_dewies': [c['cur'], str(amount)], 'feeds': {'btc': c['btc'], 'usd': c['usd']}, 'returned': got, 'raised': err, 'spec': want or c['err']})
            if c['kind'] != 'buy':
                continue
            # --- the purchase decision, on the real create_purchase_transaction
            txo = b.claim_txo(c['cur'], c['c'], c['s'], c['ownaddr'])
            if str(txo.claim.stream.fee.amount.normalize()) != str(amount.normalize()) or txo.claim.stream.fee.currency != c['cur'] or not txo.has_price:
                raise MachineryError(f'the claim does not say the fee of the case: {txo.claim.stream.fee.amount} {txo.claim.stream.fee.currency} vs {amount} {c["cur"]}')
            b.wm.config.max_key_fee = b.limit(c['lim'])
            tx = None
            try:
                with watchdog(60):
                    tx = b.env.run(b.wm.create_purchase_transaction(b.env.wallet.accounts, txo, erm, override_max_key_fee=c['ovr']))
                d = 'buy'
            except Exception as e:  # pylint: disable=broad-except
                d = _classify(e)
            nbuy += 1
            dec[c['d']] = dec.get(c['d'], 0) + 1
            ctx.count(('buy',) + key + (c['lim']['cur'], c['lim']['c'], c['lim']['s'], c['ovr'], c['ownaddr']))
            what = (f'fee {amount} {c["cur"]}, max_key_fee {b.wm.config.max_key_fee}, override={c["ovr"]}, feeds btc={c["btc"]} usd={c["usd"]}: '
                    f'real decision {d}, the model says {c["d"]}')
            if tx is not None:
                nbought += 1
                bad = check_purchase_tx(b, tx, txo, want, c['ownaddr'])
                b.env.run(b.ledger.release_tx(tx))
                if c['d'] == 'above':
                    ctx.violation('purchase-above-max-key-fee', what, {'case': c})
                elif c['d'] != 'buy':
                    ctx.violation('purchase-where-the-model-refuses:' + c['d'], what, {'case': c})
                elif bad:
                    ctx.violation('purchase-pays-wrong-amount-or-address', what + ': ' + bad, {'case': c})
            elif d != c['d']:
                ctx.violation('purchase-refused:' + d if c['d'] == 'buy' else 'purchase-decision-differs', what, {'case': c})
            if b.env.reserved_ids():
                ctx.violation('purchase-leaves-outputs-reserved', what + f': reserved {b.env.reserved_ids()}', {'case': c})
                b.env.run(b.ledger.db.release_all_outputs(b.env.account))
    finally:
        b.close()
    need = {'buy', 'above', 'conversion', 'format', 'insufficient'}
    if not ctx.violations and not need <= set(dec):
        raise MachineryError(f'purchase decisions never exercised: {sorted(need - set(dec))}')
    ctx.cov['traces_validated_against_impl'] += len(cases)
    ctx.leg('B-FeeConvert', conversions=nconv, purchase_decisions=nbuy, transactions_built=nbought, decisions=dec)



# ------------------------------------------------------------------------------------------------ Purchase (download_from_uri)
PU_INVS = ['TypeOK', 'PaysOnlyWhenDue', 'PaysAfterStart', 'FailedPaysNothing', 'ReleasedAtEnd', 'ReusesWhatIsThere']
PU_WITNESSES = ['W_Paid', 'W_PaidTwiceSequential', 'W_FailedAfterBuy', 'W_Joined', 'W_ReceiptReused', 'W_SaveTimeoutAfterPay']
PU_ACTIONS = ['Call', 'Resolve', 'Lookup', 'Buy', 'Start', 'Bcast', 'SaveFee', 'Register', 'Restart', 'Cancel', 'Sync', 'Delete']
DOUBLE_PAY_KEY = 'concurrent-downloads-of-one-claim-with-different-arguments-pay-twice'


def pu_cfg(invs=(), samekey=False, guard=False, eager=False, norelease=False, emit=False, callers=2, keeplog=False):
    txt = tlc.make_cfg(constants={'SAMEKEY': samekey, 'GUARD': guard, 'EAGERPAY': eager, 'NORELEASE': norelease, 'EMIT': emit,
                                  'KEEPLOG': keeplog},
                       invariants=invs, constraint='Emit' if emit else None)
    return txt.replace('CONSTANTS\n', 'CONSTANTS\n  CALLERS = {' + ', '.join(f'"c{i}"' for i in range(1, callers + 1)) + '}\n')


def pu_leg_a(ctx):
    for label, kw, invs in [('reference (GUARD)', {'guard': True}, PU_INVS + ['NoDoublePay']),
                            ('equal arguments (cache_concurrent merges)', {'samekey': True}, PU_INVS + ['NoDoublePay']),
                            ('as found, different arguments', {}, PU_INVS)]:
        cov = bool(kw.get('samekey'))        # per-action coverage is expensive: taken on the smallest of the three runs
        nc = 3 if ctx.thorough else 2
        res = tlc.run('Purchase', pu_cfg(invs, callers=nc, **kw), ctx, timeout=1500, label='Purchase-' + label.split()[0], coverage=cov)
        ctx.add_tlc(res, f'Purchase exhaustive, {nc} callers, {label}: {invs}')
        if res.violated:
            ctx.violation('model:purchase:' + res.violated[0], f'Purchase model ({label}) violates {res.violated[0]}', res.error_trace[:6000])
            return False
        if cov:
            tlc.require_coverage(res, PU_ACTIONS, 'Purchase-' + label)
    jobs = [('asfound-NoDoublePay', pu_cfg(['NoDoublePay']), 'NoDoublePay'),
            ('neg-eagerpay', pu_cfg(['PaysAfterStart'], samekey=True, eager=True), 'PaysAfterStart'),
            ('neg-norelease', pu_cfg(['ReleasedAtEnd'], samekey=True, norelease=True), 'ReleasedAtEnd')]
    jobs += [(w, pu_cfg([w], samekey=True), w) for w in PU_WITNESSES]

    def one(job):
        label, cfg, must = job
        return label, must, tlc.run('Purchase', cfg, ctx, coverage=False, timeout=600, label=f'PU-{label}', workers=2)
    with ThreadPoolExecutor(max_workers=6) as ex:
        for label, must, r in ex.map(one, jobs):
            if must not in r.violated:
                raise MachineryError(f'Purchase {label}: {must} is not violated (witness unreachable / negative control fails)')
    ctx.leg('A-Purchase', invariants=PU_INVS + ['NoDoublePay (reference and equal-arguments only)'], witnesses=PU_WITNESSES,
            negative_controls=['EAGERPAY', 'NORELEASE'], asfound='NoDoublePay violated for concurrent calls with different arguments')
    return True


URI = 'lbry://paid-stream'
SD_HASH = 'ab' * 48
DEC_SETUP = {   # decision of FeeConvert -> (currency, units (c, s), max_key_fee)
    'buy': ('LBC', (5, 7), {'currency': 'LBC', 'amount': 1.0}),
    'above': ('LBC', (3, 8), {'currency': 'LBC', 'amount': 1.0}),
    'conversion': ('USD', (199, 6), {'currency': 'LBC', 'amount': 1.0}),
    'format': ('LBC', (50, 0), None),
    'insufficient': ('LBC', (30, 8), None),
}


class DlWorld:
    """the real FileManager.download_from_uri over a real WalletManager / Ledger / ExchangeRateManager; resolve, storage, the
    stream object and the network are stubs whose awaits park on gates the driver opens in the order of the TLC behaviour"""

    def __init__(self, ctx, k, claim, have):
        import contextvars
        from types import SimpleNamespace
        import lbry.wallet  # noqa: F401
        import lbry.file.file_manager as fm_mod
        from lbry.wallet.manager import WalletManager
        from .walletenv import WalletEnv
        w = self
        self.dir = ctx.mkdir(f'g12-dl-{k % 8}')
        for fn in os.listdir(self.dir):
            os.unlink(os.path.join(self.dir, fn))
        shutil.copyfile(get_prep(ctx).snap, os.path.join(self.dir, 'blockchain.db'))
        self.env = WalletEnv(self.dir)
        self.loop, self.ledger = self.env.loop, self.env.ledger
        self.claim = claim
        self.receipt = False
        self.who = contextvars.ContextVar('g12caller', default=None)
        self.gates = {}          # (caller, point) -> future
        self.accepted = []       # callers whose purchase the network accepted
        self.txowner = {}
        self.mine = set(self.env.run(self.env.account.get_addresses()))
        cur, (c, s), limit = DEC_SETUP[claim['dec']]
        self.fee = (cur, c, s)
        self.conf = SimpleNamespace(max_key_fee=limit, download_timeout=30.0, save_files=False, download_dir=None, fixed_peer_delay=2.0)
        self.erm = make_exchange({'btc': [], 'usd': []})

        def park(point):
            fut = w.loop.create_future()
            w.gates[(w.who.get(), point)] = fut
            return fut

        class Net:
            is_connected = True

            async def retriable_call(self, f, *a, **k):
                return await f(*a, **k)

            async def broadcast(self, raw):
                caller = w.who.get()
                w.rawtx = raw
                await park('bcast')
                w.accepted.append((caller, raw))
        self.ledger.network = Net()

        async def resolve(accounts, urls, **kw):
            if not kw.get('include_purchase_receipt'):
                raise MachineryError('resolve without include_purchase_receipt')
            await park('resolve')
            return {urls[0]: w.make_txo()}
        self.ledger.resolve = resolve

        class Storage:
            async def save_claim_from_output(self, ledger, *outs):
                await park('lookup')

            async def save_content_fee(self, stream_hash, fee):
                await park('savefee')

            async def save_content_claim(self, stream_hash, outpoint):
                if (w.who.get(), 'started') not in w.flags:
                    return              # the metadata update of a stream that is already there, before it is restarted
                await park('register')

        self.flags = set()

        class Stream:
            STATUS_RUNNING = 'running'

            def __init__(self, loop, config, blob_manager, sd_hash, download_directory=None, file_name=None, status='running',
                         content_fee=None, analytics_manager=None, claim=None, **kw):
                self.sd_hash, self.stream_hash, self.identifier = sd_hash, 'cd' * 48, sd_hash
                self.content_fee, self.claim = content_fee, claim
                self.claim_id = claim.claim_id if claim else None
                self.downloader = SimpleNamespace(node=None, time_to_descriptor=None, time_to_first_bytes=None)
                self.output_file_exists = False
                self.download_id = 'x'
                self.descriptor = None

            async def start(self, timeout=None, save_now=False):
                await park('start')
                w.flags.add((w.who.get(), 'started'))

            async def save_file(self, *a, **k):
                return None

        class Sources:
            blob_manager = None
            node = None

            def __init__(self):
                self.items = []

            def get_filtered(self, *a, **search):
                out = self.items
                for key, val in search.items():
                    out = [x for x in out if getattr(x, key) == val]
                return list(out)

            def add(self, stream):
                self.items.append(stream)

            async def _update_content_claim(self, stream):
                pass

            async def delete(self, stream, *a, **k):
                self.items.remove(stream)

        self.sources = Sources()
        self.Stream = Stream
        self._fm_mod, self._real_stream = fm_mod, fm_mod.ManagedStream
        fm_mod.ManagedStream = Stream
        self.wm = WalletManager([self.env.wallet], {type(self.ledger): self.ledger})
        self.wm.config = self.conf
        real_create = self.wm.create_purchase_transaction

        async def gated_create(*a, **k):
            await park('buy')
            return await real_create(*a, **k)
        self.wm.create_purchase_transaction = gated_create
        self.fm = fm_mod.FileManager(self.loop, self.conf, self.wm, Storage(), None)
        self.fm.source_managers['stream'] = self.sources
        if have:
            txo = self.make_txo()
            st = Stream(self.loop, self.conf, None, SD_HASH, claim=SimpleNamespace(claim_id=txo.claim_id))
            self.sources.add(st)
        self.tasks = {}

    def make_txo(self):
        from lbry.schema.claim import Claim
        from lbry.wallet.transaction import Transaction, Output
        claim = Claim()
        claim.stream.source.sd_hash = SD_HASH
        if self.claim['price']:
            cur, c, s = self.fee
            fee = claim.stream.fee
            if cur == 'LBC':
                fee.dewies = c * 10 ** s
            else:
                fee.pennies = c * 10 ** (s - 6)
            fee.address = self.ledger.hash160_to_address(H160)
        txo = Output.pay_claim_name_pubkey_hash(1000000, 'paid-stream', claim, bytes(range(0x41, 0x55)))
        tx = Transaction()
        tx.add_outputs([txo])
        txo.is_my_output = bool(self.claim['mine'])
        txo.purchase_receipt = txo if self.receipt else None
        return txo

    def call(self, c, samekey):
        async def caller():
            self.who.set(c)
            timeout = 30.0 if samekey else 30.0 + int(c[1:])
            return await self.fm.download_from_uri(URI, self.erm, timeout=timeout)
        self.tasks[c] = self.loop.spawn(caller())

    def settle(self):
        with watchdog(60):
            self.loop.drain(timers=False, limit=200000)

    def gate(self, c, point):
        fut = self.gates.pop((c, point), None)
        if fut is None and point == 'start' and (c, 'buy') in self.gates:
            raise Mismatch('purchase-where-none-is-due', f'caller {c} is about to buy (create_purchase_transaction called) where the model goes '
                           f'straight to the download: claim {self.claim}, receipt={self.receipt}')
        if fut is None or fut.done():
            raise Mismatch('schedule-diverged', f'caller {c} is not waiting at {point}; open gates {sorted(k for k, f in self.gates.items() if not f.done())}')
        return fut

    def held(self):
        q = "select txo.txoid from txo left join txi using (txoid) where txo.is_reserved = 1 and txi.txoid is null"
        return sorted(r['txoid'] for r in self.env.run(self.ledger.db.db.execute_fetchall(q)))

    def close(self):
        self._fm_mod.ManagedStream = self._real_stream
        for t in self.tasks.values():
            if not t.done():
                t.cancel()
        try:
            self.settle()
            for t in self.tasks.values():
                if t.done() and not t.cancelled():
                    t.exception()
        except BaseException:  # pylint: disable=broad-except
            pass
        self.env.close()


RESULT_CLASS = {'resolve_timeout': 'ResolveTimeoutError', 'resolve_error': 'ResolveError', 'above': 'KeyFeeAboveMaxAllowedError',
                'conversion': 'CurrencyConversionError', 'format': 'ValueError', 'insufficient': 'InsufficientFundsError',
                'start_sdtimeout': 'DownloadSDTimeoutError', 'start_datatimeout': 'DownloadDataTimeoutError', 'start_error': 'RuntimeError',
                'broadcast_refused': 'RPCError', 'save_timeout': 'DownloadDataTimeoutError', 'cancelled': 'CancelledError'}


def replay_download(ctx, k, beh, samekey):
    from lbry.error import DownloadSDTimeoutError, DownloadDataTimeoutError
    from lbry.wallet.rpc import RPCError
    from lbry.wallet.transaction import Transaction
    log = beh['log']
    init = log[0]['how']
    w = DlWorld(ctx, k, beh['claim'], have='have' in init)
    w.receipt = 'receipt' in init
    owner = {}
    try:
        for ev in log[1:]:
            a, c, how = ev['a'], ev['c'], ev['how']
            g = owner.get(c, c)
            if a == 'call':
                running = [d for d, t in w.tasks.items() if not t.done() and owner.get(d, d) == d]
                if samekey and running:
                    owner[c] = running[0]
                w.call(c, samekey)
            elif a == 'resolve':
                fut = w.gate(g, 'resolve')
                if how == 'ok':
                    fut.set_result(None)
                elif how == 'error':
                    fut.set_exception(RuntimeError('resolve failed'))
                elif any(not t.done() for d, t in w.tasks.items() if d != g):
                    fut.set_exception(asyncio.TimeoutError())       # virtual time is global: another call is in flight, its timers must not fire
                else:
                    with watchdog(60):
                        w.loop.drain(limit=200000, until=w.loop.time() + 3.5)       # the real resolve_timeout = 3.0 of wait_for
            elif a == 'lookup':
                w.gate(g, 'lookup').set_result(None)
            elif a == 'buy':
                w.gate(g, 'buy').set_result(None)
            elif a in ('start', 'restart'):
                fut = w.gate(g, 'start')
                if how == 'ok':
                    fut.set_result(None)
                elif how == 'sdtimeout':
                    fut.set_exception(DownloadSDTimeoutError(SD_HASH))
                elif how == 'datatimeout':
                    fut.set_exception(DownloadDataTimeoutError(SD_HASH))
                else:
                    fut.set_exception(RuntimeError('stream failed'))
            elif a == 'bcast':
                fut = w.gate(g, 'bcast')
                if how == 'ok':
                    fut.set_result(None)
                else:
                    fut.set_exception(RPCError(-26, 'refused'))
            elif a == 'savefee':
                w.gate(g, 'savefee').set_result(None)
            elif a == 'register':
                fut = w.gate(g, 'register')
                if how == 'ok':
                    fut.set_result(None)
                else:
                    fut.set_exception(asyncio.TimeoutError())
            elif a == 'cancel':
                w.tasks[c].cancel()
            elif a == 'sync':
                w.receipt = True
            elif a == 'delete':
                w.sources.items.clear()
            else:
                raise MachineryError(f'unknown action {a}')
            w.settle()
        # ---- the end: what every caller got, who paid, what is still held
        for c, want in beh['result'].items():
            t = w.tasks.get(c)
            if t is None or not t.done():
                raise Mismatch('schedule-diverged', f'caller {c} has not finished; open gates {sorted(w.gates)}')
            if t.cancelled():
                got = 'CancelledError'
            elif t.exception() is not None:
                got = type(t.exception()).__name__
            else:
                got = 'stream' if isinstance(t.result(), w.Stream) else repr(t.result())
            exp = 'stream' if want == 'stream' else RESULT_CLASS[want]
            if got != exp:
                raise Mismatch('download-result-differs', f'caller {c}: {got}, the model says {want} ({exp}); log {log}')
        payers = [c for c, _ in w.accepted]
        if beh['racing'] and len(beh['paid']) >= 2 and payers == [c for c in beh['paid'] if c not in beh['racing']]:
            return len(payers), False       # the as-found deviation (NoDoublePay) did not happen on this code: nothing to report
        if payers != list(beh['paid']):
            key = 'purchase-not-in-the-model' if len(payers) > len(beh['paid']) else 'purchase-missing'
            raise Mismatch(key, f'purchases broadcast by {payers}, the model says {beh["paid"]}; log {log}')
        cur, c_, s_ = w.fee
        for c, raw in w.accepted:
            tx = Transaction(unhexlify(raw))
            outs = [o for o in tx.outputs if not (o.is_pubkey_hash and w.ledger.hash160_to_address(o.pubkey_hash) in w.mine)]
            pay = [o for o in outs if o.is_pubkey_hash]
            if len(pay) != 1 or pay[0].pubkey_hash != H160 or pay[0].amount != c_ * 10 ** s_:
                raise Mismatch('purchase-pays-wrong-amount-or-address', f'{[(o.amount, o.pubkey_hash.hex()) for o in pay]}')
        # inputs of accepted purchases stay reserved (sync marks them spent); nothing else may
        spent_by_paid = set()
        for c, raw in w.accepted:
            spent_by_paid |= {txi.txo_ref.id for txi in Transaction(unhexlify(raw)).inputs}
        left = [t for t in w.held() if t not in spent_by_paid]
        if left:
            raise Mismatch('purchase-outputs-left-reserved', f'reserved and not spent by a broadcast purchase: {left}; log {log}')
        return len(payers), bool(beh['racing']) and len(payers) >= 2
    finally:
        w.close()


def pu_behaviours(ctx):
    behs = []
    num = 500 if ctx.thorough else 70
    seen = set()
    for samekey, profile in [(False, 'any'), (True, 'any'), (False, 'benign'), (True, 'benign'), (False, 'paying'), (True, 'paying')]:
        simdir = ctx.mkdir(f'pu-sim-{samekey}-{profile}')
        cfg = pu_cfg([], samekey=samekey, keeplog=True)
        if profile != 'any':
            cfg += 'ACTION_CONSTRAINT Benign\n'
        if profile == 'paying':
            cfg += 'CONSTRAINT PayingClaim\n'
        n = num * 3 if (profile == 'paying' and not samekey) else num      # the profile in which the as-found deviation shows
        res = tlc.run('Purchase', cfg, ctx, workers=1, simulate=f'file={simdir}/tr,num={n}', depth=40,
                      seed=ctx.seed + 31, coverage=False, timeout=900, label=f'Purchase-sim-{samekey}-{profile}')
        ctx.add_tlc(res, f'Purchase -simulate num={num}, SAMEKEY={samekey}, profile {profile} (Leg B schedules)')
        for b in tlc.parse_simulate_dir(simdir, 'tr'):
            st = b[-1]['state']
            if not all(v in ('done', 'failed') for v in st['pc'].values()):
                continue
            beh = {'claim': dict(st['claim']), 'log': [dict(e) for e in st['log']], 'result': dict(st['result']),
                   'paid': list(st['paid']), 'racing': sorted(st['racing']['$set'] if isinstance(st['racing'], dict) else st['racing'])}
            key = json.dumps(beh, sort_keys=True)
            if key not in seen:
                seen.add(key)
                behs.append((samekey, beh))
    if len(behs) < num // 2:
        raise MachineryError(f'only {len(behs)} complete simulated Purchase behaviours')
    return behs


def pu_leg_b(ctx, behs):
    npaid = ndouble = 0
    results = {}
    double = []
    for k, (samekey, beh) in enumerate(behs):
        ctx.count(('download', json.dumps(beh['log'], sort_keys=True), samekey))
        try:
            n, dbl = replay_download(ctx, k, beh, samekey)
        except Mismatch as m:
            ctx.violation(m.key, m.what, {'behaviour': beh, 'samekey': samekey})
            continue
        npaid += n
        for r in beh['result'].values():
            results[r] = results.get(r, 0) + 1
        if dbl:
            ndouble += 1
            double.append(beh)
        if k % 80 == 3:
            ctx.sample({'download_schedule': [f"{e['a']}({e['c']},{e['how']})" for e in beh['log']], 'paid': beh['paid'], 'results': beh['result']})
    if double:
        ctx.violation(DOUBLE_PAY_KEY, f'{ndouble} schedules: two download_from_uri calls for the same priced claim that differ in an argument '
                      f'(here: timeout) run concurrently, both find no stream and no receipt, both purchases are broadcast; e.g. '
                      f'{[(e["a"], e["c"], e["how"]) for e in double[0]["log"]]}', {'behaviour': double[0]})
    need = {'stream', 'cancelled', 'above', 'insufficient', 'conversion', 'format', 'start_datatimeout', 'broadcast_refused', 'save_timeout', 'resolve_timeout'}
    if not ctx.violations and not need <= set(results):
        raise MachineryError(f'Purchase Leg B never exercised results {sorted(need - set(results))}')
    ctx.cov['traces_validated_against_impl'] += len(behs)
    ctx.leg('B-Purchase', schedules=len(behs), purchases_broadcast=npaid, double_pay_schedules=ndouble, results=results)



def run(ctx):
    get_prep(ctx)
    # all TLC work first, the three specifications side by side (the machine has cores to spare, the replays are serial)
    with ThreadPoolExecutor(max_workers=5) as ex:
        futs = [ex.submit(f, ctx) for f in (sp_leg_a, sp_behaviours, fc_leg_a, pu_leg_a, pu_behaviours)]
        ok_sp, (one, multi), cases, ok_pu, behs = [f.result() for f in futs]
    if not ok_sp or cases is None or not ok_pu:
        return
    sp_leg_b(ctx, one, multi)
    fc_leg_b(ctx, cases)
    pu_leg_b(ctx, behs)
    ctx.cov['rule'] = (
        'ServerPayer: one evaluation = one payment period of a TLC behaviour replayed on the real WalletServerPayer (every behaviour of one '
        'period of the reference model by exhaustive emission, multi-period behaviours by -simulate); distinct = distinct (fee class, address '
        'class, lock, funds, broadcast outcome, seen, stop point). FeeConvert: every TLC state is one case = one call of the real '
        'ExchangeRateManager.to_dewies (currency x amount x feed configuration) and, for buy cases, one call of the real '
        'WalletManager.create_purchase_transaction (x limit x override x fee address) whose transaction is inspected. Purchase: one '
        'evaluation = one -simulate schedule of two download_from_uri calls replayed on the real FileManager.download_from_uri.')
    ctx.assumptions += [
        'ServerPayer: the wallet server is a scripted object (get_server_features / broadcast park on futures); Ledger.wait reads the '
        'virtual clock instead of time.perf_counter; "seen" is delivered the way sync does (insert, address history, on_transaction event)',
        'ServerPayer: addresses are judged per class (one or a few representatives per class); Transaction.create is stopped at its first executor job only',
        'FeeConvert: rates are dyadic (m/16 * 10^sh) so that the float a feed holds is the exact rate; the 28-digit Decimal context rounding of '
        'amount * Decimal(float) for arbitrary rates is outside the case space; feeds are set directly (no HTTP), get_rate_from_response is '
        'checked only for the direction 1/price on the enabled feeds',
        'Purchase: ledger.resolve, SQLiteStorage, ManagedStream (module attribute of lbry.file.file_manager) and the network are stubs that park '
        'on gates; create_purchase_transaction, Transaction.purchase, broadcast_or_release, release_tx, cache_concurrent are real; torrent '
        'sources and the to_replace path (claim update with another sd_hash) are not modelled',
    ]
