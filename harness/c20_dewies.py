"""C20 -- LBC <-> dewies. specs/Dewies.tla enumerates the cases and computes the expected result;
every TLC state is one call of the real dewies_to_lbc / lbc_to_dewies (DESIGN C20)."""
import re

from . import tlc
from .common import MachineryError, watchdog

INVS = ['RoundTrip', 'Fixpoint', 'SignedRejected', 'FormShape']


# what the symbol "u" of Dewies.tla stands for: characters that are not decimal digits (not category Nd) and not '.', whose
# compatibility normalisation is one -- a parser that normalises its input would take them for an amount
LOOKALIKES = ['\uff0e', '\u00b9', '\u00b2', '\u2460', '\u2488', '\ufe52', '\u2024', '\u2081', '\u2474', '\u24f5']


def _norm(text):
    """value-preserving normal form of a decimal string (so that only the VALUE and the plain-decimal
    shape are judged, not the choice among equivalent spellings)"""
    m = re.fullmatch(r'(-?)([0-9]+)\.([0-9]+)', text)
    if not m:
        return None
    sign, whole, frac = m.groups()
    whole = whole.lstrip('0') or '0'
    frac = frac.rstrip('0') or '0'
    return f'{sign}{whole}.{frac}'


def classify_fmt(n):
    a = abs(n)
    if a >= 2 ** 53:
        return 'fmt-inexact-float-division-above-2^53'
    return 'fmt-wrong-below-2^53'


def classify_parse(text):
    if text.endswith('\n') and '\n' not in text[:-1]:
        return 'parse-accepts-trailing-newline'
    return 'parse-accepts-non-grammar-string'


def run(ctx):
    from lbry.wallet.dewies import dewies_to_lbc, lbc_to_dewies
    strlen = 5 if ctx.thorough else 4
    delta = 40 if ctx.thorough else 12
    consts = {'MAXDIG': 18, 'STRLEN': strlen, 'DELTA': delta, 'EMIT': True}
    cfg = tlc.make_cfg(constants=consts, invariants=INVS, constraint='Emit')
    res = tlc.run('Dewies', cfg, ctx, workers=1, coverage=False, timeout=3000, label='Dewies-emit')
    ctx.add_tlc(res, f'Dewies exhaustive over the case space {consts} (Leg A invariants {INVS} + emission)')
    if res.violated:
        ctx.violation('model:' + ','.join(res.violated), 'specification law violated in the model', res.error_trace[:4000])
        return
    cases = tlc.printed_json(res, 'CASE')
    if len(cases) != res.distinct:
        raise MachineryError(f'emitted {len(cases)} cases but TLC found {res.distinct} distinct states')
    nf = npz = 0
    for c in cases:
        if c['kind'] == 'fmt':
            n = int(''.join(c['digits']))
            if c['neg']:
                n = -n
            expect = ''.join(c['expect'])
            nf += 1
            ctx.count(('fmt', n), nontrivial=abs(n) >= 10)
            try:
                with watchdog(30):
                    got = dewies_to_lbc(n)
            except Exception as e:  # pylint: disable=broad-except
                ctx.violation('fmt-raises', f'dewies_to_lbc({n}) raised {type(e).__name__}: {e}', {'n': n})
                continue
            if not isinstance(got, str) or _norm(got) != expect:
                ctx.violation(classify_fmt(n), f'dewies_to_lbc({n}) = {got!r}, exact value is {expect!r}',
                              {'call': 'dewies_to_lbc', 'n': n, 'got': got, 'expect': expect})
                continue
            if n >= 0:
                try:
                    back = lbc_to_dewies(got)
                except Exception as e:  # pylint: disable=broad-except
                    back = f'{type(e).__name__}'
                if back != n:
                    ctx.violation('roundtrip', f'lbc_to_dewies(dewies_to_lbc({n})) = {back!r}',
                                  {'call': 'roundtrip', 'n': n, 'text': got, 'back': back})
            if nf % 1500 == 1:
                ctx.sample({'dewies_to_lbc': n, 'returned': got, 'spec': expect})
        else:
            text = ''.join(c['text'])
            if 'u' in text:
                text = text.replace('u', LOOKALIKES[npz % len(LOOKALIKES)])
            npz += 1
            ctx.count(('parse', text), nontrivial=len(text) >= 3)
            try:
                with watchdog(30):
                    got = lbc_to_dewies(text)
                raised = None
            except Exception as e:  # pylint: disable=broad-except
                got, raised = None, type(e).__name__
            if c['ok']:
                expect = int(''.join(c['expect']))
                if raised or got != expect:
                    ctx.violation('parse-wrong-value', f'lbc_to_dewies({text!r}) = {got!r} / {raised}, grammar says {expect}',
                                  {'call': 'lbc_to_dewies', 'text': text, 'got': got, 'raised': raised, 'expect': expect})
            else:
                if raised is None:
                    ctx.violation(classify_parse(text), f'lbc_to_dewies({text!r}) returned {got!r}; the grammar forbids the string',
                                  {'call': 'lbc_to_dewies', 'text': text, 'got': got})
            if npz % 4000 == 1:
                ctx.sample({'lbc_to_dewies': text, 'returned': got, 'raised': raised, 'spec_ok': c['ok']})
    ctx.cov['traces_validated_against_impl'] = len(cases)
    ctx.cov['exhaustive'] = True
    ctx.cov['rule'] = ('every TLC state of Dewies.tla is one case: fmt cases are digit sequences at every digit-length '
                       'boundary up to 18 digits (lead x fill x tail shapes), zero-run patterns, and +-DELTA around 2^52..2^57, '
                       '2^53+-2^k and the coin supply, each with both signs; parse cases are ALL strings up to STRLEN over a '
                       '10-symbol alphabet plus every string within one edit of a grammar string at the 1/10/11 and 1/8/9 digit '
                       'limits. Distinct = distinct TLC states; non-trivial = |n| >= 10 resp. len(text) >= 3.')
    ctx.leg('B', fmt_cases=nf, parse_cases=npz, constants=consts)
    ctx.assumptions += ['Python int()/str() of decimal digit strings is exact',
                        'value-equivalent spellings of the same exact decimal are not distinguished (leading/trailing zeros)']
