"""G05 -- SQLiteStorage keeps its tables consistent under any history of stream/blob/file/claim operations.

Leg A  specs/Storage.tla + MCStorage.tla: the tables as sets of records, one transformer per public call transcribed
       from its SQL (including the calls that fail); exhaustive to a depth from six seed states, invariants
       (referential integrity, keys), action clauses (FailedCallChangesNothing, DeleteExact, DanglingOnlyByDelete,
       FinishedStays, ClaimUpdateSameId, AssociationKept, OnlyOwnTables, per-call contracts), reachability witnesses, negative controls.
Leg B  TLC -simulate behaviours of MCStorage are replayed call by call on a real SQLiteStorage over a real sqlite
       file; after EVERY call all tables are read back through a second sqlite3 connection and compared with the
       state TLC printed, the outcome (ok / raise) and return value with `last`, every read call with `obs`.
Leg C  seeded random long histories (hundreds of calls, a larger universe) on the real storage.
Every real run (B and C) is recorded and judged by TLC in specs/StorageTrace.tla: the clauses are evaluated in TLA+ on
the real before/after states, the read results against Observe(real tables), and the transformer is run from the real
state before (a difference that breaks no clause is reported as drift, not as a violation).  The referential-
integrity clauses are also evaluated in Python on every dump (cross-check of the plumbing)."""
import binascii
import concurrent.futures
import hashlib
import json
import os
import re
import shutil
import sqlite3
import types

from . import tlc
from .common import MachineryError, watchdog

UNIT = 21600            # one clock unit of the specification in seconds: HALF = 2 units = DATA_EXPIRATION / 2, DAY = 4
HALF, DAY = 2, 4
LIMIT = 10              # conf.concurrent_blob_announcers (1) * 10
NONE, WALL = -1, -2
DIRS = ('dirA', 'dirB', 'dirC')          # dirC = conf.download_dir
CLAIM_AMOUNT, CLAIM_ADDRESS = '1.0', 'bAddressOfTheClaim'

STATE_INVS = ['Keys', 'RefStreamBlob', 'RefFile', 'RefContentClaim', 'OneClaimPerStream', 'QueriesConsistent']
ACTION_PROPS = ['FailedCallChangesNothing', 'DeleteExact', 'DanglingOnlyByDelete', 'FinishedStays', 'ClaimUpdateSameId',
                'AssociationKept', 'OnlyOwnTables', 'CallContracts']
STATE_WITNESSES = ['W_SharedBlob', 'W_FailedInsert', 'W_FailedStore', 'W_StoreNoKeyOk', 'W_Dangling', 'W_DupTerminator',
                   'W_DupFile', 'W_ClaimRefused', 'W_SaveClaimsRolledBack', 'W_UniqueOutpoint', 'W_ClaimUpdated',
                   'W_FileHidden', 'W_SavedFile', 'W_PeersRolledBack', 'W_RecoverKeepsClaim']
ACTION_WITNESSES = ['W_DeleteWithFile', 'W_RollbackAfterWrites', 'W_SharedBlobDeleted', 'DeleteKeepsShared']
NEG_CONTROLS = [('NC_DEL_KEEPS_SBLOB', ('RefStreamBlob',)), ('NC_STORE_REPLACES', ('FinishedStays', 'CallContracts')),
                ('NC_NO_ROLLBACK', ('FailedCallChangesNothing',)), ('NC_NO_CLAIMID_CHECK', ('ClaimUpdateSameId',)),
                ('NC_FILE_NO_FK', ('RefFile',))]
CALLS = ['add_blobs', 'set_announce', 'update_last_announced_blobs', 'should_single_announce_blobs', 'delete_blobs_from_db',
         'sync_missing_blobs', 'update_blob_ownership', 'store_stream', 'delete_stream', 'save_published_file',
         'save_downloaded_file', 'change_file_status', 'stop_all_files', 'change_file_download_dir_and_file_name',
         'set_saved_file', 'clear_saved_file', 'save_content_fee', 'update_manually_removed_files_since_last_run',
         'save_claims', 'save_content_claim', 'update_reflected_stream', 'recover_streams', 'save_kademlia_peers']
MC_QSH = {'s1', 's2', 'sX'}
MC_QSD = {'sdA', 'sdB', 'sdC', 'sdX'}
MC_QH = {'b1', 'b2', 'b3', 'sdA', 'sdB', 'bx'}


def mc_constants(**over):
    c = {'HALF': HALF, 'DAY': DAY, 'LIMIT': LIMIT, 'HEADSD': True, 'CONFDIR': 'dirC',
         'QSH': MC_QSH, 'QSD': MC_QSD, 'QH': MC_QH, 'OBSERVE': False,
         'NC_DEL_KEEPS_SBLOB': False, 'NC_STORE_REPLACES': False, 'NC_NO_ROLLBACK': False, 'NC_NO_CLAIMID_CHECK': False,
         'NC_FILE_NO_FK': False, 'BIG': False, 'MAXLEVEL': 4, 'MAXNOW': 3, 'SEEDS': {1, 2, 3, 4, 5, 6}}
    c.update(over)
    return c


def mc_cfg(consts, invariants=(), properties=(), level=True, view=True):
    return tlc.make_cfg(init_next=('MCInit', 'MCNext'), constants=consts, invariants=invariants, properties=properties,
                        constraint=(['Level'] if level else []) + ['Small'], view='View' if view else None)


# ------------------------------------------------------------------------------------------------ Leg A

def leg_a(ctx):
    lvl = 5 if ctx.thorough else 4
    consts = mc_constants(MAXLEVEL=lvl)
    # (no -coverage on the seeded runs: with it TLC re-evaluates the nested seed definitions by name, exponentially)
    res = tlc.run('MCStorage', mc_cfg(consts, STATE_INVS, ACTION_PROPS), ctx, timeout=3000, coverage=False, label='Storage-MC')
    ctx.add_tlc(res, f'MCStorage exhaustive to depth {lvl - 1} from 6 seed states')
    if res.violated:
        ctx.violation('model:' + res.violated[0], f'model clause {res.violated[0]} violated', res.error_trace[:8000])
    # vacuity guards: the witnesses below; every call is enabled in every state and Leg B checks that TLC's behaviours use each
    runs = [res]
    if ctx.thorough:
        big = mc_constants(MAXLEVEL=4, BIG=True, OBSERVE=True)
        r2 = tlc.run('MCStorage', mc_cfg(big, STATE_INVS, ACTION_PROPS), ctx, timeout=3000, coverage=False, label='Storage-MC-big')
        ctx.add_tlc(r2, 'MCStorage, larger argument families, read calls computed in every state, depth 3')
        if r2.violated:
            ctx.violation('model:' + r2.violated[0], f'model clause {r2.violated[0]} violated (BIG)', r2.error_trace[:8000])
        runs.append(r2)

    # witnesses and negative controls: many small runs, in parallel
    jobs = []
    wc = mc_constants(MAXLEVEL=4, OBSERVE=False)
    for w in STATE_WITNESSES:
        jobs.append(('witness', w, (w,), mc_cfg(wc, invariants=[w])))
    for w in ACTION_WITNESSES:
        jobs.append(('witness', w, (w,), mc_cfg(wc, properties=[w])))
    for nc, clause in NEG_CONTROLS:
        jobs.append(('control', nc, clause, mc_cfg(mc_constants(MAXLEVEL=4, **{nc: True}), STATE_INVS, ACTION_PROPS)))

    def one(job):
        kind, name, expect, cfg = job
        return job, tlc.run('MCStorage', cfg, ctx, workers=4, coverage=False, timeout=900, label=name)
    with concurrent.futures.ThreadPoolExecutor(6) as ex:
        results = list(ex.map(one, jobs))
    for (kind, name, expect, _), r in results:
        ctx.add_tlc(r, f'{kind} {name} (expected to be reported: {"/".join(expect)})')
        if not set(expect) & set(r.violated):
            if kind == 'witness':
                raise MachineryError(f'reachability witness {name} not reached: clauses may hold vacuously')
            raise MachineryError(f'negative control {name}: the model checker did not report {expect} (got {r.violated})')
    ctx.leg('A', depth=lvl - 1, seeds=6, invariants=STATE_INVS, action_properties=ACTION_PROPS,
            witnesses_reached=STATE_WITNESSES + ACTION_WITNESSES,
            negative_controls={nc: list(clause) for nc, clause in NEG_CONTROLS})


# ------------------------------------------------------------------------------------------------ the real storage

def hx(tok, salt=''):
    return hashlib.sha384(f'g05:{salt}:{tok}'.encode()).hexdigest()


class Names:
    """tokens of the specification <-> the values the real API is called with"""

    def __init__(self, root):
        self.root = root
        self.back = {os.path.join(root, d): d for d in DIRS}

    def _reg(self, real, tok):
        self.back[real] = tok
        return real

    def h(self, tok):                  # blob / sd / stream hashes: 96 hex
        return self._reg(hx(tok), tok)

    def op(self, tok):
        return self._reg(hashlib.sha256(f'g05:{tok}'.encode()).hexdigest() + ':0', tok)

    def cid(self, tok):
        return self._reg(hashlib.sha1(f'g05:{tok}'.encode()).hexdigest(), tok)

    def claim_name(self, cidtok):
        return self._reg('name-of-' + cidtok, cidtok)

    def nid(self, tok):
        raw = hashlib.sha384(f'g05:node:{tok}'.encode()).digest()
        self._reg(binascii.hexlify(raw).decode(), tok)
        return raw

    def dir(self, tok):
        return None if tok == 'NULL' else self._reg(os.path.join(self.root, tok), tok)

    def addr(self, tok):
        return self._reg(f'{tok}.reflector.example:5566', tok)

    @staticmethod
    def iv(k):
        return format(k, '032x')

    @staticmethod
    def key(name):
        return binascii.hexlify(('key-' + name).encode()).decode()

    def tok(self, real):
        if real is None:
            return 'NULL'
        return self.back.get(real, f'?{real}')


def _hex(s):
    return binascii.hexlify(s.encode()).decode()


def _unhex(s):
    try:
        return binascii.unhexlify(s).decode()
    except Exception:  # pylint: disable=broad-except
        return f'?{s}'


class Real:
    """one real SQLiteStorage over a real sqlite file, driven call by call; a second connection reads the tables"""

    def __init__(self, ctx, tag, headsd=True):
        from .lbryenv import StorageEnv
        from lbry.wallet.transaction import Transaction, Input, Output
        self.root = ctx.mkdir(f'g05-{tag}')
        for d in DIRS:
            os.makedirs(os.path.join(self.root, d), exist_ok=True)
        self.now = 1
        self.names = Names(self.root)
        self.env = StorageEnv(self.root, clock=lambda: self.now * UNIT, download_dir=os.path.join(self.root, 'dirC'),
                              announce_head_and_sd_only=headsd, concurrent_blob_announcers=LIMIT // 10)
        self.st = self.env.storage
        self.con = sqlite3.connect(os.path.join(self.root, 'lbrynet.sqlite'))
        src = Transaction().add_outputs([Output.pay_pubkey_hash(5000, b'\x01' * 20)])      # a fee transaction that round-trips
        self.fee_tx = Transaction().add_inputs([Input.spend(src.outputs[0])]).add_outputs([Output.pay_pubkey_hash(1000, b'\x02' * 20)])
        self.fee_hex = binascii.hexlify(self.fee_tx.raw).decode()
        self.disk = set()

    def close(self):
        try:
            self.con.close()
        finally:
            self.env.close()
            shutil.rmtree(self.root, ignore_errors=True)

    # ---- building arguments
    def descriptor(self, d):
        from lbry.blob.blob_info import BlobInfo
        from lbry.blob.blob_file import BlobFile
        from lbry.stream.descriptor import StreamDescriptor
        n = self.names
        infos = [BlobInfo(i, b['len'], n.iv(b['iv']), b['added'], n.h(b['h']), bool(b['mine']))
                 for i, b in enumerate(d['blobs'])]
        infos.append(BlobInfo(len(d['blobs']), 0, n.iv(d['tiv']), d['sd']['added'], None, False))
        desc = StreamDescriptor(self.env.loop, self.env.blob_dir, d['name'], n.key(d['name']) if d['key'] else None,
                                d['name'], infos, n.h(d['sh']), n.h(d['sd']['h']))
        sd = d['sd']
        sd_blob = BlobFile(self.env.loop, n.h(sd['h']), None if sd['len'] == NONE else sd['len'], None, self.env.blob_dir,
                           sd['added'], bool(sd['mine']))
        return desc, sd_blob

    def claim_info(self, i):
        from lbry.schema.claim import Claim
        n = self.names
        c = Claim()
        if i['kind'] == 'stream':
            c.stream.source.sd_hash = n.h(i['sd'])
            c.stream.title = 'a stream'
        else:
            c.channel.title = 'a channel'
        if i['chan'] != 'NULL':
            c.signing_channel_hash = binascii.unhexlify(n.cid(i['chan']))[::-1]
        txid, nout = n.op(i['op']).split(':')
        return {'txid': txid, 'nout': int(nout), 'claim_id': n.cid(i['cid']), 'name': n.claim_name(i['cid']),
                'amount': CLAIM_AMOUNT, 'height': i['height'], 'address': CLAIM_ADDRESS, 'claim_sequence': i['seq'], 'value': c}

    def fee(self, tok):
        return None if tok == 'NULL' else self.fee_tx

    @staticmethod
    def nul(v):
        return None if v == 'NULL' else v

    # ---- one call
    def coroutine(self, call, a):
        st, n = self.st, self.names
        if call == 'add_blobs':
            rows = [(n.h(r['h']), None if r['len'] == NONE else r['len'], r['added'], r['mine']) for r in a['rows']]
            if a['bad']:
                rows.append((n.h('malformed'),))
            return st.add_blobs(*rows, finished=a['fin'])
        if call == 'set_announce':
            return st.set_announce(*[n.h(h) for h in a['hs']])
        if call == 'update_last_announced_blobs':
            return st.update_last_announced_blobs([n.h(h) for h in a['hs']])
        if call == 'should_single_announce_blobs':
            return st.should_single_announce_blobs([n.h(h) for h in a['hs']], immediate=a['immediate'])
        if call == 'delete_blobs_from_db':
            return st.delete_blobs_from_db([n.h(h) for h in a['hs']])
        if call == 'sync_missing_blobs':
            files = [n.h(h) for h in a['files']]
            return st.sync_missing_blobs(files if a['bad'] else set(files))
        if call == 'update_blob_ownership':
            return st.update_blob_ownership(n.h(a['sd']), bool(a['mine']))
        if call == 'store_stream':
            desc, sd_blob = self.descriptor(a['d'])
            return st.store_stream(sd_blob, desc)
        if call == 'delete_stream':
            return st.delete_stream(self.descriptor(a['d'])[0])
        if call == 'save_published_file':
            return st.save_published_file(n.h(a['sh']), self.nul(a['fname']), n.dir(a['ddir']), float(a['rate']),
                                          status=self.nul(a['status']), content_fee=self.fee(a['fee']), added_on=a['added'])
        if call == 'save_downloaded_file':
            return st.save_downloaded_file(n.h(a['sh']), self.nul(a['fname']), n.dir(a['ddir']), float(a['rate']),
                                           content_fee=self.fee(a['fee']), added_on=a['added'])
        if call == 'change_file_status':
            return st.change_file_status(n.h(a['sh']), self.nul(a['status']))
        if call == 'stop_all_files':
            return st.stop_all_files()
        if call == 'change_file_download_dir_and_file_name':
            return st.change_file_download_dir_and_file_name(n.h(a['sh']), n.dir(a['ddir']), self.nul(a['fname']))
        if call == 'set_saved_file':
            return st.set_saved_file(n.h(a['sh']))
        if call == 'clear_saved_file':
            return st.clear_saved_file(n.h(a['sh']))
        if call == 'save_content_fee':
            return st.save_content_fee(n.h(a['sh']), self.fee(a['fee']))
        if call == 'update_manually_removed_files_since_last_run':
            return st.update_manually_removed_files_since_last_run()
        if call == 'save_claims':
            return st.save_claims([self.claim_info(i) for i in a['infos']])
        if call == 'save_content_claim':
            return st.save_content_claim(n.h(a['sh']), n.op(a['op']))
        if call == 'update_reflected_stream':
            return st.update_reflected_stream(n.h(a['sd']), n.addr(a['addr']), success=a['success'])
        if call == 'recover_streams':
            items = []
            for it in a['items']:
                desc, sd_blob = self.descriptor(it['d'])
                items.append((desc, sd_blob, self.fee(it['fee'])))
            return st.recover_streams(items, n.dir(a['ddir']))
        if call == 'save_kademlia_peers':
            return st.save_kademlia_peers([types.SimpleNamespace(node_id=n.nid(p['nid']), address=p['addr'], udp_port=p['udp'],
                                                                 tcp_port=None if p['tcp'] == NONE else p['tcp'])
                                           for p in a['peers']])
        raise MachineryError(f'unknown call {call}')

    def call(self, call, a):
        """-> (out, ret) in the vocabulary of the specification"""
        if call == 'tick':
            self.now += 1
            return 'ok', []
        if call == 'disk':
            p = (a['dir'], a['name'])
            path = os.path.join(self.names.dir(a['dir']), a['name'])
            if p in self.disk:
                os.remove(path)
                self.disk.discard(p)
            else:
                with open(path, 'wb') as f:
                    f.write(b'x')
                self.disk.add(p)
            return 'ok', []
        try:
            coro = self.coroutine(call, a)
            ret = self.env.run(coro)
        except MachineryError:
            raise
        except Exception as e:  # pylint: disable=broad-except
            if type(e) is Exception:                    # the storage's own refusals carry only a message
                msg = str(e)
                return 'raise', 'mismatching claim ids' if msg.startswith('mismatching claim ids') else msg
            return 'raise', type(e).__name__
        if self.env.loop.exceptions:
            raise MachineryError(f'loop exception during {call}: {self.env.loop.exceptions[:1]}')
        if call in ('save_published_file', 'save_downloaded_file'):
            return 'ok', ret
        if call == 'sync_missing_blobs':
            return 'ok', sorted(self.names.tok(h) for h in ret)
        return 'ok', []

    # ---- the tables, read through the second connection
    def _t(self, v):            # clock column -> units
        if v is None:
            return NONE
        return v // UNIT if v % UNIT == 0 else f'?{v}'

    def dump(self):
        n, q = self.names, self.con.execute
        out = {}
        out['blob'] = [{'h': n.tok(h), 'len': ln, 'nat': self._t(nat), 'sa': sa, 'st': st, 'lat': self._t(lat), 'single': single,
                        'added': added, 'mine': mine}
                       for h, ln, nat, sa, st, lat, single, added, mine in q(
                           'select blob_hash, blob_length, next_announce_time, should_announce, status, last_announced_time, '
                           'single_announce, added_on, is_mine from blob')]
        out['stream'] = []
        for sh, sd, key, name, sfn in q('select stream_hash, sd_hash, stream_key, stream_name, suggested_filename from stream'):
            nm = _unhex(name)
            out['stream'].append({'sh': n.tok(sh), 'sd': n.tok(sd),
                                  'name': nm if key == n.key(nm) and sfn == name else f'?{key}/{name}/{sfn}'})
        out['sblob'] = [{'sh': n.tok(sh), 'h': n.tok(h), 'pos': pos, 'iv': int(iv, 16) if re.fullmatch('[0-9a-f]{32}', iv or '') else f'?{iv}',
                         'n': cnt}
                        for sh, h, pos, iv, cnt in q('select stream_hash, blob_hash, position, iv, count(*) from stream_blob '
                                                     'group by stream_hash, blob_hash, position, iv')]
        out['file'] = []
        for rid, sh, bt, fname, ddir, rate, status, saved, fee, added in q(
                'select rowid, stream_hash, bt_infohash, file_name, download_directory, blob_data_rate, status, saved_file, '
                'content_fee, added_on from file'):
            if isinstance(fee, bytes):
                fee = fee.decode()
            out['file'].append({'rid': rid, 'sh': n.tok(sh) if bt is None else f'?bt:{bt}',
                                'fname': 'NULL' if fname is None else _unhex(fname),
                                'ddir': 'NULL' if ddir is None else n.tok(_unhex(ddir)),
                                'rate': int(rate) if float(rate).is_integer() else f'?{rate}', 'status': status, 'saved': saved,
                                'fee': 'NULL' if fee is None else 'fee1' if fee == self.fee_hex else f'?{fee}',
                                'added': WALL if added > 10 ** 9 else added})
        out['claim'] = []
        for rid, op, cid, name, amount, height, ser, chan, addr, seq in q(
                'select rowid, claim_outpoint, claim_id, claim_name, amount, height, serialized_metadata, channel_claim_id, '
                'address, claim_sequence from claim'):
            kind, sd = self._decode_claim(ser)
            ok = name == 'name-of-' + n.tok(cid) and amount == 100000000 and addr == CLAIM_ADDRESS
            out['claim'].append({'rid': rid, 'op': n.tok(op), 'cid': n.tok(cid) if ok else f'?{cid}/{name}/{amount}/{addr}',
                                 'kind': kind, 'sd': sd, 'height': height, 'seq': seq, 'chan': n.tok(chan)})
        out['cclaim'] = [{'sh': n.tok(sh) if bt is None else f'?bt:{bt}', 'op': n.tok(op)}
                         for sh, bt, op in q('select stream_hash, bt_infohash, claim_outpoint from content_claim')]
        out['refl'] = [{'sd': n.tok(sd), 'addr': n.tok(addr), 'ts': self._t(int(ts)) if float(ts).is_integer() else f'?{ts}'}
                       for sd, addr, ts in q('select sd_hash, reflector_address, timestamp from reflected_stream')]
        out['peer'] = [{'nid': n.tok(nid.decode() if isinstance(nid, bytes) else nid), 'addr': addr, 'udp': udp,
                        'tcp': NONE if tcp is None else tcp}
                       for nid, addr, udp, tcp in q('select node_id, address, udp_port, tcp_port from peer')]
        return out

    def _decode_claim(self, ser):
        from lbry.schema.claim import Claim
        try:
            c = Claim.from_bytes(binascii.unhexlify(ser))
            if c.is_stream:
                return 'stream', self.names.tok(c.stream.source.sd_hash)
            return 'channel', 'NULL'
        except Exception:  # pylint: disable=broad-except
            return '?', '?'

    # ---- every read call
    def _claim_view(self, c, crid):
        n = self.names
        if isinstance(c, dict):
            op = f"{c['txid']}:{c['nout']}"
            cid, height, seq, chan, channame = c['claim_id'], c['height'], c['claim_sequence'], c['channel_claim_id'], c['channel_name']
        else:
            op, cid, height, seq, chan, channame = c.outpoint, c.claim_id, c.height, c.claim_sequence, c.channel_claim_id, c.channel_name
        return {'op': n.tok(op), 'cid': n.tok(cid), 'crid': crid.get(n.tok(op), 0), 'height': height, 'seq': seq,
                'chan': n.tok(chan), 'channame': n.tok(channame)}

    def _blob_infos(self, infos):
        n = self.names
        return [{'h': n.tok(b.blob_hash), 'pos': b.blob_num, 'iv': int(b.iv, 16), 'len': b.length,
                 'added': WALL if b.added_on > 10 ** 9 else b.added_on} for b in infos]

    def observe(self, qsh, qsd, qh, dump):
        n, st, run = self.names, self.st, self.env.run
        crid = {c['op']: c['rid'] for c in dump['claim']}
        o = {}
        files = []
        for f in run(st.get_all_lbry_files()):
            fee = f['content_fee']
            files.append({'rid': f['rowid'], 'sh': n.tok(f['stream_hash']),
                          'fname': 'NULL' if f['file_name'] is None else _unhex(f['file_name']),
                          'ddir': 'NULL' if f['download_directory'] is None else n.tok(_unhex(f['download_directory'])),
                          'rate': int(f['blob_data_rate']), 'status': f['status'], 'saved': 1 if f['saved_file'] else 0,
                          'fee': 'NULL' if fee is None else 'fee1' if fee.raw == self.fee_tx.raw else '?fee',
                          'added': WALL if f['added_on'] > 10 ** 9 else f['added_on'], 'sd': n.tok(f['sd_hash']),
                          'name': _unhex(f['stream_name']) if f['key'] == n.key(_unhex(f['stream_name']))
                          and f['suggested_file_name'] == f['stream_name'] else '?name',
                          'claim': self._claim_view(f['claim'], crid), 'refl': f['fully_reflected']})
        o['files'] = files
        o['sball'] = {sh: self._blob_infos(run(st.get_blobs_for_stream(n.h(sh)))) for sh in qsh}
        o['sbdone'] = {sh: self._blob_infos(run(st.get_blobs_for_stream(n.h(sh), only_completed=True))) for sh in qsh}
        o['sh4sd'], o['sexists'], o['fexists'] = {}, {}, {}
        for sd in qsd:
            r = run(st.get_stream_hash_for_sd_hash(n.h(sd)))
            o['sh4sd'][sd] = [] if r is None else [n.tok(r)]
            o['sexists'][sd] = bool(run(st.stream_exists(n.h(sd))))
            o['fexists'][sd] = bool(run(st.file_exists(n.h(sd))))
        o['sd4sh'] = {}
        for sh in qsh:
            r = run(st.get_sd_blob_hash_for_stream(n.h(sh)))
            o['sd4sh'][sh] = [] if r is None else [n.tok(r)]
        o['allblobs'] = [n.tok(h) for h in run(st.get_all_blob_hashes())]
        o['allstreams'] = [n.tok(h) for h in run(st.get_all_stream_hashes())]
        o['status'] = {}
        for h in qh:
            r = run(st.get_blob_status(n.h(h)))
            o['status'][h] = [] if r is None else [r]
        o['announce'] = [n.tok(h) for h in run(st.get_blobs_to_announce())]
        o['cclaim'] = {}
        for sh in qsh:
            r = run(st.get_content_claim(n.h(sh), include_supports=False))
            o['cclaim'][sh] = [] if r is None else [self._claim_view(r, crid)]
        cnt = {}
        for sd in run(st.get_streams_to_re_reflect()):
            cnt[n.tok(sd)] = cnt.get(n.tok(sd), 0) + 1
        o['rereflect'] = [{'sd': sd, 'n': k} for sd, k in sorted(cnt.items())]
        o['peers'] = [{'nid': n.tok(binascii.hexlify(nid).decode()), 'addr': a, 'udp': u, 'tcp': NONE if t is None else t}
                      for nid, a, u, t in run(st.get_persisted_kademlia_peers())]
        return o


# ------------------------------------------------------------------------------------------------ comparing with TLC's values

def canon(v):
    """parsed TLA+ value or harness value -> hashable canonical form (sets and lists of rows become frozensets)"""
    if isinstance(v, dict):
        if '$set' in v:
            return frozenset(canon(x) for x in v['$set'])
        if '$fn' in v:
            return tuple(sorted((str(k), canon(x)) for k, x in v['$fn'].items()))
        return tuple(sorted((k, canon(x)) for k, x in v.items()))
    if isinstance(v, (list, tuple)):
        return tuple(canon(x) for x in v)
    if isinstance(v, bool):
        return v
    return v


def plain(v):
    """parsed TLA+ value -> plain python (sets become lists) for calling the real code"""
    if isinstance(v, dict):
        if '$set' in v:
            return [plain(x) for x in v['$set']]
        if '$fn' in v:
            return {k: plain(x) for k, x in v['$fn'].items()}
        return {k: plain(x) for k, x in v.items()}
    if isinstance(v, list):
        return [plain(x) for x in v]
    return v


TABLES = ['blob', 'stream', 'sblob', 'file', 'claim', 'cclaim', 'refl', 'peer']


def rows_set(rows):
    return frozenset(tuple(sorted(r.items())) for r in rows)


def python_clauses(dump):
    """the referential-integrity clauses once more, in Python, on the dump (cross-check of the TLC verdicts)"""
    bad = []
    streams = {s['sh'] for s in dump['stream']}
    claims = {c['op'] for c in dump['claim']}
    if any(r['sh'] not in streams for r in dump['sblob']):
        bad.append('RefStreamBlob')
    if any(f['sh'] not in streams for f in dump['file']):
        bad.append('RefFile')
    if any(c['sh'] not in streams or c['op'] not in claims for c in dump['cclaim']):
        bad.append('RefContentClaim')
    return bad


def obs_matches_expected(o, exp, dump):
    """real read results (lists) against the obs value TLC printed (parsed); returns the names of differing fields"""
    diffs = []
    e = plain(exp)

    def same_rows(real, want):
        return len(real) == len(want) and rows_deep(real) == rows_deep(want)

    def rows_deep(rows):
        return frozenset(canon(r) for r in rows)
    if not same_rows(o['files'], e['files']) or [f['claim']['crid'] for f in o['files']] != sorted((f['claim']['crid'] for f in o['files']), reverse=True):
        diffs.append('get_all_lbry_files')
    for fld, name in (('sball', 'get_blobs_for_stream'), ('sbdone', 'get_blobs_for_stream(only_completed)')):
        for sh, real in o[fld].items():
            if not same_rows(real, e[fld][sh]) or [b['pos'] for b in real] != sorted(b['pos'] for b in real):
                diffs.append(name)
                break
    for fld, name in (('sh4sd', 'get_stream_hash_for_sd_hash'), ('sd4sh', 'get_sd_blob_hash_for_stream'), ('status', 'get_blob_status')):
        if any(sorted(real) != sorted(e[fld][k]) for k, real in o[fld].items()):
            diffs.append(name)
    if any(real != bool(e['sh4sd'][k]) for k, real in o['sexists'].items()):
        diffs.append('stream_exists')
    if any(real != e['fexists'][k] for k, real in o['fexists'].items()):
        diffs.append('file_exists')
    if sorted(o['allblobs']) != sorted(e['allblobs']):
        diffs.append('get_all_blob_hashes')
    if sorted(o['allstreams']) != sorted(e['allstreams']):
        diffs.append('get_all_stream_hashes')
    cand = {a['h']: a['nat'] for a in e['announce']}
    got = o['announce']
    nats = [cand.get(h) for h in got]
    if (len(set(got)) != len(got) or any(h not in cand for h in got) or len(got) != min(len(cand), LIMIT) or nats != sorted(nats)
            or any(cand[h] < max(nats) for h in cand if h not in got)):
        diffs.append('get_blobs_to_announce')
    if any(not same_rows(real, e['cclaim'][k]) for k, real in o['cclaim'].items()):
        diffs.append('get_content_claim')
    if not same_rows(o['rereflect'], e['rereflect']):
        diffs.append('get_streams_to_re_reflect')
    if not same_rows(o['peers'], e['peers']):
        diffs.append('get_persisted_kademlia_peers')
    return diffs


# ------------------------------------------------------------------------------------------------ a fast reader for TLC's -simulate files

_TOK = re.compile(r'\s*(<<|>>|\|->|:>|@@|[\[\]{}(),]|"(?:[^"\\]|\\.)*"|-?\d+|\w+)')


def parse_tla(text, i=0):
    """TLA+ value printed by TLC -> python (records: dict, sequences: list, sets: {'$set': [...]}, functions: {'$fn': {...}})"""
    toks = _TOK.findall(text)
    pos = 0

    def val():
        nonlocal pos
        t = toks[pos]
        pos += 1
        if t == '<<':
            out = []
            while toks[pos] != '>>':
                out.append(val())
                if toks[pos] == ',':
                    pos += 1
            pos += 1
            return out
        if t == '{':
            out = []
            while toks[pos] != '}':
                out.append(val())
                if toks[pos] == ',':
                    pos += 1
            pos += 1
            return {'$set': out}
        if t == '[':
            out = {}
            while toks[pos] != ']':
                k = toks[pos]
                if toks[pos + 1] != '|->':
                    raise ValueError(f'record field expected near {toks[pos:pos + 4]}')
                pos += 2
                out[k] = val()
                if toks[pos] == ',':
                    pos += 1
            pos += 1
            return out
        if t == '(':
            out = {}
            while toks[pos] != ')':
                k = val()
                if toks[pos] != ':>':
                    raise ValueError(f':> expected near {toks[pos:pos + 4]}')
                pos += 1
                out[k if isinstance(k, (str, int, bool)) else json.dumps(k)] = val()
                if toks[pos] == '@@':
                    pos += 1
            pos += 1
            return {'$fn': out}
        if t[0] == '"':
            return t[1:-1].replace('\\"', '"').replace('\\\\', '\\')
        if t == 'TRUE':
            return True
        if t == 'FALSE':
            return False
        if t[0] == '-' or t[0].isdigit():
            return int(t)
        raise ValueError(f'cannot parse token {t!r}')
    v = val()
    if pos != len(toks):
        raise ValueError(f'trailing tokens {toks[pos:pos + 5]}')
    return v


_STATE = re.compile(r'^STATE_\d+ ==\s*\n(.*?)(?=^\\\*|^STATE_|^=+|\Z)', re.S | re.M)
_VAR = re.compile(r'^/\\ (\w+) = ', re.M)


def read_behaviour(path):
    txt = open(path).read()
    states = []
    for m in _STATE.finditer(txt):
        body = m.group(1)
        marks = list(_VAR.finditer(body))
        st = {}
        for k, vm in enumerate(marks):
            end = marks[k + 1].start() if k + 1 < len(marks) else len(body)
            st[vm.group(1)] = parse_tla(body[vm.end():end])
        states.append(st)
    return states


# ------------------------------------------------------------------------------------------------ recording + judging by TLC

class Recorder:
    """runs calls on a Real, records the events StorageTrace.tla reads"""

    def __init__(self, ctx, real, qsh, qsd, qh):
        self.ctx, self.real = ctx, real
        self.qsh, self.qsd, self.qh = sorted(qsh), sorted(qsd), sorted(qh)
        self.ev = []
        self.pyclauses = []

    def step(self, call, args):
        real = self.real
        before = self.ev[-1]['dump'] if self.ev else {t: [] for t in TABLES}
        out, ret = real.call(call, args)
        dump = real.dump()
        obs = real.observe(self.qsh, self.qsd, self.qh, dump)
        e = {'call': call, 'args': args if args else [], 'out': out, 'ret': ret, 'now': real.now,
             'disk': sorted([d, nm] for d, nm in real.disk), 'dump': dump, 'obs': obs}
        self.ev.append(e)
        bad = [c for c in python_clauses(dump) if c not in python_clauses(before)]       # reported at the step that breaks them
        if out == 'raise' and any(rows_set(before[t]) != rows_set(dump[t]) for t in TABLES):
            bad.append('FailedCallChangesNothing')
        if bad:
            self.pyclauses.append((len(self.ev), bad))
        self.ctx.count((call, json.dumps(args, sort_keys=True, default=str), out), nontrivial=call not in ('tick', 'disk'))
        return e


def trace_cfg():
    consts = {'HALF': HALF, 'DAY': DAY, 'LIMIT': '<-TrLIMIT', 'HEADSD': '<-TrHEADSD', 'CONFDIR': '<-TrCONFDIR',
              'QSH': '<-TrQSH', 'QSD': '<-TrQSD', 'QH': '<-TrQH', 'OBSERVE': False,
              'NC_DEL_KEEPS_SBLOB': False, 'NC_STORE_REPLACES': False, 'NC_NO_ROLLBACK': False, 'NC_NO_CLAIMID_CHECK': False,
              'NC_FILE_NO_FK': False}
    return tlc.make_cfg(spec='TSpec', constants=consts, constraint='Reached', postcondition='Report')


_LINE = re.compile(r'^<<"(CLAUSE|QUERY|DRIFT)", (\d+), (\d+), (.*)>>$')
_DONE = re.compile(r'^<<"DONE", (\d+), (\d+), (\d+)>>$')


def judge(ctx, traces, consts, label, chunk_events=4000):
    """traces: list of event lists. Returns per trace: {'clause': [(step, name)], 'query': [...], 'drift': [(step, what)]}"""
    verdicts = [{'clause': [], 'query': [], 'drift': []} for _ in traces]
    base = 0
    while base < len(traces):
        n, k = 0, base
        while k < len(traces) and (k == base or n + len(traces[k]) <= chunk_events):
            n += len(traces[k])
            k += 1
        part = traces[base:k]
        path = os.path.join(ctx.mkdir('traces'), f'{label}-{base}.json')
        with open(path, 'w') as f:
            json.dump({'consts': consts, 'traces': [{'ev': t} for t in part]}, f)
        res = tlc.run('StorageTrace', trace_cfg(), ctx, workers=1, coverage=False, env={'TRACE_FILE': path}, timeout=1800,
                      label=f'{label}-{base}', deque=True)
        ctx.add_tlc(res, f'StorageTrace {label} [{base}:{k}] ({n} real steps)')
        if res.violated or res.deadlock:
            raise MachineryError(f'trace validation {label}: unexpected TLC verdict {res.violated}\n{res.out[-2000:]}')
        done = {}
        text = re.sub(r'\n\s+', ' ', res.out)          # PrintT wraps long tuples
        for ln in text.splitlines():
            m = _LINE.match(ln)
            if m:
                kind, tid, step, what = m.group(1), int(m.group(2)), int(m.group(3)), m.group(4)
                v = verdicts[base + tid - 1][kind.lower()]
                if (step, what) not in v:
                    v.append((step, what))
                continue
            m = _DONE.match(ln)
            if m:
                done[int(m.group(1))] = (int(m.group(2)), int(m.group(3)))
        for t in range(1, len(part) + 1):
            if t not in done or done[t][0] != len(part[t - 1]) or done[t][1] != len(part[t - 1]):
                raise MachineryError(f'trace validation {label}: trace {base + t - 1} judged {done.get(t)} of {len(part[t - 1])} steps\n'
                                     f'{res.out[-3000:]}')
        base = k
    return verdicts


def classify(ev, name):
    """a specific key for a clause broken by the real code: clause + call"""
    return f'{name}@{ev["call"]}'


def report(ctx, leg, traces, verdicts, recs):
    """turn TLC's verdicts on real runs into violations / drift notes; cross-check with the Python clauses"""
    drift = {}
    nviol = 0
    for tr, v, rec in zip(traces, verdicts, recs):
        tlc_ri = {(s, nm.strip('"')) for s, nm in v['clause']}
        for step, bad in rec.pyclauses:
            for nm in bad:
                if (step, nm) not in tlc_ri:
                    raise MachineryError(f'{leg}: Python finds {nm} broken at step {step} but TLC does not: {tr[step - 1]["call"]}')
        for step, nm in sorted(set(v['clause'])):
            nm = nm.strip('"')
            ev = tr[step - 1]
            nviol += 1
            ctx.violation(classify(ev, nm), f'clause {nm} broken by the real {ev["call"]} ({ev["out"]}) at step {step} of a {leg} history',
                          {'history': [[e['call'], e['args'], e['out'], e['ret']] for e in tr[:step]],
                           'before': tr[step - 2]['dump'] if step >= 2 else {}, 'after': ev['dump']})
        for step, nm in sorted(set(v['query'])):
            nm = nm.strip('"')
            ev = tr[step - 1]
            nviol += 1
            ctx.violation(f'QueriesMatch:{nm}', f'{nm} does not return the function of the tables the specification gives, '
                          f'after {ev["call"]} at step {step} of a {leg} history',
                          {'history': [[e['call'], e['args'], e['out'], e['ret']] for e in tr[:step]], 'tables': ev['dump'],
                           'returned': ev['obs']})
        broken = {s for s, _ in v['clause']}
        for step, what in v['drift']:
            if step in broken:
                continue                    # already reported as a violation
            call = tr[step - 1]['call']
            drift.setdefault(f'{call}: {what}', []).append((step, tr[step - 1]['args']))
    return drift, nviol


# ------------------------------------------------------------------------------------------------ Leg B

def leg_b(ctx):
    per_worker, depth = (120, 30) if ctx.thorough else (20, 25)
    workers = 8
    out = ctx.mkdir('sim')
    consts = mc_constants(OBSERVE=True, BIG=ctx.thorough, MAXNOW=6)
    res = tlc.run('MCStorage', mc_cfg(consts, STATE_INVS, ACTION_PROPS, level=False, view=False), ctx, workers=workers,
                  simulate=f'num={per_worker},file={out}/tr', depth=depth, seed=ctx.seed + 11, timeout=1200, label='Storage-sim')
    ctx.add_tlc(res, f'MCStorage -simulate {per_worker * workers} behaviours of depth {depth}')
    if res.violated:
        ctx.violation('model:' + res.violated[0], f'model clause {res.violated[0]} violated in simulation', res.error_trace[:8000])
    files = sorted(f for f in os.listdir(out) if f.startswith('tr'))
    if len(files) < per_worker * workers // 2:
        raise MachineryError(f'TLC wrote {len(files)} behaviours, expected about {per_worker * workers}')
    traces, recs = [], []
    mism = 0
    calls_seen, raises = set(), 0
    for k, fn in enumerate(files):
        states = read_behaviour(os.path.join(out, fn))
        if len(states) < 2:
            continue
        real = Real(ctx, f'b{k}')
        try:
            rec = Recorder(ctx, real, MC_QSH, MC_QSD, MC_QH)
            with watchdog(120):
                # the seed state is reached on the real storage with the calls that define it in MCStorage
                seeded = True
                for call, args in seed_script(states[0]['last']['args']['k']):
                    if rec.step(call, args)['out'] != 'ok':
                        seeded = False           # the real storage refuses a step of the seed script: TLC reports it (drift)
                        break
                pre = len(rec.ev)
                if not seeded or not tables_equal(rec.ev[-1]['dump'] if rec.ev else {t: [] for t in TABLES}, states[0]):
                    mism += 1
                    states = states[:1]         # the emitted behaviour does not start where the real storage is
                for s in states[1:]:
                    last = plain(s['last'])
                    e = rec.step(last['call'], last['args'] if isinstance(last['args'], dict) else {})
                    calls_seen.add(last['call'])
                    raises += e['out'] == 'raise'
                    same = (e['out'] == last['out'] and tables_equal(e['dump'], s) and e['now'] == s['now']
                            and not obs_matches_expected(e['obs'], s['obs'], e['dump']))
                    if e['out'] == 'ok' and last['call'] in ('save_published_file', 'save_downloaded_file') and e['ret'] != last['ret']:
                        same = False
                    if e['out'] == 'ok' and last['call'] == 'sync_missing_blobs' and sorted(e['ret']) != sorted(last['ret']):
                        same = False
                    if not same:
                        mism += 1
                        e['_differs_from_emitted'] = True
                        break           # the rest of the emitted behaviour no longer describes this run
            traces.append([{k2: v for k2, v in e.items() if not k2.startswith('_')} for e in rec.ev])
            recs.append(rec)
            if k < 2:
                ctx.sample({'leg': 'B', 'history': [[e['call'], e['args'], e['out'], e['ret']] for e in rec.ev[pre:pre + 8]]})
        finally:
            real.close()
    consts_json = {'QSH': sorted(MC_QSH), 'QSD': sorted(MC_QSD), 'QH': sorted(MC_QH), 'LIMIT': LIMIT, 'HEADSD': True, 'CONFDIR': 'dirC'}
    verdicts = judge(ctx, traces, consts_json, 'legB')
    drift, nviol = report(ctx, 'TLC-generated', traces, verdicts, recs)
    flagged = sum(1 for v in verdicts if v['clause'] or v['query'] or v['drift'])
    if mism and not flagged:
        raise MachineryError(f'Leg B: {mism} replays differ from the states TLC emitted but StorageTrace accepts all of them')
    missing = set(CALLS) - calls_seen
    if missing and not mism:
        raise MachineryError(f'Leg B never exercised: {sorted(missing)}')
    ctx.cov['traces_validated_against_impl'] += len(traces)
    ctx.leg('B', behaviours=len(traces), real_calls=sum(len(t) for t in traces), raising_calls=raises,
            replays_differing_from_emitted_state=mism, drift=len(drift), clause_or_query_violations=nviol)
    return drift


def tables_equal(dump, state):
    return all(rows_set(dump[t]) == canon(state[t]) for t in TABLES)


# the seed states of MCStorage as call scripts (the same calls the specification composes)
def _desc(sh, name, sd, hs, mine):
    return {'sh': sh, 'name': name, 'key': True, 'tiv': len(hs) + 1, 'sd': {'h': sd, 'len': 3, 'added': 2, 'mine': mine},
            'blobs': [{'h': h, 'len': 2, 'added': 2, 'mine': mine, 'iv': i + 1} for i, h in enumerate(hs)]}


def _ci(op, cid, kind, sd, height, chan):
    return {'op': op, 'cid': cid, 'kind': kind, 'sd': sd, 'height': height, 'seq': height, 'chan': chan}


D1, D2 = _desc('s1', 'n1', 'sdA', ['b1', 'b2'], 0), _desc('s2', 'n2', 'sdB', ['b2', 'b3'], 1)
I1, I2, I3 = _ci('o1', 'c1', 'stream', 'sdA', 1, 'NULL'), _ci('o2', 'c1', 'stream', 'sdA', 2, 'c9'), _ci('o3', 'c2', 'stream', 'sdA', 1, 'NULL')
I4, I5 = _ci('o4', 'c3', 'stream', 'sdB', 1, 'NULL'), _ci('o5', 'c9', 'channel', 'NULL', 1, 'NULL')


def _fi(sh):
    return ('save_downloaded_file', {'sh': sh, 'fname': 'f2', 'ddir': 'dirA', 'rate': 0, 'fee': 'NULL', 'added': 6})


def _ab(hs):
    return ('add_blobs', {'rows': [{'h': h, 'len': 1, 'added': 1, 'mine': 0} for h in hs], 'fin': True, 'bad': False})


def seed_script(k):
    s2 = [('store_stream', {'d': D1}), ('store_stream', {'d': D2})]
    s3 = s2 + [('save_claims', {'infos': [I1, I2, I3, I4, I5]}), _fi('s1'), _fi('s2')]
    s4 = s3 + [('save_content_claim', {'sh': 's1', 'op': 'o1'}), ('save_content_claim', {'sh': 's2', 'op': 'o4'})]
    return {1: [], 2: s2, 3: s3, 4: s4,
            5: [_ab(['b1', 'b2', 'sdA']), ('store_stream', {'d': D1}), ('save_claims', {'infos': [I1, I3]})],
            6: s4 + [_ab(['b1', 'b2', 'b3', 'sdA', 'sdB']), ('delete_blobs_from_db', {'hs': ['b2']})]}[k]


# ------------------------------------------------------------------------------------------------ Leg C

class Universe:
    """a larger universe for the random histories: nb data blobs, ns streams over overlapping windows of them"""

    def __init__(self, rng, nb=13, ns=4):        # 13 + 5 hashes: more than LIMIT can be due for announcement
        self.rng = rng
        self.blobs = [f'b{i}' for i in range(1, nb + 1)]
        self.descs = []
        for s in range(1, ns + 1):
            k = rng.randint(0, 4) if s > 1 else 3
            start = rng.randrange(0, nb - 3)
            hs = self.blobs[start:start + k]
            if s == ns and rng.random() < 0.5 and hs:
                hs = hs + [hs[0]]                      # a repeated blob
            self.descs.append(_desc(f's{s}', f'n{s}', f'sd{s}', hs, rng.randint(0, 1)))
        self.variants = [dict(self.descs[0], sd=dict(self.descs[0]['sd'], h='sdV')),        # same stream, other sd hash
                         dict(self.descs[1], key=False),
                         dict(self.descs[2], sd=dict(self.descs[2]['sd'], len=NONE))]
        self.sds = [d['sd']['h'] for d in self.descs] + ['sdV']
        self.shs = [d['sh'] for d in self.descs]
        self.hashes = self.blobs + self.sds
        self.infos = []
        for s, d in enumerate(self.descs, 1):
            self.infos.append(_ci(f'o{s}a', f'c{s}', 'stream', d['sd']['h'], 1, 'NULL'))
            self.infos.append(_ci(f'o{s}b', f'c{s}', 'stream', d['sd']['h'], 2, 'c9'))          # an update of the same claim
        self.infos.append(_ci('ox', 'cx', 'stream', self.descs[0]['sd']['h'], 1, 'NULL'))        # another claim for stream 1
        self.infos.append(_ci('o9', 'c9', 'channel', 'NULL', 1, 'NULL'))
        self.infos.append(_ci('o1a', 'c1', 'stream', self.descs[1]['sd']['h'], 3, 'NULL'))       # outpoint o1a with other content
        self.ops = sorted({i['op'] for i in self.infos}) + ['oU']
        self.qsh = self.shs + ['sU']
        self.qsd = self.sds + ['sdU']
        self.qh = self.hashes + ['bU']

    def some(self, pool, lo=0, hi=3):
        return [self.rng.choice(pool) for _ in range(self.rng.randint(lo, hi))]

    def call(self):
        r, c = self.rng, self.rng.choice
        w = r.random()
        sh = c(self.qsh)
        if w < 0.16:
            rows = [{'h': c(self.hashes + ['bU']), 'len': c([1, 1, 2, NONE]), 'added': c([1, 2, 3]), 'mine': r.randint(0, 1)}
                    for _ in range(r.randint(1, 6))]
            return 'add_blobs', {'rows': rows, 'fin': r.random() < 0.7, 'bad': r.random() < 0.08}
        if w < 0.28:
            return 'store_stream', {'d': c(self.descs + self.descs + self.variants)}
        if w < 0.34:
            return 'delete_stream', {'d': c(self.descs + self.variants[:1])}
        if w < 0.40:
            return 'delete_blobs_from_db', {'hs': self.some(self.hashes + ['bU'], 0, 3)}
        if w < 0.47:
            fn, dd = c([('NULL', 'NULL'), ('f1', 'dirA'), ('f2', 'dirB'), ('f1', 'NULL'), ('NULL', 'dirA')])
            a = {'sh': sh, 'fname': fn, 'ddir': dd, 'rate': 0, 'fee': c(['NULL', 'NULL', 'fee1']), 'added': r.randint(1, 9)}
            if r.random() < 0.5:
                return 'save_downloaded_file', a
            return 'save_published_file', dict(a, status=c(['finished', 'finished', 'stopped', 'NULL']))
        if w < 0.52:
            return 'change_file_status', {'sh': sh, 'status': c(['running', 'stopped', 'finished', 'NULL'])}
        if w < 0.54:
            return 'stop_all_files', {}
        if w < 0.57:
            fn, dd = c([('f1', 'dirA'), ('f2', 'dirB'), ('NULL', 'dirA'), ('f2', 'NULL')])
            return 'change_file_download_dir_and_file_name', {'sh': sh, 'ddir': dd, 'fname': fn}
        if w < 0.60:
            return c(['set_saved_file', 'clear_saved_file']), {'sh': sh}
        if w < 0.62:
            return 'save_content_fee', {'sh': sh, 'fee': 'fee1'}
        if w < 0.64:
            return 'update_manually_removed_files_since_last_run', {}
        if w < 0.72:
            return 'save_claims', {'infos': self.some(self.infos, 1, 3)}
        if w < 0.80:
            return 'save_content_claim', {'sh': sh, 'op': c(self.ops)}
        if w < 0.83:
            return 'update_blob_ownership', {'sd': c(self.qsd), 'mine': r.randint(0, 1)}
        if w < 0.86:
            return 'sync_missing_blobs', {'files': sorted(set(self.some(self.hashes + ['bU'], 0, 8))), 'bad': r.random() < 0.1}
        if w < 0.89:
            return 'update_last_announced_blobs', {'hs': self.some(self.hashes, 0, 3)}
        if w < 0.91:
            return 'should_single_announce_blobs', {'hs': self.some(self.hashes, 0, 3), 'immediate': r.random() < 0.5}
        if w < 0.92:
            return 'set_announce', {'hs': self.some(self.hashes, 1, 3)}
        if w < 0.94:
            return 'update_reflected_stream', {'sd': c(self.sds), 'addr': c(['r1', 'r2']), 'success': r.random() < 0.7}
        if w < 0.95:
            items = [{'d': c(self.descs), 'fee': c(['NULL', 'fee1'])} for _ in range(r.randint(1, 2))]
            if len({i['d']['sh'] for i in items}) < len(items):
                items = items[:1]
            return 'recover_streams', {'items': items, 'ddir': c(['dirA', 'dirA', 'NULL'])}
        if w < 0.96:
            ps = [{'nid': c(['k1', 'k2', 'k3']), 'addr': c(['a1', 'a2']), 'udp': c([1, 2]), 'tcp': c([3, NONE])} for _ in range(r.randint(0, 3))]
            return 'save_kademlia_peers', {'peers': ps}
        if w < 0.98:
            return 'tick', {}
        return 'disk', {'dir': c(['dirA', 'dirB']), 'name': c(['f1', 'f2'] + [d['name'] for d in self.descs[:2]])}


def leg_c(ctx):
    nhist, length = (24, 500) if ctx.thorough else (4, 250)
    drift_all = {}
    total = nviol = at_limit = 0
    for k in range(nhist):
        uni = Universe(ctx.rng)
        real = Real(ctx, f'c{k}', headsd=(k % 2 == 0))
        try:
            rec = Recorder(ctx, real, uni.qsh, uni.qsd, uni.qh)
            with watchdog(600):
                for _ in range(length):
                    call, args = uni.call()
                    rec.step(call, args)
        finally:
            real.close()
        consts_json = {'QSH': sorted(uni.qsh), 'QSD': sorted(uni.qsd), 'QH': sorted(uni.qh), 'LIMIT': LIMIT,
                       'HEADSD': k % 2 == 0, 'CONFDIR': 'dirC'}
        verdicts = judge(ctx, [rec.ev], consts_json, f'legC{k}')
        drift, nv = report(ctx, 'random long', [rec.ev], verdicts, [rec])
        for key, v in drift.items():
            drift_all.setdefault(key, []).extend(v)
        nviol += nv
        total += len(rec.ev)
        at_limit += sum(len(e['obs']['announce']) == LIMIT for e in rec.ev)
        if k == 0:
            ctx.sample({'leg': 'C', 'universe': {'streams': {d['sh']: [b['h'] for b in d['blobs']] for d in uni.descs}},
                        'history_head': [[e['call'], e['out']] for e in rec.ev[:12]],
                        'raising_calls': sum(e['out'] == 'raise' for e in rec.ev)})
    ctx.cov['traces_validated_against_impl'] += nhist
    ctx.leg('C', histories=nhist, calls_each=length, real_calls=total, drift=len(drift_all), clause_or_query_violations=nviol,
            steps_with_get_blobs_to_announce_at_its_limit=at_limit)
    return drift_all


def run(ctx):
    leg_a(ctx)
    drift = leg_b(ctx)
    for key, v in leg_c(ctx).items():
        drift.setdefault(key, []).extend(v)
    if drift:
        print(f'NOTE: the real storage differs from the transformers of Storage.tla in {len(drift)} way(s) that break no clause '
              f'(drift, not a violation):')
        for key, v in sorted(drift.items())[:12]:
            print(f'  {key}: {len(v)} step(s), e.g. args {json.dumps(v[0][1], default=str)[:200]}')
    ctx.cov['spec_drift'] = {k: len(v) for k, v in drift.items()}
    ctx.cov['rule'] = ('Leg A: every state of MCStorage to the stated depth from six seed states. Leg B: TLC -simulate behaviours '
                       'replayed call by call on a real SQLiteStorage over a real sqlite file (tables read back through a second '
                       'connection after every call). Leg C: seeded random histories in a larger universe. One evaluation = one '
                       'real call followed by a dump of all tables and every read call; distinct = distinct (call, arguments, '
                       'outcome); non-trivial = not an environment step (tick / disk).')
    ctx.assumptions += [
        'torrent*, support tables and save_supports / save_torrent_content_claim are outside the statement and not driven',
        'claim name, amount and address are fixed functions of the claim id (the columns are written and read back, not varied)',
        'one stream per sd hash in every universe (the lookups by sd hash take the first row)',
        'the clock handed to SQLiteStorage is a multiple of 21600 s (one specification unit); file added_on is always passed '
        '(added_on=0/None falls back to the wall clock)',
        'calls are issued one at a time (AIOSQLite serialises writers with a lock; concurrency of callers is not explored)',
    ]
