"""G09 (growth) -- the LRU caches of lbry.utils behave as LRU maps of bounded size.

Specifications: specs/LruCache.tla (LRUCache / LRUCacheWithMetrics: one action per public method written the way the
code works on its OrderedDict; the clauses stated on a ghost use-clock and call counts; deviations D1-D4 in its header)
and specs/LruConcurrent.tla (lru_cache_concurrent on top of that cache: callers as tasks, explicit ready queue;
D5-D7).  cache_concurrent itself is specs/CacheConcurrent.tla (checked from the C10 driver); its late-pop defect
carries over to the LRU variant and is reported here as a finding.

Leg A   TLC, exhaustive: LruCache for the three kinds of cache x capacities 0..3 over 3 keys / 2 values, histories of
        <= 6 (quick) / 7 (thorough) calls of the whole method alphabet: Bounded, RecencyOrder, EvictsLeastRecentlyUsed,
        AgreesWithDict, UseRefreshes, MetricsExact, SetStores, ZeroCapacity; witnesses; three negative controls.
        LruConcurrent (3 callers, 2 keys, capacity 1 and 2): with the guarded pop every clause incl. OnlyOnce holds; as
        found OnlyOnce must be violated (D6); witnesses.
Leg B   (i) every TRANSITION of the state graph of LruCache (VIEW = the cache: every distinct cache content and counter
        value reached within 7 calls, by a shortest history; ACTION_CONSTRAINT prints the history ending in each call
        with the expected return value and cache after every call) and (ii) ALL histories of a reduced alphabet
        (get / set / pop / clear, one value) up to depth 4 (quick) / 6 (thorough) are replayed on fresh real caches:
        return value of every call; len, membership of every key, items() (LRUCache) and the prometheus counters after
        every call; at the end the recency order is read off through the public API (fresh keys are set until the
        original ones have all been evicted: they must leave in the expected order).
        (iii) TLC -simulate schedules of LruConcurrent are replayed on the real decorator around a gated coroutine under
        DetLoop: which executions were started for which key, which are in flight, what every caller got, the LRU layer.
"""
import asyncio
import itertools
import re
from concurrent.futures import ThreadPoolExecutor

from . import tlc
from .common import MachineryError, watchdog

KEYS = ['k1', 'k2', 'k3']
VALS = ['v1', 'v2']
INVS = ['TypeOK', 'Bounded', 'RecencyOrder', 'EvictsLeastRecentlyUsed', 'AgreesWithDict', 'UseRefreshes', 'MetricsExact',
        'SetStores', 'ZeroCapacity']
CINVS = ['CTypeOK', 'WaitsForLive', 'CachedOnlySuccess', 'SharedOutcome', 'MetricsThroughDecorator']
CSTATEMENT = ['OnlyOnce', 'RunningNotCached']
KINDS = ['plain', 'metrics', 'nometrics']
KEY_DOUBLE = 'lru_cache_concurrent-late-waiter-pops-newer-execution-two-in-flight'
_uniq = itertools.count()


def lconsts(kind, cap, maxlen, keep, keys=KEYS, vals=VALS, **sw):
    c = {'Keys': set(keys), 'Vals': set(vals), 'Cap': cap, 'MAXLEN': maxlen, 'KEEPHIST': keep, 'KIND': kind, 'BASIC': False,
         'REFRESH_GET': True, 'EVICT_LRU': True, 'STRICT_CAP': True}
    c.update(sw)
    return c


def cconsts(cap, safepop, maxexec, maxcalls, callers=3):
    c = lconsts('metrics', cap, 0, False, keys=['k1', 'k2'], vals=[f'r{i}' for i in range(1, maxexec + 1)])
    c.update({'Callers': {f't{i}' for i in range(1, callers + 1)}, 'MAXEXEC': maxexec, 'MAXCALLS': maxcalls, 'SAFEPOP': safepop})
    return c


# ------------------------------------------------------------------------------------------------ Leg A
def leg_a_jobs(ctx):
    jobs = []
    depth = 7 if ctx.thorough else 5

    def model(kind, cap):
        def job():
            res = tlc.run('LruCache', tlc.make_cfg(constants=lconsts(kind, cap, depth, False), invariants=INVS), ctx,
                          workers=4 if ctx.thorough else 2, coverage=False, timeout=1500, label=f'Lru-{kind}-{cap}')
            if res.violated:
                return res, ('model:' + res.violated[0], f'LruCache[{kind}, capacity {cap}]: invariant {res.violated[0]} violated')
            return res, None
        return (f'LruCache {kind} capacity {cap}, <= {depth} calls: {len(INVS)} invariants', job)
    combos = [(k, c) for k in KINDS for c in (0, 1, 2, 3)] if ctx.thorough else \
        [('metrics', 0), ('metrics', 1), ('metrics', 2), ('metrics', 3), ('plain', 2), ('nometrics', 2)]
    for kind, cap in combos:
        jobs.append(model(kind, cap))

    def marks():
        cfg = tlc.make_cfg(constants=lconsts('metrics', 2, 5, False), constraint='Marks', postcondition='ReportMarks')
        res = tlc.run('LruCache', cfg, ctx, workers=1, coverage=False, timeout=900, label='Lru-marks')
        got = dict(re.findall(r'<<"WITNESS", "(\w+)", (TRUE|FALSE)>>', res.out))
        missing = [w for w in ('Evicted', 'Full', 'Miss', 'Hit', 'HitThenEvictOther') if got.get(w) != 'TRUE']
        if missing:
            raise MachineryError(f'LruCache witnesses not reached: {missing}')
        return res, None
    jobs.append(('LruCache witnesses (one run, registers)', marks))

    def control(sw, inv):
        def job():
            res = tlc.run('LruCache', tlc.make_cfg(constants=lconsts('metrics', 2, 6, False, **sw), invariants=[inv]), ctx,
                          workers=2, coverage=False, timeout=600, label='nc-' + '-'.join(sw))
            if inv not in res.violated:
                raise MachineryError(f'negative control {sw} not caught by {inv}')
            return res, None
        return (f'negative control {sw}: {inv} must be violated', job)
    jobs.append(control({'REFRESH_GET': False}, 'RecencyOrder'))
    jobs.append(control({'EVICT_LRU': False}, 'EvictsLeastRecentlyUsed'))
    jobs.append(control({'STRICT_CAP': False}, 'Bounded'))

    # ---- the decorator
    def guarded(cap, maxexec, maxcalls, callers=3):
        def job():
            res = tlc.run('LruConcurrent', tlc.make_cfg(spec='CSpec', constants=cconsts(cap, True, maxexec, maxcalls, callers),
                                                        invariants=CINVS + CSTATEMENT), ctx,
                          workers=8 if ctx.thorough else 4, timeout=1500, label=f'LruConc-guarded-{cap}')
            if res.violated:
                raise MachineryError(f'LruConcurrent with the guarded pop violates {res.violated}: the statement clause is not satisfiable as written')
            tlc.require_coverage(res, ['Invoke', 'Finishes', 'Cancel', 'Resume'], 'LruConcurrent guarded')
            return res, None
        return (f'LruConcurrent guarded pop, {callers} callers, capacity {cap}, <= {maxexec} executions, <= {maxcalls} calls: clauses + OnlyOnce', job)

    def asfound(cap, maxexec, maxcalls):
        def job():
            res = tlc.run('LruConcurrent', tlc.make_cfg(spec='CSpec', constants=cconsts(cap, False, maxexec, maxcalls),
                                                        invariants=CINVS), ctx,
                          workers=8 if ctx.thorough else 4, coverage=False, timeout=1500, label=f'LruConc-asfound-{cap}')
            if res.violated:
                return res, ('model:' + res.violated[0], f'LruConcurrent as found: invariant {res.violated[0]} violated')
            return res, None
        return (f'LruConcurrent as found, capacity {cap}, <= {maxexec} executions, <= {maxcalls} calls: clauses that hold as found', job)
    if ctx.thorough:
        jobs += [guarded(1, 4, 5), guarded(2, 3, 5), asfound(1, 4, 5), asfound(2, 3, 5)]
    else:
        jobs += [guarded(1, 4, 5, callers=2), asfound(1, 3, 4)]

    def broken(inv):
        def job():
            res = tlc.run('LruConcurrent', tlc.make_cfg(spec='CSpec', constants=cconsts(1, False, 4, 5), invariants=[inv]), ctx,
                          workers=2, coverage=False, timeout=600, label='found-' + inv)
            if inv not in res.violated:
                raise MachineryError(f'{inv} is not violated by the as-found model of lru_cache_concurrent (D6 no longer shown)')
            return res, None
        return (f'as found: statement clause {inv} must be violated', job)
    for inv in CSTATEMENT:
        jobs.append(broken(inv))

    def cmarks():
        cfg = tlc.make_cfg(spec='CSpec', constants=cconsts(1, False, 3, 4, callers=2), constraint='CMarks', postcondition='CReportMarks')
        res = tlc.run('LruConcurrent', cfg, ctx, workers=1, coverage=False, timeout=900, label='LruConc-marks')
        got = dict(re.findall(r'<<"WITNESS", "(\w+)", (TRUE|FALSE)>>', res.out))
        missing = [w for w in ('Shared', 'HitServed', 'ErrNotCached', 'CancelSpreads', 'EvictedReExecuted', 'Retry') if got.get(w) != 'TRUE']
        if missing:
            raise MachineryError(f'LruConcurrent witnesses not reached: {missing}')
        return res, None
    jobs.append(('LruConcurrent witnesses (one run, registers)', cmarks))
    return jobs


# ------------------------------------------------------------------------------------------------ real caches
def counter_value(counter):
    for metric in counter.collect():
        for s in metric.samples:
            if s.name.endswith('_total'):
                return int(s.value)
    raise MachineryError('prometheus counter without a _total sample')


class Real:
    """one fresh real cache of the given kind; every call returns a token comparable with the specification's"""

    def __init__(self, kind, cap):
        from lbry import utils
        self.kind = kind
        if kind == 'plain':
            self.c = utils.LRUCache(cap)
        elif kind == 'metrics':
            self.c = utils.LRUCacheWithMetrics(cap, metric_name=f'g09_{next(_uniq)}', namespace='verif')
            if self.c.hits is None or self.c.misses is None:
                raise MachineryError('LRUCacheWithMetrics with a fresh metric name has no counters')
        else:
            self.c = utils.LRUCacheWithMetrics(cap)

    def close(self):
        if self.kind == 'metrics':
            from prometheus_client import REGISTRY
            for m in (self.c.hits, self.c.misses):
                try:
                    REGISTRY.unregister(m)
                except KeyError:
                    pass

    def call(self, op, k, v):
        c = self.c
        try:
            if op == 'get':
                r = c.get(k)
            elif op == 'getd':
                r = c.get(k, 'D')
            elif op == 'getitem':
                r = c[k]
            elif op == 'set':
                r = c.set(k, v)
            elif op == 'setitem':
                c[k] = v
                r = None
            elif op == 'in':
                r = 'T' if k in c else 'F'
            elif op == 'len':
                r = str(len(c))
            elif op == 'pop':
                r = c.pop(k)
            elif op == 'popd':
                r = c.pop(k, 'D')
            elif op == 'del':
                del c[k]
                r = None
            elif op == 'clear':
                r = c.clear()
            elif op == 'items':
                r = 'items'
            else:
                raise MachineryError(f'unknown op {op}')
        except KeyError:
            return 'KeyError'
        return 'None' if r is None else r

    def observe(self, keys):
        c = self.c
        o = {'len': len(c), 'has': [k for k in keys if k in c]}
        if self.kind == 'plain':
            o['items'] = [list(kv) for kv in c.items()]
        if self.kind == 'metrics':
            o['hits'], o['misses'] = counter_value(c.hits), counter_value(c.misses)
        else:
            o['hits'] = o['misses'] = 0
            if self.kind == 'nometrics' and (c.hits is not None or c.misses is not None):
                o['hits'] = -1
        return o

    def recency(self, keys, cap):
        """the order in which the present keys are evicted when fresh keys are stored (public API only)"""
        c = self.c
        left = [k for k in keys if k in c]
        order = []
        for i in range(cap + len(left) + 2):
            if not left:
                break
            c.set(f'probe{i}', 'p')
            gone = [k for k in left if k not in c]
            order += gone
            left = [k for k in left if k not in gone]
        return order + [('never-evicted', k) for k in left]


def expected_obs(e, kind):
    o = {'len': len(e['ord']), 'has': sorted(e['ord']), 'hits': e['hits'], 'misses': e['misses']}
    if kind == 'plain':
        o['items'] = [[k, v] for k, v in zip(e['ord'], e['vals'])]
    return o


def classify(kind, e, what, got, want):
    op = e['op']
    if what == 'ret':
        return f'{op}-returns-{got}-expected-{want}' if len(str(got)) < 12 else f'{op}-return-differs'
    if what == 'recency':
        return 'recency-order-differs'
    if what == 'len' and isinstance(got, int) and got > want:
        return 'more-entries-than-expected'
    if what in ('hits', 'misses'):
        return f'metrics-{what}-inexact'
    return f'{op}-leaves-wrong-{what}'


def replay_history(ctx, kind, cap, hist, keys, stats, only_last_probe=True):
    real = Real(kind, cap)
    try:
        with watchdog(20):
            for i, e in enumerate(hist):
                got = real.call(e['op'], e['k'], e['v'])
                stats['calls'] += 1
                bad = None
                if got != e['ret']:
                    bad = ('ret', got, e['ret'])
                else:
                    o, x = real.observe(keys), expected_obs(e, kind)
                    o['has'] = sorted(o['has'])
                    for f in ('len', 'has', 'items', 'hits', 'misses'):
                        if f in x and o.get(f) != x[f]:
                            bad = (f, o.get(f), x[f])
                            break
                if bad:
                    ctx.violation(classify(kind, e, *bad),
                                  f'{kind} cache, capacity {cap}: after {[(h["op"], h["k"], h["v"]) for h in hist[:i + 1]]} '
                                  f'{bad[0]} is {bad[1]!r}, specification {bad[2]!r}',
                                  {'kind': kind, 'capacity': cap, 'history': hist[:i + 1], 'field': bad[0], 'got': bad[1], 'expected': bad[2]})
                    return False
            if cap > 0 and hist:
                order = real.recency(keys, cap)
                stats['probes'] += 1
                if order != hist[-1]['ord']:
                    ctx.violation(classify(kind, hist[-1], 'recency', order, hist[-1]['ord']),
                                  f'{kind} cache, capacity {cap}: after {[(h["op"], h["k"], h["v"]) for h in hist]} fresh keys evict '
                                  f'{order}, least recently used first is {hist[-1]["ord"]}',
                                  {'kind': kind, 'capacity': cap, 'history': hist, 'evicted_in_order': order, 'expected': hist[-1]['ord']})
                    return False
    finally:
        real.close()
    return True


def emit_graph(ctx, kind, cap, maxlen):
    cfg = tlc.make_cfg(constants=lconsts(kind, cap, maxlen, True), view='View', action_constraint='EmitStep')
    res = tlc.run('LruCache', cfg, ctx, workers=1, coverage=False, timeout=900, label=f'Lru-emit-{kind}-{cap}')
    return res, tlc.printed_json(res, 'CASE')


def emit_all(ctx, kind, cap, depth, nkeys=3):
    c = lconsts(kind, cap, depth, True, keys=KEYS[:nkeys], vals=['v1'])
    c['BASIC'] = True
    cfg = tlc.make_cfg(constants=c, constraint='Leaf')
    res = tlc.run('LruCache', cfg, ctx, workers=1, coverage=False, timeout=1500, label=f'Lru-all-{kind}-{cap}-{nkeys}')
    return res, tlc.printed_json(res, 'CASE')


def leg_b_maps(ctx, pool):
    stats = {'calls': 0, 'probes': 0}
    if ctx.thorough:
        graph = [(k, c, 7) for k in KINDS for c in (0, 1, 2, 3)]
        # (kind, capacity, depth, keys): 3 keys to depth 5, 2 keys to depth 6
        full = [('plain', 2, 5, 3), ('metrics', 2, 5, 3), ('metrics', 1, 5, 3), ('metrics', 3, 5, 3), ('metrics', 1, 6, 2), ('plain', 2, 6, 2)]
    else:
        # the counters multiply the states of the metrics kind: shorter histories for the larger capacities
        graph = [('plain', 1, 7), ('plain', 2, 7), ('plain', 3, 7), ('metrics', 0, 5), ('metrics', 1, 7), ('metrics', 2, 6),
                 ('metrics', 3, 5), ('nometrics', 2, 7)]
        full = [('plain', 2, 4, 3), ('metrics', 2, 4, 3)]
    futs = [('graph', kind, cap, d, pool.submit(emit_graph, ctx, kind, cap, d)) for kind, cap, d in graph]
    futs = [(mode, kind, cap, d, 3, f) for mode, kind, cap, d, f in futs]
    futs += [('all', kind, cap, d, nk, pool.submit(emit_all, ctx, kind, cap, d, nk)) for kind, cap, d, nk in full]
    ngraph = nall = 0
    for mode, kind, cap, d, nk, f in futs:
        res, cases = f.result()
        ctx.add_tlc(res, f'LruCache emission [{mode}] {kind} capacity {cap} depth {d}, {nk} keys: {len(cases)} histories')
        if not cases:
            raise MachineryError(f'no cases emitted for {mode} {kind} {cap}')
        if mode == 'all' and len(cases) != (3 * nk + 1) ** d:     # get / set / pop per key, clear
            raise MachineryError(f'all-histories emission {kind} {cap} depth {d}: {len(cases)} histories, expected {(3 * nk + 1) ** d}')
        for n, hist in enumerate(cases):
            ok = replay_history(ctx, kind, cap, hist, KEYS, stats)
            ctx.count((mode, kind, cap, tuple((h['op'], h['k'], h['v']) for h in hist)), nontrivial=len(hist) >= 3)
            if n == len(cases) // 2 and ok:
                ctx.sample({'kind': kind, 'capacity': cap, 'mode': mode,
                            'history': [(h['op'], h['k'], h['v'], '->', h['ret'], h['ord']) for h in hist]})
        if mode == 'graph':
            ngraph += len(cases)
        else:
            nall += len(cases)
    ctx.leg('B-maps', transitions_replayed=ngraph, complete_histories_replayed=nall, real_calls=stats['calls'],
            recency_probes=stats['probes'], graph_configs=[f'{k}/{c}/depth{d}' for k, c, d in graph],
            all_history_configs=[f'{k}/{c}/depth{d}/{nk}keys' for k, c, d, nk in full])
    side_cases(ctx)


def side_cases(ctx):
    """D4 and the constructor of the decorator (driver-level, outside the model)"""
    from lbry import utils
    name = f'g09_dup_{next(_uniq)}'
    a = utils.LRUCacheWithMetrics(2, metric_name=name, namespace='verif')
    b = utils.LRUCacheWithMetrics(2, metric_name=name, namespace='verif')     # the name is taken: counters silently absent
    b.set('k', 'v')
    dup_silent = a.hits is not None and b.hits is None and b.misses is None and b.get('k') == 'v' and b.get('x') is None
    from prometheus_client import REGISTRY
    for m in (a.hits, a.misses):
        REGISTRY.unregister(m)
    try:
        utils.lru_cache_concurrent()
        refused = False
    except ValueError:
        refused = True
    try:
        utils.lru_cache_concurrent(0)
        refused0 = False
    except ValueError:
        refused0 = True
    ctx.count(('side', 'dup-metric'), nontrivial=True, n=3)
    ctx.leg('side', duplicate_metric_name_gives_cache_without_counters=dup_silent, decorator_without_size_refused=refused,
            decorator_size_0_refused=refused0)
    if not dup_silent:
        print('NOTE: a second LRUCacheWithMetrics under a registered metric name no longer silently loses its counters (D4 drift)')
    if not (refused and refused0):
        ctx.violation('decorator-accepts-no-cache-size', 'lru_cache_concurrent() / lru_cache_concurrent(0) did not raise ValueError', None)


# ------------------------------------------------------------------------------------------------ Leg B (iii): the decorator
class WorkError(Exception):
    pass


def dkey(k):
    """the key lru_cache_concurrent stores a call work(k) under: (args, tuple(kwargs.items()))"""
    return ((k,), ())


def _fn(v):
    return v['$fn'] if isinstance(v, dict) and '$fn' in v else (v if isinstance(v, dict) else {})


def replay_schedule(ctx, beh, cap, stats):
    from lbry import utils
    from .detloop import DetLoop
    loop = DetLoop()
    real = Real('metrics', cap)
    gates, started, running = {}, [], set()
    out = {}
    tasks = {}

    @utils.lru_cache_concurrent(override_lru_cache=real.c)
    async def work(k):
        e = len(started) + 1
        started.append(k)
        running.add(e)
        gates[e] = loop.create_future()
        try:
            return await gates[e]
        finally:
            running.discard(e)

    async def caller(t, script):
        for k in script:
            try:
                v = await work(k)
                out[t].append([k, 'val', v])
            except WorkError:
                out[t].append([k, 'err', ''])
            except asyncio.CancelledError:
                out[t].append([k, 'cancelled', ''])
                raise

    def drain():
        with watchdog(20):
            loop.drain(timers=False, jobs=False, limit=100000)

    def script_for(i, t, k):
        s = [k]
        if _fn(beh[i]['state']['task'])[t]['st'] == 'idle':      # served from the LRU layer at once
            return s
        for j in range(i + 1, len(beh)):
            a = beh[j]['state']['act']
            if a['op'] == 'resume' and a['t'] == t:
                if a['again']:
                    s.append(a['again'])
                else:
                    break
            if _fn(beh[j]['state']['task'])[t]['st'] == 'idle':
                break
        return s

    callers = sorted(_fn(beh[0]['state']['task']))
    for t in callers:
        out[t] = []
    double = None
    spread = False
    log = []
    try:
        i = 1
        while i < len(beh):
            st = beh[i]['state']
            a = st['act']
            if a['op'] == 'call':
                tasks[a['t']] = loop.spawn(caller(a['t'], script_for(i, a['t'], a['k'])))
            elif a['op'] == 'finish':
                if a['oc'] == 'ok':
                    gates[a['e']].set_result(f"r{a['e']}")
                else:
                    gates[a['e']].set_exception(WorkError())
            elif a['op'] == 'cancel':
                tasks[a['t']].cancel()
            else:
                raise MachineryError(f'schedule step {i}: unexpected {a}')
            log.append([a['op'], a['t'], a['k'], a['e'], a['oc']])
            drain()
            stats['events'] += 1
            # the wake-ups the model takes one by one have all run: go to the model state where the ready queue is empty
            j = i
            while j + 1 < len(beh) and beh[j + 1]['state']['act']['op'] == 'resume':
                j += 1
            st = beh[j]['state']
            if st['ready']:
                break       # the behaviour was cut (depth) in the middle of the wake-ups
            i = j + 1
            # ---- compare
            execs = st['exec']
            m_started = [x['k'] for x in execs]
            m_running = {n + 1 for n, x in enumerate(execs) if x['st'] == 'running'}
            m_out = {t: [[o['k'], 'val' if o['kind'] in ('hit', 'ok') else o['kind'], o['v']] for o in _fn(st['out'])[t]] for t in callers}
            obs = real.observe([dkey('k1'), dkey('k2')])
            obs['has'] = [k[0][0] for k in obs['has']]
            mc = st['c']
            diffs = []
            if started != m_started:
                diffs.append(('executions-started', started, m_started))
            if running != m_running:
                diffs.append(('executions-in-flight', sorted(running), sorted(m_running)))
            if out != m_out:
                diffs.append(('caller-results', out, m_out))
            if sorted(obs['has']) != sorted(mc['ord']) or obs['len'] != len(mc['ord']):
                diffs.append(('cached-keys', sorted(obs['has']), sorted(mc['ord'])))
            if (obs['hits'], obs['misses']) != (mc['hits'], mc['misses']):
                diffs.append(('hit-miss-counters', (obs['hits'], obs['misses']), (mc['hits'], mc['misses'])))
            by_key = {}
            for e in running:
                by_key.setdefault(started[e - 1], []).append(e)
            if double is None and any(len(v) > 1 for v in by_key.values()):
                double = {'after': list(log), 'in_flight': {k: v for k, v in by_key.items() if len(v) > 1}}
            if a['op'] == 'cancel':
                others = [t for t in callers if t != a['t'] and out[t] and out[t][-1][1] == 'cancelled' and tasks[t].cancelled()]
                spread = spread or bool(others)
            if diffs:
                f = diffs[0]
                ctx.violation(f'decorator-differs-from-model:{f[0]}',
                              f'lru_cache_concurrent, capacity {cap}: after {log} the real decorator has {f[0]} = {f[1]}, the model {f[2]}',
                              {'capacity': cap, 'schedule': log, 'differences': diffs})
                return False, double, spread
        if cap > 0:
            last = beh[min(i, len(beh)) - 1]['state']
            if not last['ready']:
                order = [k[0][0] for k in real.recency([dkey('k1'), dkey('k2')], cap)]
                if order != last['c']['ord']:
                    ctx.violation('decorator-differs-from-model:recency', f'after {log} fresh keys evict {order}, model order {last["c"]["ord"]}',
                                  {'capacity': cap, 'schedule': log})
                    return False, double, spread
    finally:
        for g in gates.values():
            if not g.done():
                g.cancel()
        drain()
        real.close()
    return True, double, spread


def leg_b_decorator(ctx):
    stats = {'events': 0}
    num = 1500 if ctx.thorough else 400
    nbeh = ndouble = nspread = agreed = 0
    first_double = None
    for cap in (1, 2):
        simdir = ctx.mkdir(f'g09-sim{cap}')
        cfg = tlc.make_cfg(spec='CSpec', constants=cconsts(cap, False, 5, 7), invariants=['CTypeOK'])
        res = tlc.run('LruConcurrent', cfg, ctx, workers=1, simulate=f'file={simdir}/tr,num={num}', depth=30, seed=ctx.seed + 9 + cap,
                      timeout=900, label=f'LruConc-sim{cap}')
        ctx.add_tlc(res, f'LruConcurrent -simulate num={num} depth=30 capacity {cap} as found (schedules for replay)')
        if res.violated:
            ctx.violation('model:' + res.violated[0], 'LruConcurrent invariant violated in simulation', res.error_trace[:4000])
        behs = tlc.parse_simulate_dir(simdir, 'tr')
        if not behs:
            raise MachineryError('no simulated schedules')
        for beh in behs:
            if len(beh) < 2:
                continue
            ok, double, spread = replay_schedule(ctx, beh, cap, stats)
            nbeh += 1
            agreed += ok
            ctx.count(('sched', cap, tuple((b['state']['act']['op'], b['state']['act']['t'], b['state']['act']['k'], b['state']['act']['oc'],
                                            b['state']['act']['again']) for b in beh[1:])), nontrivial=len(beh) >= 5)
            if double:
                ndouble += 1
                if first_double is None or len(double['after']) < len(first_double['after']):
                    first_double = dict(double, capacity=cap)
            nspread += bool(spread)
            if not ok:
                break
    # the shortest counterexample of OnlyOnce, replayed for itself (t1, t2, t3 call k1; the execution fails; t1 and t2 retry at once)
    if first_double:
        ctx.violation(KEY_DOUBLE, f"two executions of the same call in flight ({first_double['in_flight']}) after {first_double['after']} "
                      f"(capacity {first_double['capacity']}): a caller that wakes up late pops the entry of a NEWER execution, the next caller starts another one",
                      first_double)
    ctx.leg('B-decorator', schedules=nbeh, agreed=agreed, driver_events=stats['events'], schedules_with_two_executions_in_flight=ndouble,
            schedules_where_one_cancel_cancelled_other_callers=nspread)
    ctx.cov['traces_validated_against_impl'] += nbeh
    if not ndouble:
        print('NOTE: no replayed schedule put two executions of one call in flight (D6 not observed on the real decorator: drift towards the statement)')
    if nspread:
        print(f'NOTE: in {nspread} schedules cancelling ONE caller of lru_cache_concurrent cancelled the shared execution and every other '
              f'caller waiting for it got CancelledError (D7; modelled as found, restated clause)')


def run(ctx):
    pool = ThreadPoolExecutor(max_workers=6)
    futs = [(label, pool.submit(job)) for label, job in leg_a_jobs(ctx)]
    epool = ThreadPoolExecutor(max_workers=3)
    leg_b_maps(ctx, epool)
    epool.shutdown()
    if not ctx.violations:
        leg_b_decorator(ctx)
    la = []
    for label, f in futs:
        res, vio = f.result()
        ctx.add_tlc(res, label)
        la.append({'run': label, 'states': res.distinct, 'wall_s': round(res.wall, 1)})
        if vio:
            ctx.violation(vio[0], vio[1], res.error_trace[:6000])
    pool.shutdown()
    ctx.leg('A', runs=la, invariants=INVS, decorator_invariants=CINVS, statement_clauses_broken_as_found=CSTATEMENT)
    ctx.cov['rule'] = ('Leg A: every state of LruCache.tla (3 keys, 2 values, capacities 0..3, all methods, <= 6/7 calls) and of '
                       'LruConcurrent.tla (3 callers, 2 keys, capacity 1/2). Leg B: every transition of the LruCache state graph with a '
                       'shortest history leading to it, and all histories over get/set/pop/clear x 3 keys of depth 4 (quick) / 5, x 2 keys of depth 6 (thorough), '
                       'replayed on fresh real caches with return value, len, membership, items(), counters compared after every call and '
                       'the recency order probed at the end; TLC -simulate schedules of the decorator replayed under DetLoop. Distinct = '
                       'distinct (kind, capacity, history) / schedule; non-trivial = at least 3 calls / 5 steps.')
    ctx.assumptions += ['keys and values are short strings (hashable keys; the caches do not look at values)',
                        'prometheus counters are read through collect(); one fresh metric name per cache instance',
                        'the decorator is driven only when the loop is idle (new callers, completion of the wrapped coroutine, cancellation); '
                        'a caller that wakes up may call again within the same task step',
                        'cache_concurrent (the variant without LRU layer) is specified in CacheConcurrent.tla and exercised from the C10 driver']
