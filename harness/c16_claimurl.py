"""C16 -- claim metadata and LBRY URLs encode/decode without loss.

URL half (specs/Url.tla, case-analytic): TLC enumerates symbol strings (character classes + the lbry:// token),
decides accept/reject, computes the parsed spans and the printed form, and checks the round-trip laws on the
model; every case is concretised with several representatives per class and pushed through the real
URL.parse / str(URL).

Metadata half (specs/ClaimApi.tla, API histories): TLC checks the key-value model exhaustively for short call
sequences (invariants + reachability witnesses) and generates long random call sequences; each is replayed on real
lbry.schema objects, and after every call the state is read back through the typed accessors, through a plain
protobuf parse of to_bytes(), and through from_bytes(to_bytes()) -- all three must agree with the model.

Legacy encodings: the recorded claims of tests/unit/schema/test_claim_from_bytes.py are read as data (ast) and
must decode and expose the recorded field values."""
import ast
import binascii
import collections
import json
import os
import re
import time
from concurrent.futures import ThreadPoolExecutor
from decimal import Decimal

from . import tlc
from .common import REPO, Hang, MachineryError, watchdog

# ======================================================================================= URL half

URL_INVS = ['TokenCharAgree', 'PrintIsCanon', 'RoundTrip', 'Partition', 'ForbiddenRejected', 'ModifierShape']
URL_WITNESSES = ['accepted', 'channel+stream', 'claim-id-40', 'claim-id-41-rejected', 'hash-separator', 'amount-order', 'amount-order-leading-zero-rejected',
                 'LF-after-valid-rejected', 'scheme', 'scheme-not-in-front-rejected']
NSYM = 13

# representatives per symbol class, per variant (0: plain ASCII, 1: BMP, 2: astral / range boundaries)
_FORB_ASCII = list('=&%?;"\\<>{}|^~`[]')
_FORB_C0 = ['\x00', '\x01', '\t', '\x0b', '\x0c', '\r', '\x1b', '\x1f', ' ', '\x08', '\x1c']
_FORB_HI = ['\ud800', '\udbff', '\udc00', '\udfff', '\ufffe', '\uffff']
_OTHER = [
    list('gxZAFGlry') + ["'", '!', '(', ')', '+', ',', '-', '.', '_', '\x7f'],
    ['\u00e9', '\u00f1', '\u0301', '\u0300', '\u200d', '\u00a0', '\u0085', '\u2028', '\u3042', '\uff11', '\u0663',
     '\ufffd', '\ud7ff', '\ue000', '!', '\u00c5', '\u05d0', '\ufeff'],
    ['\U0001F600', '\U00010000', '\U0010FFFF', '\U0001F1FA', '\U000E0100', '\U0001D7D8', '\U00020000', '\U0001F468'],
]
REPS = []
for _v in range(3):
    REPS.append({
        'S': ['lbry://'], '@': ['@'], ':': [':'], '#': ['#'], '$': ['$'], '/': ['/'], '*': ['*'],
        'h': list('abcdef'), 'd': list('123456789'), 'z': ['0'], 'N': ['\n'],
        'o': _OTHER[_v], 'F': [_FORB_ASCII, _FORB_C0, _FORB_HI][_v],
    })
LITERAL = {'S': 'lbry://', ':': ':', '$': '$', '/': '/'}


def concretise(u, v, n):
    """one concrete piece per symbol of the class string u (variant v, case ordinal n)"""
    reps = REPS[v % 3]
    out = []
    for i, ch in enumerate(u):
        r = reps[ch]
        out.append(r[(n + 3 * i + 5 * (v // 3)) % len(r)])
    return out


def _classify_accept(u, spec_accepts):
    if u.endswith('N') and spec_accepts(u[:-1]) and 'N' not in u[:-1]:
        return 'url-accepts-trailing-newline'
    if 'F' in u or 'N' in u:
        return 'url-accepts-forbidden-character'
    if re.search(r'[:#][hdz]{41,}', u):
        return 'url-accepts-claim-id-over-40-digits'
    if re.search(r'\$z', u):
        return 'url-accepts-amount-order-leading-zero'
    return 'url-accepts-ungrammatical-string'


def _url_jobs(ctx):
    """(label, constants) of the TLC runs that enumerate the URL cases"""
    strlen = 6 if ctx.thorough else 5
    jobs = []
    if ctx.thorough:
        chunks = [[i] for i in range(1, NSYM + 1)]
    else:
        chunks = [[1, 2], [3, 4], [5, 6], [7, 8], [9, 10], [11, 12, 13]]
    for ch in chunks:
        jobs.append((f'Url-all-{ch[0]}', {'STRLEN': strlen, 'FIRSTS': set(ch), 'FAMILIES': {'all'}, 'LONGEDIT': False, 'EMIT': True}))
    jobs.append(('Url-gen', {'STRLEN': 0, 'FIRSTS': {1}, 'FAMILIES': {'gen'}, 'LONGEDIT': False, 'EMIT': True}))
    jobs.append(('Url-edit', {'STRLEN': 0, 'FIRSTS': {1}, 'FAMILIES': {'edit'}, 'LONGEDIT': bool(ctx.thorough), 'EMIT': True}))
    return jobs


def _run_url_tlc(ctx, label, consts):
    cfg = tlc.make_cfg(constants=consts, invariants=URL_INVS, constraint='Emit')
    return tlc.run('Url', cfg, ctx, workers=1, coverage=False, timeout=3000, label=label)


def _printed(res, tag):
    """payload strings of PrintT(<<tag, "payload">>), in order. TLC's pretty printer breaks a long tuple into
    `<< "tag",` / `   "payload" >>`; tlc.printed_json only reads the one-line form, so this module reads both."""
    import json
    head1, head2 = f'<<"{tag}", "', f'<< "{tag}",'
    lines = res.out.split('\n')
    out = []
    i = 0
    while i < len(lines):
        ln = lines[i]
        if ln.startswith(head1) and ln.endswith('">>'):
            out.append(ln[len(head1):-3])
        elif ln == head2 and i + 1 < len(lines):
            nxt = lines[i + 1].strip()
            if nxt.startswith('"') and nxt.endswith('" >>'):
                out.append(nxt[1:-4])
                i += 1
        i += 1
    return out


def _printed_json(res, tag):
    seen, out = set(), []
    for s in _printed(res, tag):
        if s not in seen:
            seen.add(s)
            out.append(json.loads(tlc._untla(s)))      # pylint: disable=protected-access
    return out


def _dedup(seq):
    seen = set()
    out = []
    for x in seq:
        if x not in seen:
            seen.add(x)
            out.append(x)
    return out


def _seg_expect(seg, pieces):
    if not seg:
        return None
    nfrom, nto, kind, mfrom, mto = seg
    name = ''.join(pieces[nfrom - 1:nto])
    mod = ''.join(pieces[mfrom - 1:mto]) if kind != 'none' else None
    return (name, mod if kind == 'id' else None, mod if kind == 'amt' else None)


def _seg_got(seg):
    if seg is None:
        return None
    return (seg.name, seg.claim_id, None if seg.amount_order is None else str(seg.amount_order))


def check_urls(ctx, results):
    from lbry.schema.url import URL
    nvar = 2 if ctx.thorough else 3
    total = accepted_n = calls = 0
    # phase 1: the accepted cases of every run (about one case in twenty) -- the classification of a wrongly accepted
    # string and the coverage guard need to know whether a neighbouring string is valid
    accepted = []
    accepted_set = set()
    for label, consts, res in results:
        ctx.add_tlc(res, f'Url.tla {label} {_fmt(consts)}: invariants {URL_INVS} + emission')
        if res.violated:
            ctx.violation('model:Url:' + ','.join(res.violated), 'specification law violated in the URL model', res.error_trace[:4000])
            return
        acc = {c['u']: c for c in _printed_json(res, 'CASE')}
        accepted.append(acc)
        accepted_set.update(acc)
    spec_accepts = accepted_set.__contains__
    strlen = max(consts['STRLEN'] for _, consts, _ in results)
    wit = dict.fromkeys(URL_WITNESSES, 0)
    seen_long = set()
    state = {'cur': None}
    nsamp = {'ok': 0, 'rej': 0}

    def one_chunk(cases, base):
        nonlocal total, accepted_n, calls
        for k, (u, c) in enumerate(cases):
            n = base + k
            total += 1
            ctx.count(u, nontrivial=len(u) >= 2, n=nvar)
            for v in range(nvar):
                pieces = concretise(u, v, n)
                text = ''.join(pieces)
                state['cur'] = text
                calls += 1
                try:
                    url = URL.parse(text)
                    err = None
                except Exception as e:  # pylint: disable=broad-except
                    url, err = None, e
                if c is None:
                    if err is None:
                        ctx.violation(_classify_accept(u, spec_accepts),
                                      f'URL.parse({text!r}) returned {url!r}; the grammar forbids the string (class string {u!r})',
                                      {'call': 'URL.parse', 'text': text, 'classes': u, 'got': repr(url)})
                    continue
                if v == 0:
                    accepted_n += 1
                if err is not None:
                    ctx.violation('url-rejects-valid', f'URL.parse({text!r}) raised {type(err).__name__}: {err}; the grammar accepts it (class string {u!r})',
                                  {'call': 'URL.parse', 'text': text, 'classes': u})
                    continue
                exp = (_seg_expect(c['ch'], pieces), _seg_expect(c['st'], pieces))
                got = (_seg_got(url.channel), _seg_got(url.stream))
                if exp != got or url.has_channel != (exp[0] is not None) or url.has_stream != (exp[1] is not None):
                    ctx.violation('url-parts-wrong', f'URL.parse({text!r}) = channel {got[0]} stream {got[1]}; specification: channel {exp[0]} stream {exp[1]}',
                                  {'call': 'URL.parse', 'text': text, 'classes': u, 'got': got, 'expect': exp})
                    continue
                try:
                    printed = str(url)
                    back = URL.parse(printed)
                except Exception as e:  # pylint: disable=broad-except
                    ctx.violation('url-print-raises', f'str/parse of URL.parse({text!r}) raised {type(e).__name__}: {e}', {'text': text})
                    continue
                want = ''.join(LITERAL[sym] if src == 0 else pieces[src - 1] for sym, src in zip(c['pr'], c['src']))
                if printed != want and printed != _hash_spelling(c, pieces):
                    ctx.violation('url-print-wrong', f'str(URL.parse({text!r})) = {printed!r}; canonical form is {want!r}',
                                  {'text': text, 'classes': u, 'printed': printed, 'expect': want})
                elif back != url:
                    ctx.violation('url-reparse-differs', f'URL.parse(str(x)) != x for x = URL.parse({text!r}): {back!r} vs {url!r}',
                                  {'text': text, 'printed': printed})
                if v == 1 and nsamp['ok'] < 3 and len(u) >= 6 and (n % 97 == 0):
                    nsamp['ok'] += 1
                    ctx.sample({'URL.parse': text, 'channel': got[0], 'stream': got[1], 'str': printed, 'spec_classes': u}, cap=10)
            if c is None and nsamp['rej'] < 2 and len(u) >= 5 and n % 9973 == 0:
                nsamp['rej'] += 1
                ctx.sample({'URL.parse': state['cur'], 'raised': True, 'spec_classes': u, 'spec_accepts': False}, cap=10)

    base = 0
    for (label, consts, res), acc in zip(results, accepted):
        rejected = _dedup(_printed(res, 'R'))
        if len(rejected) + len(acc) != res.distinct or any(u in acc for u in rejected):
            raise MachineryError(f'{label}: emitted {len(rejected)} + {len(acc)} cases but TLC found {res.distinct} distinct states')
        res.out, res.printed = '', []           # free the TLC output
        # coverage guard for the implications checked on the model: the situations they talk about are among the cases
        for u in rejected:
            if u.endswith('N') and u[:-1] in accepted_set:
                wit['LF-after-valid-rejected'] += 1
            elif 'S' in u[1:] and u.replace('S', '') in accepted_set:
                wit['scheme-not-in-front-rejected'] += 1
            elif len(u) > 41:
                wit['claim-id-41-rejected'] += bool(re.fullmatch(r'S?@?[hdzo*]+[:#][hdz]{41}', u))
            elif '$z' in u:
                wit['amount-order-leading-zero-rejected'] += bool(re.fullmatch(r'S?@?[hdzo*]+\$z[dz]*', u))
        for u, c in acc.items():
            wit['accepted'] += 1
            wit['channel+stream'] += bool(c['ch'] and c['st'])
            wit['claim-id-40'] += any(sg and sg[2] == 'id' and sg[4] - sg[3] == 39 for sg in (c['ch'], c['st']))
            wit['hash-separator'] += '#' in u
            wit['amount-order'] += any(sg and sg[2] == 'amt' for sg in (c['ch'], c['st']))
            wit['scheme'] += u.startswith('S')
        cases = [(u, None) for u in rejected] + list(acc.items())
        if 'all' not in consts['FAMILIES']:
            # the generated / edited families overlap with the complete enumeration and with each other: every class string once
            cases = [(u, c) for u, c in cases if len(u) > strlen and u not in seen_long]
            seen_long.update(u for u, _ in cases)
        for off in range(0, len(cases), 20000):
            try:
                with watchdog(300):
                    one_chunk(cases[off:off + 20000], base + off)
            except Hang:
                ctx.violation('url-parse-hang', f'URL.parse({state["cur"]!r}) did not return', {'text': state['cur']})
        base += len(cases)
    if not all(wit.values()):
        raise MachineryError(f'URL case space lacks situations the laws talk about: {[k for k, v in wit.items() if not v]}')
    ctx.leg('A', url_witness_cases=wit)
    ctx.leg('B-url', class_strings=total, accepted_class_strings=accepted_n, concrete_calls=calls, variants_per_case=nvar)
    ctx.cov['traces_validated_against_impl'] += total


def _hash_spelling(c, pieces):
    """the same URL with '#' as the claim-id separator (the grammar treats ':' and '#' alike)"""
    return ''.join((('#' if sym == ':' else LITERAL[sym]) if src == 0 else pieces[src - 1]) for sym, src in zip(c['pr'], c['src']))


def _fmt(consts):
    return {k: (sorted(v) if isinstance(v, (set, frozenset)) else v) for k, v in consts.items()}


# ======================================================================================= metadata half

API_INVS = ['TagsNormal', 'NormIdempotent', 'FeeFixpoint', 'FeeShape', 'KindDiscipline', 'MediaOneof', 'SourcePresence',
            'EnvelopeLayout', 'RoundTrip', 'CoordOK']
API_PROPS = ['RefusalsArePure', 'KindIsFixed']
API_WITNESSES = ['W_SignedWithContent', 'W_SignedEmpty', 'W_DuplicateTag', 'W_EmptyTag', 'W_KindMismatch', 'W_CurrencyReplaced',
                 'W_MediaSwitched', 'W_FeeRefused', 'W_RoundedUp', 'W_Truncated']
ALL_OPS = ['Open', 'SetText', 'SetNum', 'SetBin', 'FeeAmount', 'FeeUnits', 'FeeUpdate', 'FeeAddr', 'AddTag', 'ExtendTags', 'ClearTags',
           'AddLang', 'ClearLangs', 'AddLoc', 'ClearLocs', 'AddRef', 'SetRef', 'Sign', 'Unsign', 'Reload']

_B58 = '123456789ABCDEFGHJKLMNPQRSTUVWXYZabcdefghijkmnopqrstuvwxyz'


def b58decode(text):
    """independent Base58 decoding (for what a plain protobuf parse must show as the fee address bytes)"""
    n = 0
    for ch in text:
        n = n * 58 + _B58.index(ch)
    body = n.to_bytes((n.bit_length() + 7) // 8, 'big') if n else b''
    pad = len(text) - len(text.lstrip('1'))
    return b'\x00' * pad + body


INTS = {'i0': 0, 'i1': 1, 'iA': 2 ** 32 - 1, 'iB': 2 ** 63 - 1, 'iC': 2 ** 64 - 1, 'iN': -1}
ADDRS = ['bPwGA9h7uijoy5uAvzVPQw9QyLoYZehHJo', 'bFro33qBKxnL1AsjUU9N4AQHp9V62Nhc5L', 'bJUQ9MxS9N6M29zsA5GTpVSDzsnPjMBBX9']
TEXT_SETS = [
    {'t1': 'hello', 't2': '\u00dcn\u00efc\u00f6d\u00e9 \u2713 \u65e5\u672c\u8a9e', 't3': 'x'},
    {'t1': 'e\u0301 combining a\u030a', 't2': '\U0001F600 astral \U00010000\U0010FFFF', 't3': 'long ' + 'a\u00e9\U0001F680' * 120 + '\nsecond line\r\n'},
    {'t1': '\x00nul\x7fdel\x1f', 't2': ' leading and trailing ', 't3': '"quotes" \\ back / slash : # $ @ {json: "like"}'},
    {'t1': '\u202ertl\ufeffbom', 't2': '\ufffd\uffff\ufffe', 't3': '\u0130\u00df\u01c5 \u03a3\u03c2'},
]
TAG_PAIRS = [('F', 'f'), ('\u00c9', '\u00e9'), ('\u03a9', '\u03c9'), ('\u0414', '\u0434'), ('Z', 'z'), ('\u00c5', '\u00e5')]
TAG_WS = ['\t', '\n', '\u00a0', '\u2003', '\x0b', '\r']
PTEXT_SETS = [{'p1': 'NH', 'p2': 'Manchester', 'p3': '03101'},
              {'p1': '\u00cele-de-France', 'p2': 'S\u00e3o Paulo', 'p3': 'SW1A 1AA'},
              {'p1': '\u6771\u4eac\u90fd', 'p2': "L'Ha\u00ff-les-Roses", 'p3': '\U0001F3D9 7'}]
BIN_LEN = {'source_sd_hash': 48, 'source_hash': 48, 'source_bt_infohash': 20, 'public_key': 33}
CUR_ENUM = {'none': 0, 'lbc': 1, 'btc': 2, 'usd': 3}
UNIT_ATTR = {'lbc': 'dewies', 'btc': 'satoshis', 'usd': 'pennies'}
SCALE = {'lbc': 8, 'btc': 8, 'usd': 2}


def _digits(q):
    return ''.join(str(x) for x in q)


def _dec_text(d):
    """[w, f] (and optional neg) -> decimal text"""
    s = _digits(d['w']) + ('.' + _digits(d['f']) if d['f'] else '')
    return ('-' if d.get('neg') else '') + s


class Pools:
    """concrete values for the pool identifiers of ClaimApi.tla; one instance per walk (variant = walk number)"""

    def __init__(self, defs, variant, rng):
        self.defs, self.v, self.rng = defs, variant, rng
        self.texts = dict(TEXT_SETS[variant % len(TEXT_SETS)], t0='')
        self.ptexts = dict(PTEXT_SETS[variant % len(PTEXT_SETS)], p0='')
        p = variant % len(TAG_PAIRS)
        q = (p + 1 + (variant // len(TAG_PAIRS)) % (len(TAG_PAIRS) - 1)) % len(TAG_PAIRS)
        self.tagch = {'A': TAG_PAIRS[p][0], 'a': TAG_PAIRS[p][1], 'B': TAG_PAIRS[q][0], 'b': TAG_PAIRS[q][1],
                      ' ': ' ', 't': TAG_WS[variant % len(TAG_WS)], '#': '#!~'[variant % 3], "'": "'"}
        ids = ['0123456789abcdef0123456789abcdef01234567', '00' * 19 + '01', 'ff' * 20, 'a0' * 10 + '0a' * 10,
               bytes(rng.randrange(256) for _ in range(20)).hex(), '0a' + '00' * 18 + '0a']
        rot = variant % len(ids)
        ids = ids[rot:] + ids[:rot]
        self.claim_ids = {'c1': ids[0], 'c2': ids[1], 'c3': ids[2]}
        sigs = [bytes(range(64)), b'\x00' * 63 + b'\x01', bytes(rng.randrange(256) for _ in range(64)), b'\n' * 64]
        self.sigs = {'s1': sigs[variant % 4], 's2': sigs[(variant + 1) % 4]}
        self.addrs = {'A1': ADDRS[variant % 3], 'A2': ADDRS[(variant + 1) % 3]}

    def text(self, t):
        return self.texts[t]

    def binary(self, field, b):
        n = BIN_LEN[field]
        if b == 'b0':
            return b''
        if field == 'public_key':
            return (b'\x02' if b == 'b1' else b'\x03') + bytes((self.v * 7 + i * (3 if b == 'b1' else 5)) % 256 for i in range(32))
        if b == 'b1':
            return bytes((i + self.v) % 256 for i in range(n)) if self.v % 2 == 0 else b'\x00' * (n - 1) + b'\n'
        return b'\xff' * n if self.v % 2 == 0 else bytes((251 * i + 17 * self.v) % 256 for i in range(n))

    def tag(self, classes):
        return ''.join(self.tagch[x] for x in classes)

    def amount_text(self, a):
        return _dec_text(self.defs['amts'][a])

    def coord_text(self, k):
        return _dec_text(self.defs['coords'][k])

    def langtag(self, n):
        return '-'.join(x for x in self.defs['langs'][n] if x)

    def location_input(self, lid, form):
        d = self.defs['locs'][lid]
        rec = {'country': d['country'], 'state': self.ptexts[d['state']], 'city': self.ptexts[d['city']], 'code': self.ptexts[d['code']],
               'latitude': '' if d['lat'] == 'k0' and form % 2 else self.coord_text(d['lat']),
               'longitude': '' if d['lon'] == 'k0' and form % 2 else self.coord_text(d['lon'])}
        named = [rec['country'], rec['state'], rec['city'], rec['code']]
        if form % 3 != 2:
            # colon-separated text, where that spelling can express the record
            if not any(named):
                if rec['latitude']:
                    return rec['latitude'] + (':' + rec['longitude'] if rec['longitude'] else '')
            else:
                parts = named + [rec['latitude'], rec['longitude']]
                while parts and not parts[-1]:
                    parts.pop()
                if rec['country'] or len(parts) > 2:
                    return ':'.join(parts)
        as_dict = {k: v for k, v in rec.items() if v}
        if form % 3 == 1:
            return json.dumps(as_dict)
        return as_dict


def _expected(st, P):
    """typed view and raw (plain protobuf) view the model demands for state st"""
    typed, raw = {}, {}
    obj, kind = st['obj'], st['kind']
    typed['kind'] = raw['kind'] = None if kind == 'none' else kind
    if obj == 'support':
        for f in ('emoji', 'comment'):
            typed[f] = raw[f] = P.text(st['txt'][f])
    if obj == 'purchase' or kind == 'repost':
        ref = st['ref']
        typed['ref'] = P.claim_ids[ref] if ref != 'none' else ''
        raw['ref'] = bytes.fromhex(P.claim_ids[ref])[::-1] if ref != 'none' else b''
    if obj != 'purchase':
        typed['signed'] = st['signed']
        typed['chan'] = P.claim_ids[st['chan']] if st['signed'] else None
        typed['sig'] = P.sigs[st['sig']] if st['signed'] else None
        raw['envelope'] = (1, bytes.fromhex(P.claim_ids[st['chan']])[::-1], P.sigs[st['sig']]) if st['signed'] else (0, b'', b'')
    else:
        raw['envelope'] = (ord('P'), b'', b'')
    raw['over'] = st['nbytes_over_msg']
    if obj != 'claim' or kind == 'none':
        return typed, raw
    for f in ('title', 'description', 'thumbnail_url'):
        typed[f] = raw[f] = P.text(st['txt'][f])
    tags = [P.tag(t) for t in st['tags']]
    typed['tags'] = raw['tags'] = tags
    typed['langs'] = ['-'.join(x for x in (l['language'], l['script'], l['region']) if x) for l in st['langs']]
    raw['langs'] = [(l['language'] or 'UNKNOWN_LANGUAGE', l['script'] or 'UNKNOWN_SCRIPT',
                     ('R' + l['region'] if l['region'].isdigit() else l['region']) or 'UNKNOWN_COUNTRY') for l in st['langs']]
    tl, rl = [], []
    for l in st['locs']:
        def coord(t):
            return Decimal(_dec_text(t)) if t['set'] else None
        tl.append((l['country'] or None, P.ptexts[l['state']], P.ptexts[l['city']], P.ptexts[l['code']], coord(l['lat_text']), coord(l['lon_text'])))
        rl.append((l['country'] or 'UNKNOWN_COUNTRY', P.ptexts[l['state']], P.ptexts[l['city']], P.ptexts[l['code']], l['lat'], l['lon']))
    typed['locs'], raw['locs'] = tl, rl
    if kind == 'stream':
        for f in ('author', 'license', 'license_url', 'source_name', 'source_media_type', 'source_url'):
            typed[f] = raw[f] = P.text(st['txt'][f])
        for f in ('release_time', 'source_size', 'image_width', 'image_height', 'video_width', 'video_height', 'video_duration', 'audio_duration'):
            typed[f] = raw[f] = INTS[st['num'][f]]
        for f in ('source_sd_hash', 'source_hash', 'source_bt_infohash'):
            b = P.binary(f, st['bin'][f])
            typed[f] = b.hex()
            typed[f + '_bytes'] = raw[f] = b
        typed['media'] = raw['media'] = None if st['media'] == 'none' else st['media']
        typed['has_source'] = raw['has_source'] = st['srcp']
        fee = st['fee']
        typed['has_fee'] = raw['has_fee'] = fee['present']
        units = int(_digits(fee['units']))
        addr = P.addrs[fee['addr']] if fee['addr'] != 'none' else None
        typed['fee'] = (fee['cur'].upper() if fee['cur'] != 'none' else None,
                        Decimal(_dec_text(fee['amount'])) if fee['cur'] != 'none' else None,
                        units if fee['cur'] != 'none' else None, addr)
        raw['fee'] = (CUR_ENUM[fee['cur']], units, b58decode(addr) if addr else b'')
    if kind == 'channel':
        for f in ('email', 'website_url', 'cover_url'):
            typed[f] = raw[f] = P.text(st['txt'][f])
        pk = st['bin']['public_key']
        b = P.binary('public_key', pk)
        raw['public_key'] = b
        if pk != 'b0':
            typed['public_key'] = b.hex()
            typed['public_key_bytes'] = b
    if kind in ('channel', 'collection'):
        typed['refs'] = [P.claim_ids[x] for x in st['refs']]
        raw['refs'] = [bytes.fromhex(P.claim_ids[x])[::-1] for x in st['refs']]
    return typed, raw


class Real:
    """the real object under test plus the reading functions"""

    def __init__(self, obj):
        from lbry.schema.claim import Claim
        from lbry.schema.support import Support
        from lbry.schema.purchase import Purchase
        self.kind_name = obj
        self.cls = {'claim': Claim, 'support': Support, 'purchase': Purchase}[obj]
        self.o = self.cls()

    def typed(self, o=None):
        o = o or self.o
        t = {}
        if self.kind_name == 'support':
            t['kind'] = None
            t['emoji'], t['comment'] = o.emoji, o.comment
        elif self.kind_name == 'purchase':
            t['kind'] = None
            t['ref'] = o.claim_id
        else:
            t['kind'] = o.claim_type
        if self.kind_name != 'purchase':
            t['signed'] = o.is_signed
            t['chan'] = o.signing_channel_id
            t['sig'] = o.signature
        if self.kind_name != 'claim' or o.claim_type is None:
            return t
        w = getattr(o, o.claim_type)
        t['title'], t['description'], t['thumbnail_url'] = w.title, w.description, w.thumbnail.url
        t['tags'] = list(w.tags)
        t['langs'] = list(w.langtags)
        t['locs'] = [(l.country, l.state, l.city, l.code,
                      None if l.latitude is None else Decimal(l.latitude), None if l.longitude is None else Decimal(l.longitude))
                     for l in w.locations]
        k = o.claim_type
        if k == 'stream':
            src = w.source
            t.update(author=w.author, license=w.license, license_url=w.license_url, source_name=src.name,
                     source_media_type=src.media_type, source_url=src.url, release_time=w.release_time, source_size=src.size,
                     image_width=w.image.width, image_height=w.image.height, video_width=w.video.width,
                     video_height=w.video.height, video_duration=w.video.duration, audio_duration=w.audio.duration,
                     source_sd_hash=src.sd_hash, source_hash=src.file_hash, source_bt_infohash=src.bt_infohash,
                     source_sd_hash_bytes=src.sd_hash_bytes, source_hash_bytes=src.file_hash_bytes,
                     media=w.stream_type, has_source=w.has_source, has_fee=w.has_fee)
            try:
                t['source_bt_infohash_bytes'] = src.bt_infohash_bytes
            except Exception as e:  # pylint: disable=broad-except
                t['source_bt_infohash_bytes'] = f'raised {type(e).__name__}'
            fee = w.fee
            cur = fee.currency
            t['fee'] = (cur, fee.amount, getattr(fee, UNIT_ATTR[cur.lower()]) if cur else None, fee.address)
        elif k == 'channel':
            t.update(email=w.email, website_url=w.website_url, cover_url=w.cover.url)
            try:        # the accessor parses the key; on an unset key it raises (not judged: OPTIONAL)
                t['public_key'] = w.public_key
                t['public_key_bytes'] = w.public_key_bytes
            except Exception:  # pylint: disable=broad-except
                pass
            t['refs'] = list(w.featured.ids)
        elif k == 'repost':
            t['ref'] = w.reference.claim_id
        elif k == 'collection':
            t['refs'] = list(w.claims.ids)
        return t

    def raw(self, data):
        """what a plain protobuf parse of the bytes shows (no lbry.schema code involved)"""
        from lbry.schema.types.v2.claim_pb2 import Claim as ClaimMessage, Language as LanguageMessage, Location as LocationMessage
        from lbry.schema.types.v2.support_pb2 import Support as SupportMessage
        from lbry.schema.types.v2.purchase_pb2 import Purchase as PurchaseMessage
        r = {}
        ver = data[0]
        if self.kind_name != 'purchase' and ver == 1:
            off = 85
            r['envelope'] = (1, data[1:21], data[21:85])
        else:
            off = 1
            r['envelope'] = (ver, b'', b'')
        m = {'claim': ClaimMessage, 'support': SupportMessage, 'purchase': PurchaseMessage}[self.kind_name]()
        m.ParseFromString(data[off:])
        r['over'] = len(data) - m.ByteSize()
        if self.kind_name == 'support':
            r['kind'] = None
            r['emoji'], r['comment'] = m.emoji, m.comment
            return r
        if self.kind_name == 'purchase':
            r['kind'] = None
            r['ref'] = m.claim_hash
            return r
        k = r['kind'] = m.WhichOneof('type')
        if k is None:
            return r
        r['title'], r['description'], r['thumbnail_url'] = m.title, m.description, m.thumbnail.url
        r['tags'] = list(m.tags)
        r['langs'] = [(LanguageMessage.Language.Name(l.language), LanguageMessage.Script.Name(l.script), LocationMessage.Country.Name(l.region))
                      for l in m.languages]
        r['locs'] = [(LocationMessage.Country.Name(l.country), l.state, l.city, l.code, l.latitude, l.longitude) for l in m.locations]
        if k == 'stream':
            s = m.stream
            r.update(author=s.author, license=s.license, license_url=s.license_url, source_name=s.source.name,
                     source_media_type=s.source.media_type, source_url=s.source.url, release_time=s.release_time,
                     source_size=s.source.size, image_width=s.image.width, image_height=s.image.height,
                     video_width=s.video.width, video_height=s.video.height, video_duration=s.video.duration,
                     audio_duration=s.audio.duration, source_sd_hash=s.source.sd_hash, source_hash=s.source.hash,
                     source_bt_infohash=s.source.bt_infohash, media=s.WhichOneof('type'),
                     has_source=s.HasField('source'), has_fee=s.HasField('fee'),
                     fee=(s.fee.currency, s.fee.amount, s.fee.address))
        elif k == 'channel':
            ch = m.channel
            r.update(email=ch.email, website_url=ch.website_url, cover_url=ch.cover.url, public_key=ch.public_key,
                     refs=[x.claim_hash for x in ch.featured.claim_references])
        elif k == 'repost':
            r['ref'] = m.repost.claim_hash
        elif k == 'collection':
            r['refs'] = [x.claim_hash for x in m.collection.claim_references]
        return r


def apply_call(real, a, P, form):
    """perform one model action on the real object; returns a description of the concrete call"""
    op, x, y, z = a['op'], a['a'], a['b'], a['d']
    o = real.o
    if op == 'Open':
        getattr(o, x)
        return f'claim.{x}'
    if op == 'Reload':
        real.o = real.cls.from_bytes(o.to_bytes())
        return 'obj = from_bytes(obj.to_bytes())'
    if op == 'Sign':
        o.signing_channel_id = P.claim_ids[x]
        o.signature = P.sigs[y]
        return f'signing_channel_id = {P.claim_ids[x]}; signature = <64 bytes>'
    if op == 'Unsign':
        o.clear_signature()
        return 'clear_signature()'
    if real.kind_name == 'support':
        setattr(o, x, P.text(y))
        return f'support.{x} = {P.text(y)!r}'
    if real.kind_name == 'purchase':
        if form % 2:
            o.claim_id = P.claim_ids[x]
        else:
            o.claim_hash = bytes.fromhex(P.claim_ids[x])[::-1]
        return f'purchase.claim_id = {P.claim_ids[x]}'
    kind = o.claim_type
    w = getattr(o, kind)
    use_update = kind != 'stream' and form % 3 == 1      # Stream.update couples to mime-type guessing: not used
    if op == 'SetText':
        v = P.text(y)
        if x.startswith('source_'):
            setattr(w.source, x[len('source_'):], v)
        elif use_update:
            w.update(**{x: v})          # thumbnail_url / cover_url are routed to the sub-object by update()
            return f'{kind}.update({x}={v!r})'
        elif x == 'thumbnail_url':
            w.thumbnail.url = v
        elif x == 'cover_url':
            w.cover.url = v
        else:
            setattr(w, x, v)
        return f'{kind}.{x} = {v!r}'
    if op == 'SetNum':
        v = INTS[y]
        if x == 'release_time':
            w.release_time = v
        elif x == 'source_size':
            w.source.size = v
        else:
            member, attr = x.split('_')
            setattr(getattr(w, member), attr, v)
        return f'stream.{x} = {v}'
    if op == 'SetBin':
        b = P.binary(x, y)
        if x == 'public_key':
            if form % 2:
                w.public_key = b.hex()
            else:
                w.public_key_bytes = b
        else:
            attr = {'source_sd_hash': 'sd_hash', 'source_hash': 'file_hash', 'source_bt_infohash': 'bt_infohash'}[x]
            if form % 2:
                setattr(w.source, attr, b.hex())
            else:
                setattr(w.source, attr + '_bytes', b)
        return f'{kind}.{x} = {b.hex()}'
    if op == 'FeeAmount':
        amt = Decimal(P.amount_text(y))
        setattr(w.fee, x, amt)
        return f'stream.fee.{x} = Decimal({P.amount_text(y)!r})'
    if op == 'FeeUnits':
        setattr(w.fee, UNIT_ATTR[x], INTS[y])
        return f'stream.fee.{UNIT_ATTR[x]} = {INTS[y]}'
    if op == 'FeeUpdate':
        args = (P.addrs[x] if x != '-' else None, y if y != '-' else None, P.amount_text(z) if z != '-' else None)
        w.fee.update(*args)
        return f'stream.fee.update{args!r}'
    if op == 'FeeAddr':
        if form % 2:
            w.fee.address = P.addrs[x]
        else:
            w.fee.address_bytes = b58decode(P.addrs[x])
        return f'stream.fee.address = {P.addrs[x]!r}'
    if op == 'AddTag':
        t = P.tag(P.defs['tags'][x])
        if use_update:
            w.update(tags=t if form % 2 else [t])
        else:
            w.tags.append(t)
        return f'{kind}.tags.append({t!r})'
    if op == 'ExtendTags':
        ts = [P.tag(P.defs['tags'][x]), P.tag(P.defs['tags'][y])]
        if use_update:
            w.update(tags=ts)
        else:
            w.tags.extend(ts)
        return f'{kind}.tags.extend({ts!r})'
    if op in ('ClearTags', 'ClearLangs', 'ClearLocs'):
        name = {'ClearTags': 'tags', 'ClearLangs': 'languages', 'ClearLocs': 'locations'}[op]
        if use_update:
            w.update(**{f'clear_{name}': True})
        else:
            del getattr(w, name)[:]
        return f'del {kind}.{name}[:]'
    if op == 'AddLang':
        t = P.langtag(x)
        if use_update:
            w.update(languages=t)
        else:
            w.languages.append(t)
        return f'{kind}.languages.append({t!r})'
    if op == 'AddLoc':
        v = P.location_input(x, form)
        if use_update:
            w.update(locations=[v])
        else:
            w.locations.append(v)
        return f'{kind}.locations.append({v!r})'
    if op == 'AddRef':
        cid = P.claim_ids[x]
        lst = w.featured if kind == 'channel' else w.claims
        if use_update:
            w.update(**{'featured' if kind == 'channel' else 'claims': cid})
        else:
            lst.append(cid)
        return f'{kind}.{"featured" if kind == "channel" else "claims"}.append({cid!r})'
    if op == 'SetRef':
        if form % 2:
            w.reference.claim_id = P.claim_ids[x]
        else:
            w.reference.claim_hash = bytes.fromhex(P.claim_ids[x])[::-1]
        return f'repost.reference.claim_id = {P.claim_ids[x]!r}'
    raise MachineryError(f'unknown action {op}')


OPTIONAL = {'public_key', 'public_key_bytes'}      # read-back of an UNSET channel key is not judged


def _diff(exp, got):
    return [k for k in exp if k not in got or exp[k] != got[k]] + [k for k in got if k not in exp and k not in OPTIONAL]


def _claim_tlc_jobs(ctx):
    depth = 5 if ctx.thorough else 4
    walks = 3000 if ctx.thorough else 500
    wdepth = 40 if ctx.thorough else 30
    bfs = {'MODE': 'bfs', 'WALK0': 0, 'WALKS': 0, 'DEPTH': depth, 'EMIT': False}
    wit = {'MODE': 'bfs', 'WALK0': 0, 'WALKS': 0, 'DEPTH': 4, 'EMIT': False}
    nproc = 6 if ctx.thorough else 2
    walk = [{'MODE': 'walk', 'WALK0': k * (walks // nproc), 'WALKS': walks // nproc, 'DEPTH': wdepth, 'EMIT': True} for k in range(nproc)]
    return bfs, wit, walk


def check_claims(ctx, res_bfs, res_wit, res_walk, consts):
    bfs_c, wit_c, walk_c = consts
    ctx.add_tlc(res_bfs, f'ClaimApi.tla exhaustive, every call sequence up to DEPTH over the small pools {bfs_c}: invariants {API_INVS}, action properties {API_PROPS}')
    if res_bfs.violated:
        ctx.violation('model:ClaimApi:' + ','.join(res_bfs.violated), 'specification law violated in the metadata model', res_bfs.error_trace[:6000])
        return
    for w, r in zip(API_WITNESSES, res_wit):
        ctx.add_tlc(r, f'ClaimApi.tla reachability witness {w} (must be violated) {wit_c}')
    missing = [w for w, r in zip(API_WITNESSES, res_wit) if w not in r.violated]
    if missing:
        raise MachineryError(f'reachability witnesses not reached (laws may hold vacuously): {missing}')
    walks = collections.defaultdict(dict)
    defs = None
    for wc, rw in zip(walk_c, res_walk):
        ctx.add_tlc(rw, f'ClaimApi.tla random API sequences {wc} (model invariants on every state + emission)')
        if rw.violated:
            ctx.violation('model:ClaimApi-walk:' + ','.join(rw.violated), 'specification law violated on a generated call sequence', rw.error_trace[:6000])
            return
        pools = _printed_json(rw, 'POOLS')
        if len(pools) != 1:
            raise MachineryError('pool definitions were not printed by ClaimApi.tla')
        defs = pools[0]
        for s in _printed_json(rw, 'STEP'):
            walks[s['tid']][s['i']] = s
    if len(walks) != sum(wc['WALKS'] for wc in walk_c):
        raise MachineryError(f'{len(walks)} walks emitted, expected {sum(wc["WALKS"] for wc in walk_c)}')
    opcount = collections.Counter()
    notes = collections.Counter()
    nsteps = 0
    for tid in sorted(walks):
        seq = walks[tid]
        n = max(seq) + 1
        if sorted(seq) != list(range(n)):
            raise MachineryError(f'walk {tid} has gaps')
        P = Pools(defs, tid, ctx.rng)
        real = Real(seq[0]['obj'])
        history = []
        dead = False
        ignored = set()
        for i in range(n):
            st = seq[i]
            a = st['act']
            form = tid + i
            if i > 0:
                opcount[a['op']] += 1
                notes[a['note']] += 1
                nsteps += 1
                ctx.count(('api', tid, i), nontrivial=True)
                try:
                    with watchdog(20):
                        what = apply_call(real, a, P, form)
                    raised = None
                except MachineryError:
                    raise
                except Hang:
                    what, raised = f'{a}', 'Hang'
                except Exception as e:  # pylint: disable=broad-except
                    what, raised = f'{a["op"]}({a["a"]},{a["b"]},{a["d"]})', f'{type(e).__name__}: {e}'
                history.append(what if not raised else f'{what} -> {raised}')
                if raised and a['out'] == 'ok':
                    ctx.violation(f'api-raises:{a["op"]}' + (f':{a["b"]}' if a['op'] == 'FeeUpdate' else ''),
                                  f'{what} raised {raised}; the call is valid (walk {tid} step {i})',
                                  {'walk': tid, 'step': i, 'calls': history, 'action': a})
                    dead = True
                elif not raised and a['out'] == 'raises':
                    ctx.violation(f'api-accepts:{a["op"]}:{a["note"]}', f'{what} returned; the call must be refused ({a["note"]}) (walk {tid} step {i})',
                                  {'walk': tid, 'step': i, 'calls': history, 'action': a})
                    dead = True
            if dead:
                break
            exp_t, exp_r = _expected(st, P)
            try:
                with watchdog(20):
                    got_t = real.typed()
                    data = real.o.to_bytes()
                    got_r = real.raw(data)
                    again = real.cls.from_bytes(data)
                    got_t2 = real.typed(again)
                    data2 = again.to_bytes()
                    same_msg = again.message == real.o.message
            except Exception as e:  # pylint: disable=broad-except
                ctx.violation(f'read-back-raises:{a["op"]}', f'reading the object back raised {type(e).__name__}: {e} after {history[-3:]} (walk {tid} step {i})',
                              {'walk': tid, 'step': i, 'calls': history})
                break
            # a field that already disagreed in this walk is not reported again (one report per walk and field)
            for view, exp, got in (('typed', exp_t, got_t), ('raw', exp_r, got_r), ('from_bytes', exp_t, got_t2)):
                d = [k for k in _diff(exp, got) if (view, k) not in ignored]
                if d:
                    detail = {k: (exp.get(k), got.get(k)) for k in d}
                    ctx.violation(f'{view}:{d[0]}', f'after {history[-1] if history else "construction"} the {view} view of {d} differs from the model '
                                  f'(expected, got) = {detail} (walk {tid} step {i})',
                                  {'walk': tid, 'step': i, 'calls': history, 'view': view, 'fields': d, 'detail': detail, 'model_state': st})
                    ignored.update((vw, k) for k in d for vw in ('typed', 'raw', 'from_bytes'))
            if (data2 != data or not same_msg) and ('from_bytes', 'bytes') not in ignored:
                ctx.violation('from_bytes:bytes', f'from_bytes(to_bytes(x)) is not x after {history[-1] if history else "construction"}: '
                              f'{data.hex()} -> {data2.hex()} (walk {tid} step {i})', {'walk': tid, 'step': i, 'calls': history})
                ignored.add(('from_bytes', 'bytes'))
            if tid % 97 == 5 and tid < 300 and i == n - 1:
                ctx.sample({'walk': tid, 'calls': history[-6:], 'typed_view': {k: got_t[k] for k in list(got_t)[:8]}, 'bytes': len(data)})
    # coverage guard -- only meaningful when no walk was cut short by a violation (a violation is never hidden behind exit 2)
    cut_short = any(v['key'].split(':')[0] in ('api-raises', 'api-accepts', 'read-back-raises') for v in ctx.violations)
    never = [op for op in ALL_OPS if opcount[op] == 0]
    if never and not cut_short:
        raise MachineryError(f'walks never performed: {never}')
    need = ['duplicate-dropped', 'empty-dropped', 'kind-mismatch', 'currency-replaced', 'media-switched', 'signed', 'unsigned']
    lacking = [x for x in need if notes[x] == 0]
    if lacking and not cut_short:
        raise MachineryError(f'walks never reached: {lacking}')
    ctx.leg('B-api', walks=len(walks), calls=nsteps, per_operation=dict(opcount), situations=dict(notes))
    ctx.cov['traces_validated_against_impl'] += len(walks)


# ======================================================================================= legacy encodings

def _legacy_cases(path):
    """read tests/unit/schema/test_claim_from_bytes.py as DATA: every Claim.from_bytes(<literal>) with the
    assertEqual / assertRaises statements that follow it in the same test function"""
    tree = ast.parse(open(path, encoding='utf-8').read())
    out = []
    for fn in ast.walk(tree):
        if isinstance(fn, ast.FunctionDef) and fn.name.startswith('test'):
            out.append((fn.name, fn.body))
    return out


def _lit_bytes(node):
    if isinstance(node, ast.Constant) and isinstance(node.value, bytes):
        return node.value
    if isinstance(node, ast.Call) and getattr(node.func, 'id', getattr(node.func, 'attr', None)) == 'unhexlify' and len(node.args) == 1:
        inner = _lit_bytes(node.args[0])
        if inner is not None:
            return binascii.unhexlify(inner)
    return None


def _is_from_bytes(node):
    return (isinstance(node, ast.Call) and isinstance(node.func, ast.Attribute) and node.func.attr == 'from_bytes'
            and isinstance(node.func.value, ast.Name) and node.func.value.id == 'Claim' and len(node.args) == 1)


def _attr_chain(node, env):
    """evaluate Name(.attr)* against env; anything else is unsupported"""
    if isinstance(node, ast.Name):
        if node.id not in env:
            raise KeyError(node.id)
        return env[node.id]
    if isinstance(node, ast.Attribute):
        return getattr(_attr_chain(node.value, env), node.attr)
    raise KeyError(ast.dump(node)[:60])


def check_legacy(ctx):
    from lbry.schema.claim import Claim
    path = os.path.join(REPO, 'tests', 'unit', 'schema', 'test_claim_from_bytes.py')
    if not os.path.exists(path):
        raise MachineryError(f'{path} is missing: no recorded legacy claims to decode')
    decoded = asserted = skipped = 0
    versions = collections.Counter()
    for name, body in _legacy_cases(path):
        env = {}
        for stmt in body:
            try:
                if isinstance(stmt, ast.Assign) and len(stmt.targets) == 1 and isinstance(stmt.targets[0], ast.Name):
                    tgt = stmt.targets[0].id
                    if _is_from_bytes(stmt.value):
                        data = _lit_bytes(stmt.value.args[0])
                        if data is None:
                            skipped += 1
                            continue
                        ctx.count(('legacy', name, tgt), nontrivial=True)
                        try:
                            with watchdog(20):
                                env[tgt] = Claim.from_bytes(data)
                            decoded += 1
                            versions[env[tgt].version] += 1
                        except Exception as e:  # pylint: disable=broad-except
                            ctx.violation(f'legacy-decode:{name}', f'Claim.from_bytes raised {type(e).__name__}: {e} on the recorded claim of {name}',
                                          {'test': name, 'hex': data.hex()})
                    else:
                        env[tgt] = _attr_chain(stmt.value, env)
                elif (isinstance(stmt, ast.Expr) and isinstance(stmt.value, ast.Call) and isinstance(stmt.value.func, ast.Attribute)
                      and stmt.value.func.attr == 'assertEqual' and len(stmt.value.args) == 2):
                    lhs, rhs = stmt.value.args
                    want = ast.literal_eval(rhs)
                    ctx.count(('legacy', name, ast.unparse(lhs)), nontrivial=True)
                    try:
                        got = _attr_chain(lhs, env)
                    except KeyError:
                        skipped += 1
                        continue
                    except Exception as e:  # pylint: disable=broad-except
                        got = f'raised {type(e).__name__}: {e}'
                    asserted += 1
                    if got != want:
                        ctx.violation(f'legacy-field:{name}:{ast.unparse(lhs)}', f'{ast.unparse(lhs)} = {got!r} on the recorded claim of {name}; recorded value {want!r}',
                                      {'test': name, 'field': ast.unparse(lhs), 'got': got, 'want': want})
                elif isinstance(stmt, ast.With) and len(stmt.items) == 1 and isinstance(stmt.items[0].context_expr, ast.Call) \
                        and getattr(stmt.items[0].context_expr.func, 'attr', '') == 'assertRaisesRegex':
                    # `with self.assertRaisesRegex(ValueError, ...): print(<expr>)`: the accessor of another currency must refuse
                    inner = stmt.body[0].value.args[0] if isinstance(stmt.body[0], ast.Expr) and isinstance(stmt.body[0].value, ast.Call) else None
                    if inner is None:
                        skipped += 1
                        continue
                    asserted += 1
                    try:
                        got = _attr_chain(inner, env)
                        ctx.violation(f'legacy-field:{name}:{ast.unparse(inner)}', f'{ast.unparse(inner)} returned {got!r}; it must raise ValueError',
                                      {'test': name, 'field': ast.unparse(inner)})
                    except KeyError:
                        skipped += 1
                        asserted -= 1
                    except ValueError:
                        pass
                else:
                    skipped += 1
            except (ValueError, SyntaxError):
                skipped += 1
    if decoded < 5 or asserted < 40 or not ({0, 1} <= set(versions)):
        raise MachineryError(f'legacy corpus too small / unreadable: decoded={decoded} asserted={asserted} versions={dict(versions)}')
    ctx.leg('legacy', recorded_claims_decoded=decoded, recorded_field_values_compared=asserted, statements_skipped=skipped,
            by_version={('json' if k == 0 else 'protobuf-v1' if k == 1 else str(k)): v for k, v in versions.items()})
    ctx.cov['traces_validated_against_impl'] += decoded


# ======================================================================================= entry

# ===================================================================================== language tags / country codes (LangTag.tla)

def check_langtags(ctx):
    """every member of the schema's language / script / country enumerations, set through the API and read back three ways"""
    from lbry.schema.claim import Claim
    from lbry.schema.types.v2.claim_pb2 import Claim as ClaimMessage, Language as LanguageMessage, Location as LocationMessage
    langs = sorted(n for n in LanguageMessage.Language.keys() if n != 'UNKNOWN_LANGUAGE')
    scripts = sorted(n for n in LanguageMessage.Script.keys() if n != 'UNKNOWN_SCRIPT')
    names = [n for n in LocationMessage.Country.keys() if n != 'UNKNOWN_COUNTRY']
    regions3 = sorted(n[1:] for n in names if len(n) == 4 and n[0] == 'R' and n[1:].isdigit())
    countries = sorted(n for n in names if not (len(n) == 4 and n[0] == 'R' and n[1:].isdigit()))
    if len(langs) < 100 or len(scripts) < 100 or len(countries) < 200 or len(regions3) < 20 or 'en' not in langs or 'Latn' not in scripts:
        raise MachineryError('the schema enumerations could not be read from the protobuf descriptor')
    consts = {'LANGS': set(langs), 'SCRIPTS': set(scripts), 'COUNTRIES': set(countries), 'REGIONS3': set(regions3),
              'PIVOTS': {'en', 'zh'}, 'S0': 'Latn', 'EMIT': True}
    res = tlc.run('LangTag', tlc.make_cfg(constants=consts, invariants=['RoundTrip'], constraint='Emit'), ctx, workers=1, coverage=False,
                  timeout=1200, label='LangTag')
    ctx.add_tlc(res, f'LangTag exhaustive: {len(langs)} languages, {len(scripts)} scripts, {len(countries)} countries, {len(regions3)} UN regions '
                     '(law RoundTrip, assumptions ShapesDisjoint / StoredInjective + emission)')
    if res.violated:
        ctx.violation('model:' + ','.join(res.violated), 'specification law violated in the model', res.error_trace[:4000])
        return
    cases = _printed_json(res, 'LANG')
    if len(cases) != res.distinct:
        raise MachineryError(f'LangTag emitted {len(cases)} cases but TLC found {res.distinct} distinct states')
    n = 0
    for c in cases:
        n += 1
        rep = {'family': 'langtag', 'case': c}
        try:
            with watchdog(20):
                claim = Claim()
                if c['kind'] == 'tag':
                    claim.stream.languages.append(c['tag'])
                else:
                    claim.stream.locations.append({'country': c['country']})
                data = claim.to_bytes()
                views = {'typed': claim, 'reparsed': Claim.from_bytes(data)}
                got = {}
                for vn, v in views.items():
                    if c['kind'] == 'tag':
                        lg = v.stream.languages[0]
                        got[vn] = {'tag': lg.langtag, 'language': lg.language or '', 'script': lg.script or '', 'region': lg.region or ''}
                    else:
                        got[vn] = {'country': v.stream.locations[0].country}
                m = ClaimMessage()
                m.ParseFromString(data[1:])
                if c['kind'] == 'tag':
                    lm = m.languages[0]
                    raw = [LanguageMessage.Language.Name(lm.language), LanguageMessage.Script.Name(lm.script), LocationMessage.Country.Name(lm.region)]
                else:
                    raw = [LocationMessage.Country.Name(m.locations[0].country)]
        except Hang as e:
            ctx.violation('langtag-hangs', str(e), rep)
            continue
        except Exception as e:  # pylint: disable=broad-except
            ctx.violation(f'langtag-set-or-read-raises:{c["kind"]}', f'{type(e).__name__}: {e} on {c}', rep)
            continue
        want = {k: c[k] for k in (('tag', 'language', 'script', 'region') if c['kind'] == 'tag' else ('country',))}
        ctx.count(('lang', json.dumps(want, sort_keys=True)), nontrivial=True)
        for vn, g in got.items():
            if g != want:
                part = next(k for k in want if g[k] != want[k])
                if c['kind'] == 'tag' and want['region'][:1] == 'R' and g['region'] == want['region'][1:]:
                    part = 'country-code-starting-with-R-loses-it'
                ctx.violation(f'langtag-read-back-differs:{part}', f'set {want}, {vn} view reads {g}', dict(rep, view=vn, got=g))
                break
        else:
            if raw != c['raw']:
                ctx.violation('langtag-protobuf-differs', f'set {want}, plain protobuf parse shows {raw}, specification says {c["raw"]}', dict(rep, raw=raw))
        if n % 400 == 1:
            ctx.sample({'set': want, 'typed': got['typed'], 'protobuf': raw})
    ctx.cov['traces_validated_against_impl'] += len(cases)
    ctx.leg('B-langtag', cases=len(cases), languages=len(langs), scripts=len(scripts), countries=len(countries), un_regions=len(regions3))


def run(ctx):
    t0 = time.time()
    url_jobs = _url_jobs(ctx)
    bfs_c, wit_c, walk_c = _claim_tlc_jobs(ctx)
    with ThreadPoolExecutor(max_workers=8 if ctx.thorough else 12) as pool:
        f_walk = [pool.submit(lambda wc=wc: tlc.run('ClaimApi', tlc.make_cfg(constants=wc, invariants=API_INVS, constraint='Emit'), ctx, workers=1,
                                                    coverage=False, timeout=3000, label=f'ClaimApi-walk{wc["WALK0"]}', seed=ctx.seed + 7 + wc['WALK0']))
                  for wc in walk_c]
        f_url = [(label, consts, pool.submit(_run_url_tlc, ctx, label, consts)) for label, consts in url_jobs]
        f_bfs = pool.submit(lambda: tlc.run('ClaimApi', tlc.make_cfg(constants=bfs_c, invariants=API_INVS, properties=API_PROPS, constraint='Emit'), ctx,
                                            workers=8 if ctx.thorough else 4, coverage=False, timeout=3000, label='ClaimApi-bfs'))
        f_wit = [pool.submit(lambda w=w: tlc.run('ClaimApi', tlc.make_cfg(constants=wit_c, invariants=[w], constraint='Emit'), ctx,
                                                 workers=2, coverage=False, timeout=3000, label=f'ClaimApi-{w}')) for w in API_WITNESSES]
        # the legacy corpus and the metadata walks are replayed while the URL enumerations are still running
        check_legacy(ctx)
        check_langtags(ctx)
        check_claims(ctx, f_bfs.result(), [f.result() for f in f_wit], [f.result() for f in f_walk], (bfs_c, wit_c, walk_c))
        check_urls(ctx, [(label, consts, f.result()) for label, consts, f in f_url])
    ctx.cov['exhaustive'] = True
    ctx.cov['rule'] = (
        'URL: every TLC state of Url.tla is one case = one string over 13 symbol classes (@ : # $ * / a-f 1-9 0 other-name-char '
        'forbidden-char LF and the lbry:// token): ALL strings up to STRLEN symbols, every grammar-generated URL with names of 1-2 symbols and '
        'modifiers of 1/2/39/40/41 hex digits or 1-3 decimal digits (each also with LF appended), and every string within one insert/substitute/'
        'delete of a forbidden or structural symbol of a grammar string; each case is concretised with 2-3 representative spellings (ASCII, BMP incl. '
        'combining marks and the range boundaries U+0020/21, U+D7FF/D800/DFFF/E000, U+FFFD/FFFE, astral). Distinct = distinct class strings of length >= 2. '
        'Metadata: one evaluation = one API call on a real object followed by a complete read-back (typed accessors, plain protobuf parse of to_bytes(), '
        'from_bytes(to_bytes())) compared with the ClaimApi.tla state; distinct = (walk, step). Language tags: every member of the schema\'s '
        'language / script / country / UN-region enumerations set through languages.append / locations.append and read back typed, re-parsed and as plain protobuf (LangTag.tla). Legacy: one evaluation per recorded claim / recorded field value.')
    ctx.leg('A', url_invariants=URL_INVS, url_witnesses=URL_WITNESSES, api_invariants=API_INVS, api_action_properties=API_PROPS,
            api_witnesses=API_WITNESSES, api_bfs=bfs_c)
    ctx.leg('timing', total_s=round(time.time() - t0, 1))
    ctx.assumptions += [
        'the protobuf wire encoding (google.protobuf) is trusted: the model treats the message bytes as opaque cells, the raw view is read with the generated ClaimMessage / SupportMessage / PurchaseMessage classes',
        'all characters of one symbol class are treated alike by URL.parse (checked on 2-3 representatives per class and position, not on every code point)',
        'URL printing is judged modulo the canonical form (scheme added, claim id after ":" -- "#" would be accepted as well); amount_order is compared as text',
        'documented normalisations are by design: tag normalisation, USD rounded up to pennies, LBC/BTC truncated to 8 decimals, coordinates truncated to 7 decimals, zero = unset',
        'decimal read-backs (fee amount, latitude, longitude) are compared by value, not by spelling (0.0000005 reads back as 5E-7)',
        'Stream.update() (file inspection / mime guessing) is outside the model; streams are assembled through the attribute API, other kinds also through update()',
        'legacy encodings: only the recorded claims of tests/unit/schema/test_claim_from_bytes.py, expected values taken from that file',
    ]
