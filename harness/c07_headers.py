"""C07 -- the header chain: connect, checkpointed chunks, repair on open.

Leg A: Headers.tla exhaustively (scaled constants: repair stride 3, checkpointed chunk 4, chains <= 9): the transcription of
       connect/_write/close/open/repair/ensure_checkpointed_size/get_all_missing_headers/fetch_chunk WITH the four repairs
       satisfies every clause; each repair switched off (= the code as found) must give a TLC counterexample (the defect
       families are visible to the model), which is scaled to a real history and executed in Leg C.
Leg B: TLC -simulate behaviours of Headers.tla with the REAL constants (stride 36, chunk 1000, no checkpoint table, chains <= 9)
       replayed one to one into a real lbry.wallet.header.Headers over a real file with REAL 112-byte headers mined by the
       driver (differences = spec drift, a NOTE).
Leg C: real-scale histories (chains of 1000..1100 headers over a synthetic checkpoint table, every cut class, every damage
       position class x header field, forks, flawed headers, split deliveries, checkpointed chunk fetches, a pre-mined header
       whose proof of work lies between the rounded and the unrounded target).
Every observation of B and C is judged by TLC against HeadersTrace.tla at property level.

The driver's miner and judge implement the consensus rules from lbrycrd (pow.cpp / lbry.cpp / arith_uint256.cpp) with exact
integer arithmetic, independent of the SDK's validation code; cross-checked on the 20 main-net headers embedded in
tests/unit/wallet/test_headers.py (read as data)."""
import ast
import base64
import hashlib
import os
import random
import struct
import zlib

from . import tlc
from .common import REPO, Hang, MachineryError, watchdog

HS = 112
M256 = (1 << 256) - 1
MAXT = (1 << 248) - 1          # easy limit below 2^248: target * 225 never wraps 256 bits, ~2^-8 success per nonce
T0 = 1_500_000_000


# ------------------------------------------------------------------------------------------------ consensus rules (driver's own)

def dsha(b):
    return hashlib.sha256(hashlib.sha256(b).digest()).digest()


def _rmd(b):
    return hashlib.new('ripemd160', b).digest()


def pow_int(raw):
    """lbrycrd PoWHash: sha256d(ripemd160(left half of sha512(sha256d(header))) + ripemd160(right half)), as uint256 (LE)"""
    s = hashlib.sha512(dsha(raw)).digest()
    return int.from_bytes(dsha(_rmd(s[:32]) + _rmd(s[32:])), 'little')


def from_compact(c):
    size, word = c >> 24, c & 0x007fffff
    return (word >> 8 * (3 - size)) if size <= 3 else (word << 8 * (size - 3)) & M256


def to_compact(v):
    size = (v.bit_length() + 7) // 8
    c = (v << 8 * (3 - size)) if size <= 3 else (v >> 8 * (size - 3))
    c &= 0xffffffffffffffff
    if c & 0x00800000:
        c >>= 8
        size += 1
    return c | size << 24


def tdiv(a, b):
    """C++ integer division (towards zero)"""
    q = abs(a) // abs(b)
    return q if (a >= 0) == (b > 0) else -q


def next_bits(prev, prevprev, max_target=MAXT, span=150):
    """GetNextWorkRequired / CalculateLbryNextWorkRequired: prev, prevprev = (timestamp, bits) of the two headers below"""
    if prev is None:
        return to_compact(max_target)
    first = prevprev if prevprev is not None else prev
    mod = span + tdiv((prev[0] - first[0]) - span, 8)
    mod = max(span - span // 8, min(mod, span + span // 2))
    new = ((from_compact(prev[1]) * mod) & M256) // span
    return to_compact(min(new, max_target))


def tb(raw):
    return struct.unpack('<II', raw[100:108])


def judge(raw, pred, predpred, genesis_hash, max_target=MAXT):
    """(links, bits as demanded, meets the target of the demanded bits) for a header standing on pred / predpred"""
    if pred is None:
        ok = dsha(raw) == genesis_hash
        return ok, ok, ok
    want = next_bits(tb(pred), tb(predpred) if predpred is not None else None, max_target)
    return raw[4:36] == dsha(pred), tb(raw)[1] == want, pow_int(raw) <= from_compact(want)


def crosscheck_mainnet():
    """the driver's rules accept the 20 main-net headers embedded in the upstream test module"""
    src = open(os.path.join(REPO, 'tests/unit/wallet/test_headers.py')).read()
    data = None
    for n in ast.parse(src).body:
        if isinstance(n, ast.Assign) and getattr(n.targets[0], 'id', None) == 'HEADERS':
            data = bytes.fromhex(ast.literal_eval(n.value.args[0]).decode())
    if not data or len(data) != 20 * HS:
        raise MachineryError('main-net headers not found in tests/unit/wallet/test_headers.py')
    hs = [data[i * HS:(i + 1) * HS] for i in range(20)]
    main_max = 0x0000ffffffffffffffffffffffffffffffffffffffffffffffffffffffffffff
    gen = bytes.fromhex('9c89283ba0f3227f6c03b70216b9f665f0118d5e0fa729cedf4fb34d6a34f463')[::-1]
    for i, h in enumerate(hs):
        v = judge(h, hs[i - 1] if i else None, hs[i - 2] if i > 1 else None, gen, main_max)
        if v != (True, True, True):
            raise MachineryError(f'driver consensus rules reject main-net header {i}: {v}')
    return hs


# ------------------------------------------------------------------------------------------------ miner

class Misaligned(Exception):
    """the real object is not where the model behaviour expects it (spec drift): the requested step has no meaning"""


def build(prev_hash, ts, bits, tag, nonce=0, version=1):
    return (struct.pack('<I', version) + prev_hash + hashlib.sha256(b'm' + tag).digest() + hashlib.sha256(b'c' + tag).digest()
            + struct.pack('<III', ts & 0xffffffff, bits, nonce))


def mine(pred, predpred, ts, tag, flaw=None):
    """a header on top of pred that is valid, or valid except for ONE chosen rule"""
    want = next_bits(tb(pred), tb(predpred) if predpred is not None else None) if pred is not None else to_compact(MAXT)
    prev_hash = dsha(pred) if pred is not None else bytes(32)
    bits = want
    if flaw == 'prev':
        prev_hash = hashlib.sha256(b'not the predecessor' + tag).digest()
    elif flaw in ('bits', 'bits-easier', 'bits-harder'):
        m = want & 0x007fffff
        if flaw == 'bits-harder' or (flaw == 'bits' and m >= 0x7ffffe):
            bits = (want & 0xff000000) | (m - 1 - (tag[-1] % 3 if tag else 0))
        else:
            bits = (want & 0xff000000) | min(0x7fffff, m + 1 + (tag[-1] % 3 if tag else 0))
    limit = min(from_compact(want), from_compact(bits))
    body = build(prev_hash, ts, bits, tag)[:108]
    for nonce in range(200_000):
        raw = body + struct.pack('<I', nonce)
        p = pow_int(raw)
        if (flaw == 'pow') == (p > limit):
            return raw
    # only on top of a header that should never have been stored (absurd bits): the script cannot go on from here
    raise Misaligned('no nonce in 200000 tries: the predecessor demands an absurd target')


class World:
    """the driver's block chains: one canonical chain and branches, mined once"""

    def __init__(self, seed, spacing=None):
        self.rng = random.Random(seed)
        self.seed = seed
        self.spacing = spacing or (lambda h, rng: 150)
        self.main = []
        self.ids = {}            # raw -> integer name
        self.raws = {}
        self.next_id = 1_000_000
        self.jcache = {}

    def extend(self, chain, n, tag, spacing=None):
        sp = spacing or self.spacing
        while len(chain) < n:
            h = len(chain)
            ts = T0 if h == 0 else tb(chain[-1])[0] + sp(h, self.rng)
            chain.append(mine(chain[-1] if h else None, chain[-2] if h > 1 else None, ts, tag + b'%d' % h))
        return chain

    def grow_main(self, n):
        old = len(self.main)
        self.extend(self.main, n, b'A%d-' % self.seed)
        for h in range(old, len(self.main)):
            self.ids[self.main[h]] = h + 1
            self.raws[h + 1] = self.main[h]
        return self.main

    def branch(self, at, n, tag, spacing=None):
        """n headers of another branch whose first header stands at height `at` on top of main[at - 1]"""
        chain = list(self.main[:at])
        self.extend(chain, at + n, b'B%d-' % self.seed + tag, spacing)
        return chain[at:]

    @property
    def genesis_hash(self):
        return dsha(self.main[0])

    def name(self, raw):
        i = self.ids.get(raw)
        if i is None:
            i = self.ids[raw] = self.next_id
            self.raws[i] = raw
            self.next_id += 1
        return i

    def verdict(self, raw, pred, predpred):
        k = (raw, pred, predpred)
        v = self.jcache.get(k)
        if v is None:
            v = self.jcache[k] = judge(raw, pred, predpred, self.genesis_hash)
        return v

    def encode(self, raws, with_bad=True):
        """lossless run-length form of a header sequence + the heights that fail a rule where they stand"""
        base = 0
        main = self.main
        while base < len(raws) and base < len(main) and raws[base] == main[base]:
            base += 1
        bad, kinds = [], {}
        if with_bad:
            for h in range(len(raws)):
                if h < base and h >= 2:
                    continue                     # canonical on canonical: valid by construction (checked once in selfcheck)
                v = self.verdict(raws[h], raws[h - 1] if h else None, raws[h - 2] if h > 1 else None)
                if v != (True, True, True):
                    bad.append(h)
                    kinds[h] = v
        return {'len': len(raws), 'base': base, 'tail': [self.name(r) for r in raws[base:]], 'bad': bad}, kinds

    def selfcheck(self):
        m = self.main
        for h in range(len(m)):
            if judge(m[h], m[h - 1] if h else None, m[h - 2] if h > 1 else None, self.genesis_hash) != (True, True, True):
                raise MachineryError(f'mined canonical header {h} fails the driver\'s own rules')


def split(data):
    return [data[i:i + HS] for i in range(0, len(data) - len(data) % HS, HS)]


# ------------------------------------------------------------------------------------------------ the real object

class ProductRaised(Exception):
    def __init__(self, where, exc):
        super().__init__(f'{where}: {type(exc).__name__}: {exc}')
        self.where, self.exc = where, exc


class Real:
    """a real Headers over a real file, driven through its public API under DetLoop; records the trace"""

    def __init__(self, world, path, ckpts):
        from .detloop import DetLoop
        self.w, self.path, self.ckpts = world, path, dict(ckpts)
        self.loop = DetLoop()
        self.h = None
        self.ev = []
        self.kinds = {}

    def _run(self, coro, where, seconds=60):
        try:
            with watchdog(seconds):
                return self.loop.run(coro)
        except Hang as e:
            raise ProductRaised(where, e)

    def _new(self):
        import lbry.wallet  # noqa: F401  pylint: disable=unused-import
        from lbry.wallet.header import Headers
        with self.loop:
            h = Headers(self.path)
        h.max_target = MAXT
        h.genesis_hash = self.w.genesis_hash[::-1].hex().encode()
        h.target_timespan = 150
        h.checkpoints = dict(self.ckpts)
        h.validate_difficulty = True
        return h

    def expect(self, cond, what):
        if not cond:
            raise Misaligned(what)

    # -- observation points of the property
    def raws(self):
        h = self.h

        async def dump():
            return [await h.get_raw_header(i) for i in range(len(h))]
        return self._run(dump(), 'get_raw_header')

    def observe(self):
        o, kinds = self.w.encode(self.raws())
        self.kinds = kinds
        return o

    def file_raws(self):
        if not os.path.exists(self.path):
            return [], 0
        data = open(self.path, 'rb').read()
        return split(data), len(data)

    def missing(self):
        return sorted(self.h.known_missing_checkpointed_chunks)

    # -- actions
    def open(self):
        fr, nbytes = self.file_raws()
        fb, _ = self.w.encode(fr, with_bad=False)
        self.h = self._new()
        try:
            self._run(self.h.open(), 'open')
        except ProductRaised:
            raise
        except Exception as e:  # pylint: disable=broad-except
            raise ProductRaised('open', e)
        e = {'event': 'Open', 'fb': fb, 'fbytes': nbytes, 'obs': self.observe(), 'missing': self.missing()}
        self.ev.append(e)
        return e

    def connect(self, start, batch, fi=None, note=None):
        before = self.raws()
        if start > len(before):
            raise Misaligned(f'connect at {start} beyond the {len(before)} headers held')
        if fi is None:
            fi = first_invalid(self.w, before, start, batch)
        try:
            ret = self._run(self.h.connect(start, b''.join(batch)), 'connect')
        except ProductRaised:
            raise
        except Exception as e:  # pylint: disable=broad-except
            raise ProductRaised('connect', e)
        ids = [self.w.name(r) for r in batch]
        bc = 0
        while bc < len(ids) and ids[bc] == start + bc + 1:
            bc += 1
        e = {'event': 'Connect', 'start': start, 'bn': len(ids), 'bcanon': bc, 'brest': ids[bc:], 'fi': fi, 'ret': ret,
             'obs': self.observe()}
        if note:
            e['note'] = note
        self.ev.append(e)
        return e

    def close(self):
        try:
            self._run(self.h.close(), 'close')
        except ProductRaised:
            raise
        except Exception as e:  # pylint: disable=broad-except
            raise ProductRaised('close', e)
        self.h = None
        fr, nbytes = self.file_raws()
        fobs, _ = self.w.encode(fr)
        e = {'event': 'Close', 'fobs': fobs, 'fbytes': nbytes}
        self.ev.append(e)
        return e

    def cut(self, nbytes):
        nbytes = max(0, min(nbytes, os.path.getsize(self.path)))
        os.truncate(self.path, nbytes)
        self.ev.append({'event': 'Cut', 'bytes': nbytes, 'headers': nbytes // HS, 'inside': nbytes % HS})

    def damage(self, height, offset, xor):
        with open(self.path, 'r+b') as f:
            f.seek(height * HS + offset)
            b = f.read(1)
            f.seek(height * HS + offset)
            f.write(bytes([b[0] ^ xor]))
        self.ev.append({'event': 'Damage', 'height': height, 'offset': offset, 'xor': xor, 'field': field_of(offset)})

    def fetch(self, c, chunk, via_ensure=False):
        """the server answers blockchain.block.headers(c, 1000, b64) with `chunk`"""
        co = zlib.compressobj(wbits=-15)
        payload = base64.b64encode(co.compress(chunk) + co.flush()).decode()
        h = self.h

        async def getter(start):
            return {'base64': payload, 'count': len(chunk) // HS, 'max': 2016}
        h.chunk_getter = getter
        raised = None
        try:
            self._run(h.ensure_chunk_at(c) if via_ensure else h.fetch_chunk(c), 'fetch_chunk')
        except ProductRaised:
            raise
        except Exception as e:  # pylint: disable=broad-except   (a checkpoint mismatch is reported with a bare Exception)
            raised = f'{type(e).__name__}: {e}'[:120]
        finally:
            h.chunk_getter = None
        start = (c // 1000) * 1000
        hashok = dsha(chunk)[::-1].hex() == self.ckpts.get(start)
        e = {'event': 'Fetch', 'c': start, 'hashok': hashok, 'raised': raised, 'obs': self.observe(), 'missing': self.missing()}
        self.ev.append(e)
        return e


class Case:
    """one scripted history on a real Headers: whatever happens, what was observed goes to the judge.  A step that has no
    meaning because an earlier one did not do what the script assumed (Misaligned) ends the history; an exception out of the
    product is a violation of its own"""

    def __init__(self, ctx, traces, real, family, cks, key=None):
        self.ctx, self.traces, self.real, self.family, self.cks, self.key = ctx, traces, real, family, cks, key

    def __enter__(self):
        return self.real

    def __exit__(self, et, ev, tb_):
        r = self.real
        self.traces.append({'cks': sorted(self.cks), 'ev': r.ev, 'family': self.family, 'world': r.w.seed})
        self.ctx.count((self.family, self.key), nontrivial=True)
        if et is not None and issubclass(et, ProductRaised):
            self.ctx.violation(f'{ev.where}-raises-{type(ev.exc).__name__}', f'{ev} ({self.family})',
                               {'family': self.family, 'history': history({'ev': r.ev})})
            return True
        return et is not None and issubclass(et, Misaligned)


FIELDS = [('version', 0, 4), ('prev', 4, 36), ('merkle', 36, 68), ('claimtrie', 68, 100), ('timestamp', 100, 104),
          ('bits', 104, 108), ('nonce', 108, 112)]


def field_of(offset):
    for name, a, b in FIELDS:
        if a <= offset < b:
            return name
    raise ValueError(offset)


def first_invalid(world, store, start, batch):
    """index (1-based) of the first header of the batch that fails a rule where it would stand, 0 if none"""
    pred = store[start - 1] if start >= 1 else None
    predpred = store[start - 2] if start >= 2 else None
    for i, raw in enumerate(batch):
        if start + i == 0:
            ok = dsha(raw) == world.genesis_hash
        else:
            ok = world.verdict(raw, pred, predpred) == (True, True, True)
        if not ok:
            return i + 1
        pred, predpred = raw, pred
    return 0


# ------------------------------------------------------------------------------------------------ Leg A: the model

INVS = ['ChainValid', 'CheckpointOnlyIfHashMatches', 'LoadedIsPrefix', 'DropsAtMost', 'PlaceholdersFlagged']
PROPS = ['ConnectLaw', 'FetchLaw']
WITNESSES = ['W_ForkStored', 'W_Rejected', 'W_CutRepaired', 'W_DamageDropped', 'W_Placeholders', 'W_Fetched', 'W_StaleTail']
ACTIONS = ['ConnectSome', 'Close', 'CrashCut', 'Damage', 'Open', 'FetchChunk']
ALLFLAWS = {'prev', 'bits', 'pow'}
# the code as found = each repair switched off; the defect family TLC must exhibit for it
SWITCHES = {
    'RANGE_FULL': ('repair-stride-skips-final-link', dict(MAXOPEN=2, MAXCONN=3, FLAWS=set())),
    'TAIL_CHECK': ('repair-misses-damaged-final-header', dict(MAXOPEN=2, MAXCONN=3, FLAWS=set())),
    'DROP_STALE': ('connect-extends-stale-tail-after-shorter-fork', dict(MAXOPEN=1, MAXCONN=3, FORKS={4, 5})),
}


def consts(**kw):
    c = dict(BATCH=3, CKPT=4, CKS={0}, MAXLEN=9, MAXV=6, MAXB=3, FORKS={5}, MAXCONN=3, MAXOPEN=1, FLAWS=ALLFLAWS,
             RANGE_FULL=True, TAIL_CHECK=True, DROP_STALE=True, KEEP='any')
    c.update(kw)
    return c


def show(c):
    return {k: (sorted(v) if isinstance(v, (set, frozenset)) else v) for k, v in c.items()}


def acts_of(error_trace):
    import re
    return [tlc.parse_value(a) for a in re.findall(r'/\\ act = (.*)', error_trace)]


def leg_a(ctx):
    configs = [('connect', consts(MAXCONN=3, FORKS={4, 5})),
               ('restart', consts(MAXOPEN=2, MAXCONN=2, MAXV=9, FLAWS=set()))]
    if ctx.thorough:
        configs = [('connect', consts(MAXCONN=4, FORKS={4, 5})),
                   ('restart', consts(MAXOPEN=2, MAXCONN=3, MAXV=9, FLAWS=set())),
                   ('restart-twice', consts(MAXOPEN=3, MAXCONN=2, MAXV=8, MAXLEN=8, FLAWS=set())),
                   ('two-checkpoints', consts(CKS={0, 4}, MAXLEN=12, MAXV=6, MAXOPEN=2, MAXCONN=3, FORKS={9}, FLAWS={'pow'}))]
    # reachability witnesses and the code as found (every repair switched off on its own must be visible to TLC); the runs
    # stop at their first counterexample, so they are run side by side
    from concurrent.futures import ThreadPoolExecutor
    small = consts(MAXOPEN=2, MAXCONN=2, MAXV=9, MAXB=2, FLAWS={'prev'}, FORKS={5})

    def witness(w):         # no VIEW: witnesses read `act`
        return tlc.run('Headers', tlc.make_cfg(constants=small, invariants=[w]), ctx, coverage=False, timeout=900, label=w, workers=2)

    def as_found(sw):
        c = consts(**dict(SWITCHES[sw][1], **{sw: False}))
        return tlc.run('Headers', tlc.make_cfg(constants=c, invariants=INVS, view='View'), ctx, coverage=False, timeout=1200,
                       label=f'Headers-found-{sw}', workers=4)
    def exhaustive(lc):
        return tlc.run('Headers', tlc.make_cfg(constants=lc[1], invariants=INVS, properties=PROPS, view='View'), ctx, timeout=3000,
                       label=f'Headers-{lc[0]}', workers=8)
    with ThreadPoolExecutor(max_workers=12) as ex:
        futs = [ex.submit(exhaustive, lc) for lc in configs]
        wres = list(ex.map(witness, WITNESSES))
        fres = list(ex.map(as_found, list(SWITCHES)))
        eres = [f.result() for f in futs]
    for (label, c), res in zip(configs, eres):
        ctx.add_tlc(res, f'Headers exhaustive [{label}] {show(c)}')
        if res.violated:
            ctx.violation('model:' + res.violated[0], f'model invariant {res.violated[0]} violated in [{label}] (transcription with the '
                          f'repairs)', {'acts': acts_of(res.error_trace)})
            return {}
        tlc.require_coverage(res, [a for a in ACTIONS if not (a == 'Damage' and label == 'connect')], f'Headers-{label}')
    for w, r in zip(WITNESSES, wres):
        if w not in r.violated:
            raise MachineryError(f'reachability witness {w} not reached: the invariants may hold vacuously')
    predicted = {}
    for sw, r in zip(SWITCHES, fres):
        family = SWITCHES[sw][0]
        ctx.add_tlc(r, f'Headers as found ({sw}=FALSE): counterexample expected')
        if not r.violated:
            raise MachineryError(f'the model does not see the defect family {family} ({sw}=FALSE satisfies every invariant)')
        predicted[family] = {'switch': sw, 'invariant': r.violated[0], 'acts': acts_of(r.error_trace)}
    ctx.leg('A', configs=[dict(label=l, **show(c)) for l, c in configs], invariants=INVS + PROPS, witnesses_reached=WITNESSES,
            counterexamples_for_code_as_found={k: {'invariant': v['invariant'], 'history': v['acts'][1:]} for k, v in predicted.items()})
    return predicted


# ------------------------------------------------------------------------------------------------ Leg B: model behaviours, one to one

SIM_FORKS = {3, 5}


def varied_spacing(h, rng):
    """block spacings that exercise both clamps of the retarget rule (132 / 225) while the target stays near the limit"""
    return rng.choice([0, 1, 30, 149, 150, 151, 158, 400, 750, 751, 5000, 150, 150, 600, 900, -90, -400])


class SmallWorld(World):
    """9-header chains for the one-to-one replay: canonical chain, one branch per fork height, flawed variants on demand"""

    def __init__(self, seed):
        super().__init__(seed, varied_spacing)
        self.grow_main(10)
        self.selfcheck()
        self.forks = {f: self.main[:f] + self.branch(f, 10 - f, b'f%d-' % f, varied_spacing) for f in SIM_FORKS}
        self.flawed = {}

    def chain(self, kind, f):
        return self.main if kind == 'A' else self.forks[f]

    def header(self, kind, f, h, flaw='none'):
        ch = self.chain(kind, f)
        if flaw == 'none':
            return ch[h]
        k = (kind, f, h, flaw)
        if k not in self.flawed:
            ts = tb(ch[h])[0]
            self.flawed[k] = mine(ch[h - 1] if h else None, ch[h - 2] if h > 1 else None, ts, b'flawed%d%s%d' % (self.seed, kind.encode(), h)
                                  + flaw.encode(), flaw)
        return self.flawed[k]

    def of_model(self, rec):
        """the real header a model record [id, prev, bitsOK, powOK] stands for"""
        i = rec['id']
        flaw = {0: 'none', 1: 'prev', 2: 'bits', 3: 'pow'}.get(i // 1000)
        base = i % 1000
        if flaw is None or base < 100:
            raise MachineryError(f'model header {rec} has no concrete counterpart')
        if base < 200:
            return self.header('A', 0, base - 100, flaw)
        return self.header('B', (base - 200) // 20, (base - 200) % 20, flaw)


def mv(x):
    return x['$mv'] if isinstance(x, dict) and '$mv' in x else x


def leg_b(ctx, traces):
    num = 900 if ctx.thorough else 150
    simdir = ctx.mkdir('sim')
    c = consts(BATCH=36, CKPT=1000, CKS=set(), MAXLEN=9, MAXV=5, MAXB=3, FORKS=SIM_FORKS, MAXCONN=6, MAXOPEN=3, KEEP='none')
    res = tlc.run('Headers', tlc.make_cfg(constants=c, invariants=INVS), ctx, workers=1, simulate=f'file={simdir}/tr,num={num}', depth=14,
                  seed=ctx.seed + 11, coverage=False, timeout=1500, label='Headers-sim')
    ctx.add_tlc(res, f'Headers -simulate num={num} depth=14, real constants (stride 36, chunk 1000, no checkpoints), for replay')
    if res.violated:
        ctx.violation('model:' + res.violated[0], 'model invariant violated in simulation', res.error_trace[:4000])
        return
    behs = tlc.parse_simulate_dir(simdir, 'tr')
    if not behs:
        raise MachineryError('no simulated behaviours')
    worlds = [SmallWorld(ctx.seed * 10 + k) for k in range(3)]
    drift = steps = 0
    for k, beh in enumerate(behs):
        w = worlds[k % len(worlds)]
        real = Real(w, os.path.join(ctx.mkdir('b'), f'h{k}'), {})
        drifted = None
        acts = []
        try:
            for st in beh[1:]:
                m = st['state']
                act = m['act']
                acts.append(act)
                name = act[0]
                if name == 'Open':
                    real.open()
                elif name == 'Connect':
                    kind, f, n, p, flaw = act[2]
                    start = act[1]
                    batch = [w.header(kind, f, start + i, flaw if i + 1 == p else 'none') for i in range(n)]
                    e = real.connect(start, batch)
                    if drifted is None and (e['ret'] != m['ret'] or e['fi'] != act[3]):
                        drifted = {'action': act, 'real_ret': e['ret'], 'model_ret': m['ret'], 'driver_fi': e['fi']}
                elif name == 'Close':
                    real.close()
                elif name == 'CrashCut':
                    real.cut(act[1] * HS + (ctx.rng.choice([1, 4, 36, 100, 111]) if act[2] else 0))
                else:
                    raise MachineryError(f'action {act} has no counterpart in the one-to-one replay')
                steps += 1
                if drifted is None:
                    if m['phase'] == 'open':
                        if [w.of_model(r) for r in m['store']] != real.raws():
                            drifted = {'action': act, 'what': 'store', 'real_len': len(real.raws()), 'model_len': len(m['store'])}
                    else:
                        fr, nbytes = real.file_raws()
                        if [w.of_model(r) for r in m['file']] != fr or (nbytes % HS != 0) != m['fpart']:
                            drifted = {'action': act, 'what': 'file', 'real_len': len(fr), 'model_len': len(m['file'])}
        except ProductRaised as e:
            ctx.violation(f'{e.where}-raises-{type(e.exc).__name__}', f'{e} during the replay of a model behaviour', {'history': acts})
            continue
        except Misaligned as e:
            drifted = drifted or {'action': acts[-1], 'what': str(e)}
        if drifted:
            drift += 1
            ctx.leg('B', first_drift=drifted)
        traces.append({'cks': [], 'ev': real.ev, 'family': 'model-behaviour', 'world': w.seed})
        ctx.count(('beh', json_key(acts)), nontrivial=any(a[0] == 'Connect' for a in acts))
        if k < 2:
            ctx.sample({'replayed_behaviour': acts, 'final_len': real.ev[-1].get('obs', {}).get('len') if real.ev else None})
    ctx.leg('B', behaviours=len(behs), steps=steps, spec_drift=drift)
    if drift:
        print(f'NOTE: {drift} replayed behaviours diverged from Headers.tla (spec drift; the property is judged on the observations)')


def json_key(x):
    import json
    return json.dumps(x, sort_keys=True, default=str)


# ------------------------------------------------------------------------------------------------ Leg C: real-scale histories

START = 1000        # first height above the (single) checkpointed chunk of the synthetic table; repair() starts here
STRIDE = 36
# genesis, header 1 and a header 2 whose proof-of-work hash lies between the target its bits 0x2000ffff encode (0xffff << 232)
# and the unrounded limit 2^248 - 1 (mined once with this module's miner: 2^-24 per nonce)
GAP = [bytes.fromhex(x) for x in (
    '01000000000000000000000000000000000000000000000000000000000000000000000009a28e05d018fe8e958b17290a2bd2cd42253d1ac51006020b3a'
    '7adcd7177a21c11233edbf0942ed98e61b46360f4f14e3c88045aafde94bcb7ebebaaea4b6d3002f6859ffff002022000000',
    '01000000938a228187ca35ff4e0f755f4367f11d575fe70163ce1c4476f995f1a2c0be7342014978526f65dbdab433ca3103482271390a9434873b5a0c33'
    '894b0a4df5763a061eacd33981ff99b79d8efbdcefe656779e4c17e036c1d929443d0e7a96811056685946e10020ee000000',
    '010000005013e3745b98a528b4af4488265c924a01f8986d7ee9d971c83a32a813b6a84f8270dd4d8f0bc5bb41cb2093955b752d2fe90724f576acc972d9'
    '37ecd4353295ee64aba23ce4be58943f6b3ee61238e3df689ccdf48533e5508fb68d012d19e6a6566859ffff002013fc0700')]


class Stored:
    """a header file of L canonical headers produced by the real connect() + close(), reused by many restart scenarios"""

    def __init__(self, ctx, world, ckpts, length, k):
        self.path = os.path.join(ctx.mkdir('c'), f'stored-{k}-{length}')
        self.length = length
        self.ok = False
        self.real = r = Real(world, self.path, ckpts)
        self.bytes = b''
        try:
            r.open()
            done = 0
            for n in ([length] if length % 2 else [length // 2, length - length // 2]):      # odd: one batch, even: split delivery
                r.expect(r.connect(done, world.main[done:done + n])['ret'] == n, 'valid batch not stored')
                done += n
            r.close()
            self.bytes = open(self.path, 'rb').read()
            self.ok = len(self.bytes) == length * HS
        except Misaligned:
            pass
        self.ev = list(r.ev)
        if os.path.exists(self.path):
            os.remove(self.path)


def restart_case(ctx, traces, world, ckpts, stored, k, family, hurts, then=None):
    """hurts: list of ('cut', nbytes) / ('damage', height, offset, xor); then: optional callback(real) after the restart"""
    path = os.path.join(ctx.mkdir('c'), f'case-{k}')
    with open(path, 'wb') as f:
        f.write(stored.bytes)
    r = Real(world, path, ckpts)
    r.ev = list(stored.ev)
    with Case(ctx, traces, r, family, ckpts, (stored.length % STRIDE, json_key(hurts))):
        for hrt in hurts:
            if hrt[0] == 'cut':
                r.cut(hrt[1])
            else:
                r.damage(*hrt[1:])
        r.open()
        if then:
            then(r)
    if os.path.exists(path):
        os.remove(path)
    return r.ev


def still_valid(world, raws, h):
    return world.verdict(raws[h], raws[h - 1], raws[h - 2]) == (True, True, True)


def pick_damage(world, stored_raws, h, field, rng):
    """a byte of `field` of header h and a mask such that the overwritten header no longer validates where it stands
    (an overwritten header that still satisfies every rule is a valid header, not damage -- 1 in 256 at the driver's target)"""
    name, a, b = next(f for f in FIELDS if f[0] == field)
    for _ in range(50):
        off, xor = rng.randrange(a, b), rng.choice([1, 2, 4, 8, 16, 32, 64, 128, 255, rng.randrange(1, 256)])
        raw = bytearray(stored_raws[h])
        raw[off] ^= xor
        if judge(bytes(raw), stored_raws[h - 1], stored_raws[h - 2], world.genesis_hash) != (True, True, True):
            return off, xor
    raise MachineryError('no damaging mask found')


def classify(tr, inv, k):
    """specific key for a violated clause: the failing input class (k: index of the violating event)"""
    fam = tr.get('family', '')
    ev = tr['ev'][:(k if k is not None else len(tr['ev'])) + 1]
    last = ev[-1] if ev else {}
    if fam == 'pow-gap':
        return 'pow-accepted-above-the-target-of-its-bits'
    if inv == 'TChainValid' and (fam.startswith('stale-tail') or
                                 (last.get('event') == 'Connect' and [h for h in last['obs']['bad'] if h < last['start']])):
        return 'connect-extends-stale-tail-after-shorter-fork'
    since = max([i for i, e in enumerate(ev) if e['event'] == 'Close'] or [0])
    dmg = [e for e in ev[since:] if e['event'] == 'Damage']
    if dmg and last.get('event') == 'Open' and inv in ('TLoadedIsPrefix', 'TChainValid', 'TDropsAtMost'):
        n, d = last['fb']['len'], dmg[-1]
        start = (max(tr['cks']) + 1000) if tr['cks'] else 999
        if (n - 1 - start) % STRIDE == 0 and (d['height'] == n - 2 or (d['height'] == n - 1 and d['field'] == 'prev')):
            return 'repair-stride-skips-final-link'
        if d['height'] == n - 1 and d['field'] != 'prev':
            return 'repair-misses-damaged-final-header'
    return f'clause-{inv}:{fam}'


def restart_sweep(ctx, world, ckpts, traces, predicted):
    """chains of START+k headers for every residue of the repair stride x cut classes x damage position classes x fields"""
    rng = ctx.rng
    ks = list(range(1, 2 * STRIDE + 9)) if ctx.thorough else sorted(set(list(range(1, STRIDE + 4)) + [2 * STRIDE, 2 * STRIDE + 1, 2 * STRIDE + 2]))
    # the histories predicted by the model for the code as found, scaled: stride 3 -> 36, start 4 -> 1000, same distance to the tip
    wanted = []
    for fam in ('repair-stride-skips-final-link', 'repair-misses-damaged-final-header'):
        acts = predicted.get(fam, {}).get('acts') or []
        dm = [a for a in acts if a[0] == 'Damage']
        ln = max([a[1] + a[2][2] for a in acts if a[0] == 'Connect' and a[3] == 0] or [0])      # stored length
        if dm and ln > 4 and 4 <= dm[0][1] < ln:
            length = START + 12 * (ln - 1 - 4) + 1
            wanted.append((fam, length, length - 1 - (ln - 1 - dm[0][1]), dm[0][2]))
    ks = sorted(set(ks) | {w[1] - START for w in wanted})
    n = 0
    fields = [f[0] for f in FIELDS]
    for k in ks:
        length = START + k
        st = Stored(ctx, world, ckpts, length, k)
        if not st.ok:                          # the real object did not store the canonical chain: the judge sees why
            traces.append({'cks': sorted(ckpts), 'ev': st.ev, 'family': 'store-canonical-chain', 'world': world.seed})
            ctx.count(('store-canonical-chain', k), nontrivial=True)
            continue
        raws = world.main[:length]
        tip = length - 1
        cases = []
        # damage: position classes relative to the tip, to the repair start and to a stride boundary
        poss = [tip, tip - 1, tip - 2, START, START + 1, START + STRIDE - 1, START + STRIDE, START + STRIDE + 1, rng.randrange(START, length)]
        poss = [p for i, p in enumerate(poss) if START <= p <= tip and p not in poss[:i]]
        for j, p in enumerate(poss):
            for fld in (fields if ctx.thorough or p >= tip - 1 else [fields[(k + j) % 7], 'prev']):
                off, xor = pick_damage(world, raws, p, fld, rng)
                cases.append((f'damage-{"tip" if p == tip else "tip-1" if p == tip - 1 else "tip-2" if p == tip - 2 else "start" if p == START else "mid"}-{fld}',
                              [('damage', p, off, xor)]))
        for fam, ln, pos, fld in wanted:
            if ln == length:
                off, xor = pick_damage(world, raws, pos, 'merkle' if fld == 'other' else fld, rng)
                cases.append((f'model-counterexample:{fam}', [('damage', pos, off, xor)]))
        # cuts: header boundary / inside a header, near the tip, at the checkpoint boundary, inside the checkpointed chunk, nothing left
        cutn = [tip, tip - 1, START + 1, START, START - 1, rng.randrange(1, START), 1, 0]
        cutn = [c for i, c in enumerate(cutn) if 0 <= c < length and c not in cutn[:i]]
        for j, c in enumerate(cutn if ctx.thorough else [cutn[k % len(cutn)], cutn[(k + 3) % len(cutn)]]):
            inside = [0, 1, rng.randrange(2, 111), 111] if ctx.thorough else [[0, 1, 111, rng.randrange(2, 111)][(k + j) % 4], rng.choice([4, 36, 100])]
            for ins in inside:
                cases.append((f'cut-{"boundary" if ins == 0 else "inside"}-{"below-checkpoint" if c < START else "above"}', [('cut', c * HS + ins)]))
        # cut and damage together
        if length >= START + 4:
            c = max(START + 2, tip - rng.randrange(0, 5))
            p = rng.randrange(START, c)
            off, xor = pick_damage(world, raws, p, rng.choice(fields), rng)
            cases.append(('cut-and-damage', [('damage', p, off, xor), ('cut', c * HS + rng.choice([0, 0, 50]))]))
        for fam, hurts in cases:
            ev = restart_case(ctx, traces, world, ckpts, st, f'{k}-{n}', fam, hurts,
                              then=(lambda r: second_life(r, world, rng)) if n % 5 == 0 else None)
            n += 1
            if n in (1, 40):
                ctx.sample({'restart_case': fam, 'stored_headers': length, 'hurts': hurts, 'loaded': ev[-1].get('obs', {}).get('len')})
    ctx.leg('C', restart_cases=n, stored_lengths=[START + ks[0], START + ks[-1]], model_counterexamples_scaled=[list(w) for w in wanted])


def second_life(r, world, rng):
    """after a repaired start: the server delivers the headers again, close, start once more (the file is not shortened by close)"""
    n = r.ev[-1]['obs']['len']
    if n < START:
        return
    more = world.main[n:n + rng.choice([1, 3, 40])]
    if more:
        r.connect(n, more)
    r.close()
    r.open()


def stale_tail_cases(ctx, world, ckpts, traces):
    """a shorter branch connected at a lower height, then a header that extends the replaced branch's tip; restart afterwards"""
    n = 0
    base = [(1040, 1020, 10), (1037, 1030, 1), (1073, 1036, 30), (1010, 1001, 3)] if ctx.thorough else [(1040, 1020, 10), (1037, 1035, 1)]
    # the branch's last header k below the old tip, for every small k (k = 0 replaces the tip itself) and a few branch lengths
    sweep = [(length, length - 1 - k - (blen - 1), blen) for length in ((1036, 1049) if ctx.thorough else (1038,))
             for k in (0, 1, 2, 3, 5) for blen in ((1, 2, 8) if ctx.thorough else (1, 4))]
    for length, at, blen in base + sweep:
        br = world.branch(at, blen + 3, b'stale%d-' % at, lambda h, rng: 155)
        with Case(ctx, traces, Real(world, os.path.join(ctx.mkdir('c'), f'stale-{n}'), ckpts), 'stale-tail', ckpts, (length, at, blen)) as r:
            r.open()
            r.expect(r.connect(0, world.main[:length])['ret'] == length, 'canonical chain not stored')
            e = r.connect(at, br[:blen], note='shorter branch')
            r.expect(e['ret'] == blen, 'branch not stored')
            # a header on top of the replaced branch's tip: extends nothing that is (or should be) there any more
            if e['obs']['len'] >= length:
                r.connect(length, world.main[length:length + 2], note='extends the replaced tip')
            else:
                r.connect(e['obs']['len'], br[blen:blen + 2], note='extends the branch')
            r.close()
            r.open()
        n += 1
    ctx.leg('C', stale_tail_cases=n)


def fetch_cases(ctx, world, ckpts, traces):
    """checkpointed chunks are taken from the server only if they hash to the table"""
    good = b''.join(world.main[:1000])
    other = world.branch(990, 10, b'ck-', lambda h, rng: 160)
    bads = {'one-bit': good[:500 * HS + 40] + bytes([good[500 * HS + 40] ^ 1]) + good[500 * HS + 41:],
            'short': good[:-HS], 'other-branch': good[:990 * HS] + b''.join(other), 'zeros': bytes(1000 * HS), 'empty': b'',
            # the genuine thousand headers followed by more (a server may answer with up to 2016): the REPLY does not hash to the
            # checkpoint, and what follows the thousand has no claim to be stored unchecked
            'trailing-foreign': good + b''.join(other), 'trailing-zeros': good + bytes(3 * HS)}
    n = 0
    for name, chunk in bads.items():
        for via in (False, True):
            with Case(ctx, traces, Real(world, os.path.join(ctx.mkdir('c'), f'fetch-{n}'), ckpts), f'fetch-{name}', ckpts, via) as r:
                r.open()
                r.fetch(500, chunk, via_ensure=via)                       # refused
                r.fetch(1000, b''.join(world.main[1000:1040]) + bytes(960 * HS), via_ensure=via)     # start not in the table: never stored
                r.fetch(0, good, via_ensure=via)                          # accepted
                r.expect(len(r.raws()) >= 1000, 'nothing to connect to')
                r.connect(1000, world.main[1000:1005])
                r.fetch(999, chunk, via_ensure=False)                     # refused again, nothing is overwritten
                r.close()
                r.cut(min(rngcut(ctx.rng), os.path.getsize(r.path)))
                r.open()
            n += 1
    ctx.leg('C', fetch_cases=n)


def rngcut(rng):
    return rng.choice([0, 1, 500 * HS, 999 * HS + 7, 1000 * HS, 1002 * HS + 111])


def gap_case(ctx, traces):
    """proof of work between the target of the bits and the unrounded retarget result"""
    w = World(-1)
    w.main = GAP[:2]
    for h, raw in enumerate(w.main):
        w.ids[raw] = h + 1
        w.raws[h + 1] = raw
    v = judge(GAP[2], GAP[1], GAP[0], w.genesis_hash)
    if v != (True, True, False) or not from_compact(tb(GAP[2])[1]) < pow_int(GAP[2]) <= MAXT:
        raise MachineryError(f'the embedded gap header is not what it should be: {v}')
    w.selfcheck()
    for k, deliveries in enumerate(([GAP], [GAP[:2], GAP[2:]], [GAP[:1], GAP[1:]])):
        with Case(ctx, traces, Real(w, os.path.join(ctx.mkdir('c'), f'gap-{k}'), {}), 'pow-gap', {}, k) as r:
            r.open()
            at = 0
            for d in deliveries:
                r.connect(at, d)
                at = r.ev[-1]['obs']['len']
    ctx.leg('C', pow_gap_cases=3)


def two_checkpoint_cases(ctx, traces):
    """two checkpointed chunks filled in the ledger's order (highest first), headers connected above them while the lower chunk
    is still a placeholder; cuts inside either chunk (open() appends placeholders) and damage above"""
    w = World(ctx.seed + 2)
    w.grow_main(2060)
    w.selfcheck()
    m = w.main
    ck = {0: dsha(b''.join(m[:1000]))[::-1].hex(), 1000: dsha(b''.join(m[1000:2000]))[::-1].hex()}
    rng = ctx.rng
    hurts = [[('cut', 500 * HS + 3)], [('cut', 1000 * HS)], [('cut', 1000 * HS + 111)], [('cut', 1500 * HS)], [('cut', 1999 * HS + 50)],
             [('cut', 2000 * HS)], [('cut', 2010 * HS + 1)], [('cut', 0)], [('cut', 40)]]
    for pos in (2039, 2038, 2037, 2000, 2001, 2036):
        for fld in ('prev', 'nonce', 'bits', 'timestamp'):
            hurts.append([('damage', pos) + pick_damage(w, m[:2040], pos, fld, rng)])
    n = 0
    for k, hs in enumerate(hurts):
        with Case(ctx, traces, Real(w, os.path.join(ctx.mkdir('c'), f'two-{k}'), ck), 'two-checkpoints', ck, k) as r:
            r.open()
            if k % 2:
                r.expect(r.connect(0, m[:2040])['ret'] == 2040, 'not stored')      # from genesis over the placeholders
            else:
                r.fetch(1999, b''.join(m[1000:2000]), via_ensure=True)
                r.expect(len(r.raws()) >= 2000, 'nothing to connect to')
                r.expect(r.connect(2000, m[2000:2040])['ret'] == 40, 'not stored')  # chunk 0 is still a placeholder
                if k % 4 == 0:
                    r.fetch(0, b''.join(m[:1000]), via_ensure=True)
            r.close()
            for h in hs:
                if h[0] == 'cut':
                    r.cut(min(h[1], os.path.getsize(r.path)))
                else:
                    r.expect(os.path.getsize(r.path) >= (h[1] + 1) * HS, 'nothing to damage')
                    r.damage(*h[1:])
            r.open()
            if k % 3 == 0:
                for c in reversed(r.ev[-1]['missing']):
                    r.fetch(c, b''.join(m[c:c + 1000]), via_ensure=True)
                n0 = r.ev[-1]['obs']['len']
                r.connect(n0, m[n0:n0 + 3])
        n += 1
    ctx.leg('C', two_checkpoint_cases=n)


def alter(raw, field, rng):
    """one field of a header changed, nothing re-mined"""
    name, a, b = next(f for f in FIELDS if f[0] == field)
    out = bytearray(raw)
    off = rng.randrange(a, b)
    out[off] ^= rng.choice([1, 2, 16, 128, 255])
    return bytes(out)


def random_history(ctx, k, rng, traces):
    """short chains with varied block spacing (both retarget clamps), several branches, batches with one header altered in any
    field or mined to break exactly one rule (successors either the originals or mined on top of it), split deliveries,
    close / cut at any byte / open; no checkpoint table"""
    w = World(ctx.seed * 1000 + k, varied_spacing)
    total = rng.choice([8, 14, 22])
    w.grow_main(total)
    r = Real(w, os.path.join(ctx.mkdir('c'), f'rand-{k}'), {})
    kinds = []
    with Case(ctx, traces, r, 'random-history', {}, k):
        r.open()
        _random_steps(ctx, k, rng, w, r, kinds, total)
    return kinds


def _random_steps(ctx, k, rng, w, r, kinds, total):
    chain = list(w.main)         # the chain the "server" currently follows
    for _ in range(rng.choice([6, 10, 14])):
        n = r.ev[-1]['obs']['len'] if r.h is not None and 'obs' in r.ev[-1] else None
        if r.h is None:
            r.open()
            kinds.append('open')
            continue
        n = len(r.raws())
        x = rng.random()
        if x < 0.40 and n < len(chain):                                   # valid extension, possibly split over calls
            m = rng.randrange(1, len(chain) - n + 1)
            parts = rng.choice([1, 1, 2, 3])
            at = n
            for i in range(parts):
                seg = chain[at:n + m] if i == parts - 1 else chain[at:at + max(1, m // parts)]
                if seg:
                    if r.connect(at, seg)['ret'] != len(seg):
                        break                                             # not taken (the store is not on this chain): judged by TLC
                    at += len(seg)
            kinds.append('extend')
        elif x < 0.65 and n >= 1:                                         # one header breaks a rule
            at = rng.randrange(max(0, n - 3), n + 1) if rng.random() < 0.3 else n
            base = (chain[at:at + rng.randrange(1, 5)] if at < len(chain) else []) or None
            store = r.raws()
            pos = rng.randrange(0, len(base)) if base else 0
            pred = (base[pos - 1] if pos else (store[at - 1] if at else None)) if base else (store[at - 1] if at else None)
            predpred = (base[pos - 2] if pos > 1 else (store[at + pos - 2] if at + pos >= 2 else None)) if base else (store[at - 2] if at >= 2 else None)
            if base is None:
                base = [mine(pred, predpred, tb(pred)[0] + 150, b'x%d' % k)]
            how = rng.choice(['alter'] * 7 + ['prev', 'bits-easier', 'bits-harder', 'pow'])
            if how == 'alter':
                fld = rng.choice(FIELDS)[0]
                bad = alter(base[pos], fld, rng)
                how = 'alter-' + fld
                if at + pos > 0 and w.verdict(bad, pred, predpred) == (True, True, True):
                    continue                                              # the altered header happens to be a valid header
            elif at + pos == 0:
                continue
            else:
                bad = mine(pred, predpred, tb(base[pos])[0], b'bad%d-%d' % (k, len(r.ev)), how)
            batch = base[:pos] + [bad]
            rest = len(base) - pos - 1
            if rest and rng.random() < 0.5:                               # successors mined on top of the flawed header
                pp, p = pred, bad
                for i in range(rest):
                    nxt = mine(p, pp, tb(p)[0] + 150, b'on%d-%d-%d' % (k, len(r.ev), i))
                    batch.append(nxt)
                    pp, p = p, nxt
            else:
                batch += base[pos + 1:]
            r.connect(at, batch, note=how)
            kinds.append(how)
        elif x < 0.80 and n >= 3:                                         # another branch, attached lower, longer or shorter
            at = rng.randrange(1, n)
            br = w.branch(at, rng.randrange(1, 6), b'r%d-%d-' % (k, len(r.ev)), varied_spacing) if chain[:at] == w.main[:at] else None
            if br is None:
                continue
            if rng.random() < 0.3:
                r.connect(at + 1, br[1:] or br)                            # does not attach where it is offered
            r.connect(at, br, note='branch')
            chain = chain[:at] + br
            more = list(chain)
            w2 = World(0, varied_spacing)
            w2.rng = rng
            w2.extend(more, len(more) + rng.randrange(0, 4), b'm%d-%d-' % (k, len(r.ev)), varied_spacing)
            chain = more
            kinds.append('branch')
        elif x < 0.90:
            r.close()
            if rng.random() < 0.6:
                size = os.path.getsize(r.path)
                r.cut(rng.choice([rng.randrange(0, size + 1), (size // HS - 1) * HS, size - 1, size - HS + 1]) if size else 0)
            r.open()
            kinds.append('restart')
        else:                                                             # the same headers delivered again, from lower down
            at = rng.randrange(0, n) if n else 0
            seg = r.raws()[at:at + rng.randrange(1, 6)]
            if seg:
                r.connect(at, seg, note='again')
                kinds.append('again')


def negative_controls(ctx, traces):
    """doctored copies of accepted real traces: each must be rejected by the named clause (the trace specification can see it)"""
    import copy
    out = []

    def find(pred):
        for tr in traces:
            for i, e in enumerate(tr['ev']):
                if pred(tr, i, e):
                    return copy.deepcopy(tr), i
        raise MachineryError('no real trace suitable for a negative control')
    # a damaged header survives the restart
    tr, i = find(lambda t, i, e: e['event'] == 'Open' and i > 3 and t['ev'][i - 1]['event'] == 'Damage' and e['obs']['len'] > START
                 and e['fb']['tail'])
    o, fb = tr['ev'][i]['obs'], tr['ev'][i]['fb']
    o.update(len=fb['len'], base=fb['base'], tail=list(fb['tail']))          # the file as it was found, damaged header included
    tr['ev'] = tr['ev'][:i + 1]
    out.append((tr, 'TLoadedIsPrefix'))
    # too much is dropped
    tr, i = find(lambda t, i, e: e['event'] == 'Open' and i > 3 and t['ev'][i - 1]['event'] == 'Damage' and e['obs']['len'] > START + 3 and not e['obs']['tail'])
    o = tr['ev'][i]['obs']
    o['len'] -= 2
    o['base'] = min(o['base'], o['len'])
    tr['ev'] = tr['ev'][:i + 1]
    out.append((tr, 'TDropsAtMost'))
    # a batch with an invalid header is reported as stored
    tr, i = find(lambda t, i, e: e['event'] == 'Connect' and e['fi'] > 0 and e['ret'] == 0)
    e = tr['ev'][i]
    e['ret'] = e['fi']
    tr['ev'] = tr['ev'][:i + 1]
    out.append((tr, 'TNothingBeyondFirstInvalid'))
    # a valid batch is not stored whole
    tr, i = find(lambda t, i, e: e['event'] == 'Connect' and e['fi'] == 0 and e['ret'] > 1 and e['start'] + e['ret'] == e['obs']['len'])
    e = tr['ev'][i]
    e['ret'] -= 1
    o = e['obs']
    o['len'] -= 1
    o['base'] = min(o['base'], o['len'])
    o['tail'] = o['tail'][:o['len'] - o['base']]
    o['bad'] = [h for h in o['bad'] if h < o['len']]
    tr['ev'] = tr['ev'][:i + 1]
    out.append((tr, 'TWholeIfValid'))
    # the return value does not describe what is stored
    tr, i = find(lambda t, i, e: e['event'] == 'Connect' and e['fi'] == 0 and e['ret'] > 1 and e['start'] + e['ret'] == e['obs']['len'])
    o = tr['ev'][i]['obs']
    o['base'] = min(o['base'], o['len'] - 1)
    o['tail'] = ([7_777_778] + o['tail'][1:]) if o['tail'] else [7_777_778]
    tr['ev'] = tr['ev'][:i + 1]
    out.append((tr, 'TStoredExactly'))
    # a header below the end of the last connected batch fails a rule
    tr, i = find(lambda t, i, e: e['event'] == 'Connect' and e['fi'] == 0 and e['ret'] > 2)
    e = tr['ev'][i]
    e['obs']['bad'] = sorted(set(e['obs']['bad']) | {e['start'] + 1})
    tr['ev'] = tr['ev'][:i + 1]
    out.append((tr, 'TChainValid'))
    # a chunk that does not hash to the checkpoint is stored
    tr, i = find(lambda t, i, e: e['event'] == 'Fetch' and not e['hashok'] and e['c'] == 0 and i >= 1 and 'obs' in t['ev'][i - 1])
    o = tr['ev'][i]['obs']
    o['base'] = 0
    o['tail'] = [7_777_779] * o['len']
    tr['ev'] = tr['ev'][:i + 1]
    out.append((tr, 'TCheckpointOnlyIfHashMatches'))
    # placeholders that are not flagged as missing / a chunk not flagged that is not the checkpointed one
    tr, i = find(lambda t, i, e: e['event'] == 'Open' and e['missing'] == [0] and e['obs']['len'] > e['fb']['len'])
    tr['ev'][i]['missing'] = []
    tr['ev'] = tr['ev'][:i + 1]
    out.append((tr, 'TUnflaggedChunksAreCheckpointed|TPlaceholdersFlagged'))
    return out


TINVS = ['TWholeIfValid', 'TNothingBeyondFirstInvalid', 'TStoredExactly', 'TCheckpointOnlyIfHashMatches',
         'TUnflaggedChunksAreCheckpointed', 'TLoadedIsPrefix', 'TDropsAtMost', 'TPlaceholdersFlagged', 'TChainValid']


def slim(tr):
    """what TLC needs of a trace (notes and byte counts stay in the replay file)"""
    keep = ('event', 'fb', 'obs', 'missing', 'start', 'bn', 'bcanon', 'brest', 'fi', 'ret', 'fobs', 'c', 'hashok')
    return {'cks': tr['cks'], 'ev': [{k: v for k, v in e.items() if k in keep} for e in tr['ev']]}


def history(tr, upto=None):
    out = []
    for e in tr['ev'][:upto]:
        d = {k: v for k, v in e.items() if k not in ('obs', 'fb', 'fobs', 'brest')}
        for k in ('obs', 'fobs', 'fb'):
            if k in e:
                d[k + '_len'] = e[k]['len']
                if e[k].get('bad'):
                    d[k + '_bad'] = e[k]['bad'][:8]
        out.append(d)
    return out


def validate(ctx, traces, label):
    cfg = tlc.make_cfg(spec='TSpec', invariants=TINVS, constraint='Reached', postcondition='Report')
    return tlc.validate_traces('HeadersTrace', cfg, [slim(t) for t in traces], ctx, label=label, chunk=400, timeout=1800)


def leg_c(ctx, traces, predicted):
    ckpts_world = World(ctx.seed + 1)
    ckpts_world.grow_main(START + (2 * STRIDE + 9 if ctx.thorough else 2 * STRIDE + 3) + 60)
    ckpts_world.selfcheck()
    ckpts = {0: dsha(b''.join(ckpts_world.main[:1000]))[::-1].hex()}
    try:
        gap_case(ctx, traces)
        fetch_cases(ctx, ckpts_world, ckpts, traces)
        stale_tail_cases(ctx, ckpts_world, ckpts, traces)
        restart_sweep(ctx, ckpts_world, ckpts, traces, predicted)
        if ctx.thorough:
            two_checkpoint_cases(ctx, traces)
        nrand = 600 if ctx.thorough else 90
        seen = {}
        for k in range(nrand):
            for x in random_history(ctx, k, ctx.rng, traces):
                seen[x] = seen.get(x, 0) + 1
        ctx.leg('C', random_histories=nrand, random_history_steps=seen)
    except ProductRaised as e:
        ctx.violation(f'{e.where}-raises-{type(e.exc).__name__}', str(e), None)
        return
    # the judge
    verdicts = validate(ctx, traces, 'HeadersTrace')
    for v in verdicts:
        tr = traces[v['tid']]
        if v['invariant']:
            k = v.get('inv_event')
            ctx.violation(classify(tr, v['invariant'], k),
                          f"clause {v['invariant']} violated on the real Headers ({tr['family']}, event {k}): "
                          f"{history(tr, (k or 0) + 1)[-3:]}", {'family': tr['family'], 'world_seed': tr['world'], 'history': history(tr, (k or 0) + 1)})
        elif not v['accepted']:
            raise MachineryError(f'trace {v["tid"]} ({tr["family"]}) not consumed at {v["matched"]} (format)')
    ctx.cov['traces_validated_against_impl'] += len(traces)
    # the judge can see each kind of violation
    if not ctx.violations:
        neg = negative_controls(ctx, traces)
        nv = validate(ctx, [t for t, _ in neg], 'HeadersTrace-negative-controls')
        for (t, want), v in zip(neg, nv):
            if v['invariant'] not in want.split('|'):
                raise MachineryError(f'negative control for {want} was not rejected by it (got {v["invariant"]}, accepted={v["accepted"]})')
        ctx.leg('C', negative_controls_rejected=[w for _, w in neg])
    ev = [e for t in traces for e in t['ev']]
    ctx.leg('C', traces=len(traces), restarts=sum(1 for e in ev if e['event'] == 'Open'),
            connects=sum(1 for e in ev if e['event'] == 'Connect'),
            connects_rejected=sum(1 for e in ev if e['event'] == 'Connect' and e['fi'] > 0),
            restarts_that_dropped_headers=sum(1 for e in ev if e['event'] == 'Open' and e['obs']['len'] < e['fb']['len']))


def run(ctx):
    crosscheck_mainnet()
    traces = []
    predicted = leg_a(ctx)
    if ctx.violations:
        return
    leg_b(ctx, traces)
    leg_c(ctx, traces, predicted)
    ctx.cov['rule'] = ('Leg A: all states of Headers.tla in the stated constants (transcription with the repairs), reachability witnesses, '
                       'and one counterexample per repair switched off. Leg B: TLC -simulate behaviours with the real constants replayed one '
                       'to one on the real Headers. Leg C: real Headers over real files: stored chains of 1000+k headers for every residue k of '
                       'the repair stride x cut classes x damage position classes x the seven header fields, second restarts, stale-tail '
                       'histories, checkpointed chunk fetches, the embedded rounding-gap header, seeded random histories. Every trace is judged '
                       'by TLC (HeadersTrace.tla). Distinct = distinct histories; non-trivial = contains a restart after harm, a rejected or a '
                       'stored batch.')
    ctx.assumptions += [
        'the driver\'s implementation of the LBRY consensus rules (retarget from the two previous headers with clamps 132/225, 256-bit wrap, '
        'compact rounding, PoW hash) is the truth; it accepts the 20 main-net headers embedded in tests/unit/wallet/test_headers.py',
        'damage = an overwrite after which the header no longer satisfies every rule where it stands (an overwritten header that still '
        'validates, 1 in 256 at the driver\'s easy target, is re-drawn)',
        'a crash leaves a prefix of the header file (the file is written only by close()); damage is applied above the last checkpointed chunk',
        'restart clause judged with a checkpoint table configured (as on main net); with an empty table open() repairs from height 999 only',
        'easy max_target 2^248-1 and the driver\'s own genesis, set through instance attributes as the ledger subclasses do',
    ]
