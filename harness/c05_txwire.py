"""C05 -- transaction wire format and txid. specs/TxWire.tla defines the Bitcoin/LBRY encoding as a layout function
(concrete bytes + opaque blobs), checks Parse(Ser(tx)) = tx and the txid-preimage laws on every enumerated shape, and
emits every case with its expected layout. Every TLC state is one case for the real code (DESIGN C05):

  * the transaction is built through the public constructors (Output.pay_*, Input.spend, Input/TXORef, Claim, Support,
    Purchase) with seeded random bytes for the blobs; `tx.raw` must equal the rendered layout, `tx.id` the reversed
    double SHA-256 (hashlib) of the rendered txid preimage;
  * the rendered layout (legacy and segwit) is parsed by `Transaction(raw)` and compared field by field with the
    specification's parse; the parsed object re-serialises to the identical bytes;
  * BCDataStream compact-size / fixed-width primitives are compared at every boundary, as limb values up to 2^64-1;
  * shapes the driver hands to TLC through GIVEN_FILE: seeded random shapes, and the shapes of the real main-net
    transactions embedded in tests/unit/wallet/test_transaction.py as parsed by the real code (the layout TLC computes
    for that shape, rendered with the parsed scripts, must be the original bytes; ids recorded upstream must match)."""
import ast
import hashlib
import json
import os
import re
import string
from concurrent.futures import ThreadPoolExecutor

from . import tlc
from .common import REPO, Hang, MachineryError, watchdog

INVS = ['RoundTrip', 'SansWitness', 'Sizes', 'PrimRound']
FAMILIES = ['prim', 'values', 'counts', 'scriptlen', 'witness', 'given']
TESTFILE = 'tests/unit/wallet/test_transaction.py'
NULL32 = b'\x00' * 32
LETTERS = string.ascii_letters + string.digits


def sha256d(b):
    return hashlib.sha256(hashlib.sha256(b).digest()).digest()


def limbs(n, k):
    return [(n >> (16 * i)) & 0xFFFF for i in range(k)]


def unlimbs(v):
    return sum(x << (16 * i) for i, x in enumerate(v))


def render(layout, blobs):
    out = bytearray()
    for it in layout:
        if len(it) == 1:
            out.append(it[0])
        else:
            b = blobs[it[0]]
            if len(b) != it[1]:
                raise MachineryError(f'blob {it[0]} has {len(b)} bytes, layout says {it[1]}')
            out += b
    return bytes(out)


# ---------------------------------------------------------------- payloads of an exact serialised size

def _sized(factory, setters, size, rng):
    """a Signable (Claim / Support) whose to_bytes() has exactly `size` bytes; text fields carry the bulk.
    Sizes 2 and 3 cannot be produced by these messages (callers avoid them)."""
    if size == 1:
        return factory()
    for extra in (0, 1, 2, 3):
        n = max(1, size - 8 - extra)
        for _ in range(12):
            obj = factory()
            setters[0](obj, ''.join(rng.choices(LETTERS, k=n)))
            if extra:
                setters[1](obj, ''.join(rng.choices(LETTERS, k=extra)))
            got = len(obj.to_bytes())
            if got == size:
                return obj
            n += size - got
            if n < 1:
                break
    raise MachineryError(f'cannot build a payload of exactly {size} bytes')


class Lib:
    """everything imported from the repository under test"""

    def __init__(self):
        import lbry.wallet  # noqa: F401  (must precede lbry.conf)
        from lbry.wallet.transaction import Transaction, Input, Output, TXORef
        from lbry.wallet.hash import TXRefImmutable
        from lbry.wallet.script import InputScript, OutputScript
        from lbry.wallet.bcd_data_stream import BCDataStream
        from lbry.schema.claim import Claim
        from lbry.schema.support import Support
        from lbry.schema.purchase import Purchase
        self.Transaction, self.Input, self.Output, self.TXORef = Transaction, Input, Output, TXORef
        self.TXRefImmutable, self.InputScript, self.OutputScript = TXRefImmutable, InputScript, OutputScript
        self.BCDataStream, self.Claim, self.Support, self.Purchase = BCDataStream, Claim, Support, Purchase

    def claim(self, size, rng):
        def title(c, t):
            c.message.title = t

        def desc(c, t):
            c.message.description = t
        return _sized(self.Claim, (desc, title), size, rng)

    def support(self, size, rng):
        def comment(s, t):
            s.comment = t

        def emoji(s, t):
            s.emoji = t
        return _sized(self.Support, (comment, emoji), size, rng)


# ---------------------------------------------------------------- building the real transaction of a case

def build(lib, case, rng):
    """-> (Transaction built through the public constructors (never with witness), blobs {id: bytes})"""
    shape, blobs = case['shape'], {}

    def rb(ref, nonzero=False):
        b = rng.randbytes(ref[1])
        if nonzero and not any(b):
            b = b'\x01' * ref[1]
        blobs[ref[0]] = b
        return b

    def name(ref):
        s = ''.join(rng.choices(LETTERS, k=ref[1]))
        blobs[ref[0]] = s.encode()
        return s

    def cid(ref):
        b = rb(ref)
        return b[::-1].hex()        # the constructors take the claim id as text, scripts carry the reversed bytes

    ins = []
    for s, r in zip(shape['ins'], case['ins']):
        pos, seq = unlimbs(s['pos']), unlimbs(s['sq'])
        k = s['k']
        if k == 'spend':
            prev = lib.Output(1000, lib.OutputScript.pay_pubkey_hash(rng.randbytes(20)),
                              tx_ref=lib.TXRefImmutable.from_hash(rb(r['hash'], True), -1), position=pos)
            txi = lib.Input.spend(prev)
            txi.sequence = seq
        elif k == 'p2pkh':
            ref = lib.TXORef(lib.TXRefImmutable.from_hash(rb(r['hash'], True), -1), pos)
            txi = lib.Input(ref, lib.InputScript.redeem_pubkey_hash(rb(r['sig']), rb(r['pub'])), seq)
        elif k == 'coinbase':
            txi = lib.Input(lib.TXORef(lib.TXRefImmutable.from_hash(NULL32, -1), pos), rb(r['script']), seq)
        elif k == 'opaque':
            ref = lib.TXORef(lib.TXRefImmutable.from_hash(rb(r['hash'], True), -1), pos)
            txi = lib.Input(ref, lib.InputScript(source=rb(r['script'])), seq)
        else:
            raise MachineryError(f'unknown input kind {k}')
        ins.append(txi)
    outs = []
    for s, r in zip(shape['outs'], case['outs']):
        amt, k = unlimbs(s['amt']), s['k']
        if k == 'p2pkh':
            txo = lib.Output.pay_pubkey_hash(amt, rb(r['hash']))
        elif k == 'p2sh':
            txo = lib.Output.pay_script_hash(amt, rb(r['hash']))
        elif k == 'claim':
            c = lib.claim(r['claim'][1], rng)
            blobs[r['claim'][0]] = c.to_bytes()
            txo = lib.Output.pay_claim_name_pubkey_hash(amt, name(r['name']), c, rb(r['hash']))
        elif k == 'update':
            c = lib.claim(r['claim'][1], rng)
            blobs[r['claim'][0]] = c.to_bytes()
            txo = lib.Output.pay_update_claim_pubkey_hash(amt, name(r['name']), cid(r['cid']), c, rb(r['hash']))
        elif k == 'support':
            txo = lib.Output.pay_support_pubkey_hash(amt, name(r['name']), cid(r['cid']), rb(r['hash']))
        elif k == 'supportdata':
            sp = lib.support(r['support'][1], rng)
            blobs[r['support'][0]] = sp.to_bytes()
            txo = lib.Output.pay_support_data_pubkey_hash(amt, name(r['name']), cid(r['cid']), sp, rb(r['hash']))
        elif k == 'purchase':
            p = lib.Purchase(rng.randbytes(20).hex())
            blobs[r['data'][0]] = p.to_bytes()
            txo = lib.Output.add_purchase_data(p)
            txo.amount = amt
        elif k == 'opaque':
            txo = lib.Output(amt, lib.OutputScript(source=rb(r['script'])))
        else:
            raise MachineryError(f'unknown output kind {k}')
        outs.append(txo)
    for stack in case['wit']:
        for ref in stack:
            rb(ref)
    # built the way Transaction.create builds: in steps, reading size / id in between (the serialisation and id caches
    # must follow every add_inputs / add_outputs)
    tx = lib.Transaction(version=unlimbs(shape['ver']), locktime=unlimbs(shape['lock']))
    if (len(ins) + len(outs) + len(blobs)) % 2:
        tx.add_inputs(ins[:1])
        _ = tx.size, tx.id
        tx.add_outputs(outs[:1])
        _ = tx.size, tx.id, tx.hash
        tx.add_inputs(ins[1:])
        _ = tx.size
        tx.add_outputs(outs[1:])
    else:
        # the other order: outputs first, ids read (also through an output), inputs LAST - nothing after add_inputs
        tx.add_outputs(outs)
        _ = tx.size, tx.id, tx.hash, (outs[0].id if outs else None)
        tx.add_inputs(ins[:1])
        _ = tx.id, tx.hash
        tx.add_inputs(ins[1:])
    return tx, blobs


OUT_TEMPLATE = {'p2pkh': 'pay_pubkey_hash', 'p2sh': 'pay_script_hash', 'claim': 'claim_name+pay_pubkey_hash',
                'update': 'update_claim+pay_pubkey_hash', 'support': 'support_claim+pay_pubkey_hash',
                'supportdata': 'support_claim+data+pay_pubkey_hash', 'purchase': 'return_data'}
OUT_VALUES = {'p2pkh': {'hash': 'pubkey_hash'}, 'p2sh': {'hash': 'script_hash'},
              'claim': {'name': 'claim_name', 'claim': 'claim', 'hash': 'pubkey_hash'},
              'update': {'name': 'claim_name', 'cid': 'claim_id', 'claim': 'claim', 'hash': 'pubkey_hash'},
              'support': {'name': 'claim_name', 'cid': 'claim_id', 'hash': 'pubkey_hash'},
              'supportdata': {'name': 'claim_name', 'cid': 'claim_id', 'support': 'support', 'hash': 'pubkey_hash'},
              'purchase': {'data': 'data'}}


# ---------------------------------------------------------------- shapes handed to TLC

def rand_len(rng, big_ok):
    r = rng.random()
    if r < 0.45:
        return rng.randint(4, 80)
    if r < 0.60:
        return rng.choice([74, 75, 76, 77, 78])
    if r < 0.75:
        return rng.randint(245, 262)
    if r < 0.80 and big_ok:
        return rng.randint(65525, 65545)
    return rng.randint(81, 700)


def rand_v(rng, k):
    bits = 16 * k
    r = rng.random()
    if r < 0.3:
        return limbs(rng.choice([0, 1, 2 ** (bits - 1) - 1, 2 ** (bits - 1), 2 ** bits - 1, 2 ** 32 - 1 if k == 4 else 255,
                                 2 ** 32 if k == 4 else 256]), k)
    if r < 0.6:
        return limbs(rng.getrandbits(rng.randint(1, bits)), k)
    return limbs(rng.getrandbits(bits), k)


def rand_count(rng):
    r = rng.random()
    if r < 0.70:
        return rng.randint(1, 4)
    if r < 0.92:
        return rng.randint(5, 40)
    return rng.choice([251, 252, 253, 254, 255, 256, 300, rng.randint(41, 300)])


def rand_shape(rng, gid, purchase):
    nin, nout = rand_count(rng), rand_count(rng)
    if nin > 40 and nout > 40 and rng.random() < 0.7:
        nout = rng.randint(1, 4)
    segwit = rng.random() < 0.4
    budget = [2]                       # at most two 64 KiB payloads per transaction

    def ln():
        n = rand_len(rng, budget[0] > 0)
        if n > 60000:
            budget[0] -= 1
        return n
    ins = []
    for _ in range(nin):
        k = rng.choice(['spend', 'p2pkh', 'p2pkh', 'p2pkh', 'opaque'] + (['coinbase'] if nin == 1 else []))
        a, b = (rng.choice([0, 70, 71, 72, 73, ln()]), rng.choice([33, 33, 65, ln()])) if k == 'p2pkh' else (0, rng.choice([0, 1, ln()]))
        ins.append({'k': k, 'pos': rand_v(rng, 2), 'sq': rand_v(rng, 2), 'a': a, 'b': b})
    outs = []
    for _ in range(nout):
        k = rng.choice(['p2pkh', 'p2pkh', 'p2sh', 'claim', 'update', 'support', 'supportdata', 'purchase', 'opaque'])
        a = rng.choice([0, 1, 4, 11, rng.randint(1, 255), ln()]) if k in ('claim', 'update', 'support', 'supportdata') else 0
        b = rng.choice([1, ln()]) if k in ('claim', 'update', 'supportdata') else purchase if k == 'purchase' else \
            rng.choice([0, 1, ln()]) if k == 'opaque' else 0
        outs.append({'k': k, 'amt': rand_v(rng, 4), 'a': a, 'b': b})
    wit = []
    if segwit:
        for _ in range(nin):
            n = rng.choice([0, 0, 1, 2, 2, 3, 4, rng.choice([252, 253, 254]) if nin < 4 else 5])
            wit.append([rng.choice([0, 1, 33, 71, 72, 73, ln()]) if n < 100 else rng.randint(0, 2) for _ in range(n)])
    return {'src': 'rand', 'gid': gid, 'ver': rand_v(rng, 2), 'lock': rand_v(rng, 2), 'segwit': segwit,
            'ins': ins, 'outs': outs, 'wit': wit}


def mainnet_samples():
    """(function name, raw bytes, txid asserted upstream or None) for every unhexlify("...") literal of the upstream
    transaction test module; read as data (ast), never imported."""
    path = os.path.join(REPO, TESTFILE)
    if not os.path.exists(path):
        return []
    tree = ast.parse(open(path).read())
    out = []
    for fn in ast.walk(tree):
        if not isinstance(fn, (ast.FunctionDef, ast.AsyncFunctionDef)):
            continue
        raws, ids = [], []
        for node in ast.walk(fn):
            if not isinstance(node, ast.Call):
                continue
            f = node.func
            fname = f.id if isinstance(f, ast.Name) else f.attr if isinstance(f, ast.Attribute) else ''
            args = node.args
            if fname == 'unhexlify' and args and isinstance(args[0], ast.Constant) and isinstance(args[0].value, (str, bytes)):
                v = args[0].value
                v = v.decode() if isinstance(v, bytes) else v
                if len(v) >= 120 and re.fullmatch(r'[0-9a-fA-F]+', v) and len(v) % 2 == 0:
                    raws.append(bytes.fromhex(v))
            if fname == 'assertEqual' and len(args) >= 2:
                a, b = args[0], args[1]
                if isinstance(a, ast.Attribute) and a.attr == 'id' and isinstance(a.value, ast.Name) and a.value.id == 'tx' \
                        and isinstance(b, ast.Constant) and isinstance(b.value, str) and re.fullmatch(r'[0-9a-f]{64}', b.value):
                    ids.append(b.value)
        for raw in raws:
            out.append((fn.name, raw, ids[0] if len(raws) == 1 and len(ids) == 1 else None))
    return out


def witness_groups(raw, nin, stacks_flat):
    """per-input grouping of a parsed segwit transaction's flat `witnesses` list: the stack counts are not kept by the
    library, so they are read off the raw bytes from the end of the outputs (compact sizes; driver-side walk that the
    specification's layout then has to reproduce byte for byte)."""
    def cs(i):
        t = raw[i]
        if t < 253:
            return t, i + 1
        w = {253: 2, 254: 4, 255: 8}[t]
        return int.from_bytes(raw[i + 1:i + 1 + w], 'little'), i + 1 + w
    i = 6                                           # version, marker, flag
    n, i = cs(i)
    for _ in range(n):
        ln, j = cs(i + 36)
        i = j + ln + 4
    n, i = cs(i)
    for _ in range(n):
        ln, j = cs(i + 8)
        i = j + ln
    groups, k = [], 0
    for _ in range(nin):
        cnt, i = cs(i)
        for _ in range(cnt):
            ln, i = cs(i)
            i += ln
        groups.append(stacks_flat[k:k + cnt])
        k += cnt
    return groups


def mainnet_shape(lib, gid, raw):
    """the shape of a real transaction AS PARSED BY THE CODE UNDER TEST, and the blob bytes by the spec's id scheme"""
    with watchdog(10):
        tx = lib.Transaction(raw)
    ins, outs, blobs = [], [], {}
    for i, txi in enumerate(tx.inputs, 1):
        h = txi.txo_ref.tx_ref.hash
        src = txi.coinbase if txi.is_coinbase else txi.script.source
        ins.append({'k': 'coinbase' if h == NULL32 else 'opaque', 'pos': limbs(txi.txo_ref.position, 2),
                    'sq': limbs(txi.sequence, 2), 'a': 0, 'b': len(src)})
        blobs[16 * i + 1], blobs[16 * i + 2] = h, src
    for i, txo in enumerate(tx.outputs, 1):
        outs.append({'k': 'opaque', 'amt': limbs(txo.amount, 4), 'a': 0, 'b': len(txo.script.source)})
        blobs[100000 + 16 * i + 2] = txo.script.source
    wit = []
    if tx.is_segwit_flag:
        for i, stack in enumerate(witness_groups(raw, len(ins), list(tx.witnesses)), 1):
            wit.append([len(x) for x in stack])
            for j, x in enumerate(stack, 1):
                blobs[200000 + 1000 * i + j] = x
    shape = {'src': 'mainnet', 'gid': gid, 'ver': limbs(tx.version, 2), 'lock': limbs(tx.locktime, 2),
             'segwit': bool(tx.is_segwit_flag), 'ins': ins, 'outs': outs, 'wit': wit}
    return shape, blobs, tx


# ---------------------------------------------------------------- labels / keys

def label(case):
    fam, s = case['fam'], case['shape']
    if fam == 'prim':
        return f"{s['w']}"
    sw = 'segwit' if s['segwit'] else 'legacy'
    if fam == 'counts':
        return f"{len(s['ins'])}in-{len(s['outs'])}out-{sw}"
    if fam == 'scriptlen':
        i, o = s['ins'][0], s['outs'][0]
        return f"in.{i['k']}({i['a']},{i['b']})-out.{o['k']}({o['a']},{o['b']})-{sw}"
    if fam == 'witness':
        return 'stacks' + '/'.join(str(len(w)) for w in s['wit'])
    if fam == 'given':
        return f"{s['src']}-{s['gid']}-{sw}"
    return sw


def summary(case):
    s = case['shape']
    if case['fam'] == 'prim':
        return {'fam': 'prim', 'w': s['w'], 'value': unlimbs(s['v'])}
    return {'fam': case['fam'], 'version': unlimbs(s['ver']), 'locktime': unlimbs(s['lock']), 'segwit': s['segwit'],
            'inputs': len(s['ins']), 'outputs': len(s['outs']),
            'in_kinds': sorted({i['k'] for i in s['ins']}), 'out_kinds': sorted({o['k'] for o in s['outs']}),
            'first_in': s['ins'][0], 'first_out': s['outs'][0], 'witness_stack_sizes': [len(w) for w in s['wit']][:8]}


# ---------------------------------------------------------------- the checks

def _in_product(exc):
    """did the exception pass through a frame of the repository under test?"""
    tb, root = exc.__traceback__, os.path.realpath(REPO) + os.sep
    while tb is not None:
        if os.path.realpath(tb.tb_frame.f_code.co_filename).startswith(root):
            return True
        tb = tb.tb_next
    return False


class Checker:
    def __init__(self, ctx, lib):
        self.ctx, self.lib = ctx, lib
        self.n = {'prim': 0, 'built': 0, 'parsed_legacy': 0, 'parsed_segwit': 0, 'mainnet': 0, 'mainnet_ids': 0}
        self.kinds_in, self.kinds_out = set(), set()

    def bad(self, case, check, what, extra=None):
        rep = {'case': summary(case), 'check': check}
        rep.update(extra or {})
        self.ctx.violation(f"{check}:{case['fam']}:{label(case)}", what, rep)

    def call(self, case, where, fn):
        """run product code under the watchdog; an exception or hang in product code on a valid case is a violation"""
        try:
            with watchdog(20):
                return True, fn()
        except Hang:
            self.bad(case, f'hang-in-{where}', f'{where} did not return within 20 s')
        except MachineryError:
            raise
        except Exception as e:  # pylint: disable=broad-except
            if not _in_product(e):
                raise                   # a bug of this driver: machinery failure, never a violation
            self.bad(case, f'raises-in-{where}', f'{where} raised {type(e).__name__}: {e}')
        return False, None

    # ---- primitives
    def prim(self, case):
        s, expect = case['shape'], bytes(case['bytes'])
        n, w = unlimbs(s['v']), s['w']
        B = self.lib.BCDataStream
        wr = {'cs': B.write_compact_size, 'u16': B.write_uint16, 'u32': B.write_uint32, 'u64': B.write_uint64}[w]
        rd = {'cs': B.read_compact_size, 'u16': B.read_uint16, 'u32': B.read_uint32, 'u64': B.read_uint64}[w]
        self.ctx.count(('prim', w, n), nontrivial=n >= 253)
        self.n['prim'] += 1

        def go():
            st = B()
            wr(st, n)
            st2 = B(expect + b'\xa5')
            return st.get_bytes(), rd(st2), st2.read(2)
        ok, r = self.call(case, f'BCDataStream.{w}', go)
        if not ok:
            return
        got, back, rest = r
        if got != expect:
            self.bad(case, 'primitive-write', f'BCDataStream write {w}({n}) = {got.hex()}, encoding is {expect.hex()}',
                     {'n': n, 'got': got.hex(), 'expect': expect.hex()})
        if back != n or rest != b'\xa5':
            self.bad(case, 'primitive-read', f'BCDataStream read {w} of {expect.hex()} = {back!r} (rest {rest.hex()}), value is {n}',
                     {'n': n, 'bytes': expect.hex(), 'got': back})
        if self.n['prim'] % 90 == 1:
            self.ctx.sample({'primitive': w, 'value': n, 'real_bytes': got.hex(), 'spec_bytes': expect.hex()})

    # ---- field-by-field comparison of a real parse with the specification's parse
    def compare_parsed(self, case, tag, ptx, blobs, segwit_bytes):
        s = case['shape']
        diffs = []

        def chk(field, got, want):
            if got != want:
                g = got.hex() if isinstance(got, (bytes, bytearray)) else got
                w = want.hex() if isinstance(want, (bytes, bytearray)) else want
                diffs.append((field, f'{str(g)[:80]} != {str(w)[:80]}'))
        chk('version', ptx.version, unlimbs(s['ver']))
        chk('locktime', ptx.locktime, unlimbs(s['lock']))
        chk('input-count', len(ptx.inputs), len(s['ins']))
        chk('output-count', len(ptx.outputs), len(s['outs']))
        chk('segwit-flag', bool(ptx.is_segwit_flag), segwit_bytes)
        if not diffs:
            for i, (si, fi, txi) in enumerate(zip(s['ins'], case['fields']['ins'], ptx.inputs)):
                want_hash, want_script = render(fi['hash'], blobs), render(fi['script'], blobs)
                chk('in.hash', txi.txo_ref.tx_ref.hash, want_hash)
                chk('in.position', txi.txo_ref.position, unlimbs(si['pos']))
                chk('in.sequence', txi.sequence, unlimbs(si['sq']))
                chk('in.coinbase', txi.is_coinbase, want_hash == NULL32)
                got_script = txi.coinbase if txi.is_coinbase else txi.script.source
                chk('in.script', got_script, want_script)
                chk('in.index', txi.position, i)
                if si['k'] in ('p2pkh', 'spend') and s.get('src') != 'mainnet' and got_script == want_script and not txi.is_coinbase:
                    r = case['ins'][i]
                    chk('in.script.signature', txi.script.values.get('signature'), blobs[r['sig'][0]] if 'sig' in r else b'\0' * 72)
                    chk('in.script.pubkey', txi.script.values.get('pubkey'), blobs[r['pub'][0]] if 'pub' in r else b'\0' * 33)
            for i, (so, fo, txo) in enumerate(zip(s['outs'], case['fields']['outs'], ptx.outputs)):
                chk('out.amount', txo.amount, unlimbs(so['amt']))
                want_script = render(fo, blobs)
                chk('out.script', txo.script.source, want_script)
                chk('out.index', txo.position, i)
                if so['k'] in OUT_TEMPLATE and s.get('src') != 'mainnet' and txo.script.source == want_script:
                    # (how the script's template is CALLED is not part of this property: the bytes and the parsed values are)
                    for role, vname in OUT_VALUES[so['k']].items():
                        chk(f'out.script.{vname}', txo.script.values.get(vname), blobs[case['outs'][i][role][0]])
            if segwit_bytes:
                chk('witnesses', [bytes(x) for x in ptx.witnesses], [blobs[ref[0]] for st in case['wit'] for ref in st])
        if diffs:
            f0 = diffs[0][0]
            self.bad(case, f'parse-{tag}.{f0}', f'Transaction(raw) differs from the specification\'s parse in {len(diffs)} field(s); '
                     f'first: {f0}: {diffs[0][1]}', {'fields': [d[0] for d in diffs[:12]], 'first': diffs[0][1]})
        return not diffs

    # ---- one transaction case
    def tx(self, case, mainnet=None):
        lib, ctx, s = self.lib, self.ctx, case['shape']
        segwit = s['segwit']
        sig = hashlib.sha1(json.dumps(s, sort_keys=True).encode()).hexdigest()[:16]
        built = None
        if mainnet is None:
            ok, r = self.call(case, 'build', lambda: build(lib, case, ctx.rng))
            if not ok:
                return
            built, blobs = r
        else:
            blobs = mainnet['blobs']
        full = render(case['layout'], blobs)
        sans = render(case['sans'], blobs) if segwit else full
        digest = sha256d(sans)
        txid = digest[::-1].hex()
        self.kinds_in |= {i['k'] for i in s['ins']}
        self.kinds_out |= {o['k'] for o in s['outs']}

        # (i) serialisation of the transaction the library built; its id
        if built is not None:
            ctx.count(('built', sig))
            self.n['built'] += 1
            ok, r = self.call(case, 'serialise', lambda: (built.raw, built.id, built.hash, built.size, built.raw_sans_segwit))
            if ok:
                raw, rid, rhash, size, rsans = r
                if raw != sans:
                    off = next((i for i, (x, y) in enumerate(zip(raw, sans)) if x != y), min(len(raw), len(sans)))
                    self.bad(case, 'raw-differs', f'tx.raw ({len(raw)} bytes) differs from the specified layout ({len(sans)} bytes) '
                             f'at offset {off}: real ..{raw[max(0, off - 4):off + 12].hex()} spec ..{sans[max(0, off - 4):off + 12].hex()}',
                             {'offset': off, 'raw': raw[:4096].hex(), 'spec': sans[:4096].hex()})
                if rid != txid or rhash != digest:
                    self.bad(case, 'txid-built', f'tx.id = {rid}, reversed double SHA-256 of the txid preimage is {txid}',
                             {'id': rid, 'expect': txid, 'preimage': sans[:4096].hex()})
                if size != len(sans) or rsans != sans:
                    self.bad(case, 'size-or-sans-built', f'tx.size = {size}, raw_sans_segwit differs: {rsans != sans}; spec size {len(sans)}')
                if self.n['built'] % 1200 == 1:
                    ctx.sample({'case': summary(case), 'tx.raw == spec layout': raw == sans, 'bytes': len(raw), 'tx.id': rid, 'spec_txid': txid})

        # (ii) parse the specified bytes (segwit form and legacy form) with the real parser
        for tag, data, sw in ([('segwit', full, True)] if segwit else []) + [('legacy', sans, False)]:
            ctx.count((tag, sig))
            self.n['parsed_' + tag] += 1
            ok, ptx = self.call(case, f'parse-{tag}', lambda d=data: lib.Transaction(d))
            if not ok:
                continue
            ok, same = self.call(case, f'compare-{tag}', lambda p=ptx, w=sw: self.compare_parsed(case, tag, p, blobs, w))
            if not ok or not same:
                continue
            ok, r = self.call(case, f'id-{tag}', lambda p=ptx: (p.id, p.hash, p.raw, p.raw_sans_segwit))
            if ok:
                pid, phash, praw, psans = r
                if pid != txid or phash != digest:
                    self.bad(case, f'txid-{tag}', f'Transaction(raw).id = {pid}; reversed double SHA-256 of the serialisation '
                             f'without witness is {txid}', {'id': pid, 'expect': txid, 'raw': data[:4096].hex()})
                if praw != data:
                    self.bad(case, f'raw-after-parse-{tag}', 'Transaction(raw).raw is not the parsed bytes')
                if psans != sans:
                    self.bad(case, f'sans-witness-{tag}', 'Transaction(raw).raw_sans_segwit is not the serialisation without witness',
                             {'got': psans[:4096].hex(), 'expect': sans[:4096].hex()})

            # (iii) re-serialise the parsed fields through a fresh transaction
            def reser(p=ptx):
                t = lib.Transaction(version=p.version, locktime=p.locktime)
                t.add_inputs(list(p.inputs))
                t.add_outputs(list(p.outputs))
                return t.raw, t.id
            ok, r = self.call(case, f'reserialise-{tag}', reser)
            if ok and (r[0] != sans or r[1] != txid):
                off = next((i for i, (x, y) in enumerate(zip(r[0], sans)) if x != y), min(len(r[0]), len(sans)))
                self.bad(case, f'reserialise-{tag}', f'parsed transaction re-serialises to different bytes (offset {off}) or id {r[1]}',
                         {'offset': off, 'got': r[0][:4096].hex(), 'expect': sans[:4096].hex()})

        # (iv) a real transaction: the layout TLC computed for the shape the real parser saw must be the original bytes
        if mainnet is not None:
            self.n['mainnet'] += 1
            if full != mainnet['raw']:
                off = next((i for i, (x, y) in enumerate(zip(full, mainnet['raw'])) if x != y), min(len(full), len(mainnet['raw'])))
                self.bad(case, 'mainnet-layout', f'{mainnet["name"]}: the fields parsed by Transaction(raw), laid out by the specification, '
                         f'are not the original bytes (offset {off})', {'raw': mainnet['raw'].hex(), 'spec': full.hex()})
            if mainnet['id'] is not None:
                self.n['mainnet_ids'] += 1
                if txid != mainnet['id'] or mainnet['tx'].id != mainnet['id']:
                    self.bad(case, 'mainnet-txid', f'{mainnet["name"]}: recorded id {mainnet["id"]}, library {mainnet["tx"].id}, '
                             f'hash of the specified preimage {txid}')
            ctx.sample({'mainnet': mainnet['name'], 'bytes': len(full), 'layout == original': full == mainnet['raw'],
                        'txid': txid, 'recorded_upstream': mainnet['id']}, cap=10)


def run(ctx):
    lib = Lib()
    purchase = len(lib.Purchase('ab' * 20).to_bytes())
    # ---- shapes handed to TLC
    nrand = 12000 if ctx.thorough else 700
    given, mainnet = [], {}
    for g in range(nrand):
        given.append(rand_shape(ctx.rng, g, purchase))
    samples = mainnet_samples()
    if not samples:
        print(f'C05: note: no embedded transactions found in {TESTFILE}', flush=True)
    for k, (name, raw, rid) in enumerate(samples):
        gid = 100000 + k
        try:
            shape, blobs, tx = mainnet_shape(lib, gid, raw)
        except (Exception, Hang) as e:  # pylint: disable=broad-except
            ctx.violation(f'mainnet-parse-raises:{name}', f'Transaction(raw) of the real transaction in {name} raised '
                          f'{type(e).__name__}: {e}', {'raw': raw.hex()})
            continue
        given.append(shape)
        mainnet[gid] = {'name': name, 'raw': raw, 'id': rid, 'blobs': blobs, 'tx': tx}
    # ---- TLC: laws on the model + emission of every case. Emission needs one worker per TLC process, so the case space
    # is split over several concurrent TLC processes (disjoint families / chunks of the given shapes).
    counts = {1, 2, 3, 252, 253, 254, 299, 300} if ctx.thorough else {1, 2, 252, 253, 300}
    consts = {'COUNTS': counts, 'PURCHASE': purchase, 'EMIT': True}
    jobs = [('counts', {'counts'}, None), ('values', {'values'}, None), ('bounds', {'prim', 'scriptlen', 'witness'}, None)]
    gdir, chunk = ctx.mkdir('given'), 250
    for k in range(0, len(given), chunk):
        gfile = os.path.join(gdir, f'given-{k}.json')
        with open(gfile, 'w') as f:
            json.dump(given[k:k + chunk], f)
        jobs.append((f'given-{k}', {'given'}, gfile))

    def model(job):
        name, fams, gfile = job
        cfg = tlc.make_cfg(constants=dict(consts, FAMILIES=fams), invariants=INVS, constraint='Emit')
        res = tlc.run('TxWire', cfg, ctx, workers=1, coverage=False, timeout=3000, label=f'TxWire-{name}',
                      env={'GIVEN_FILE': gfile} if gfile else None)
        cases = [] if res.violated else tlc.printed_json(res, 'CASE')
        res.out, res.printed = res.out[-4000:], []
        return name, fams, res, cases

    chk = Checker(ctx, lib)
    by_fam = {f: 0 for f in FAMILIES}
    ncases = nseg = 0
    with ThreadPoolExecutor(max_workers=8) as ex:
        for name, fams, res, cases in ex.map(model, jobs):
            ctx.add_tlc(res, f'TxWire families {sorted(fams)} [{name}] COUNTS={sorted(counts)}: Leg A invariants {INVS} + emission')
            if res.violated:
                ctx.violation('model:' + ','.join(res.violated), 'specification law violated in the model', res.error_trace[:4000])
                continue
            if len(cases) != res.distinct or not res.ok:
                raise MachineryError(f'{name}: emitted {len(cases)} cases but TLC found {res.distinct} distinct states '
                                     f'(finished={res.finished})')
            # ---- Leg B: every case against the real code
            for c in cases:
                by_fam[c['fam']] += 1
                ncases += 1
                if c['fam'] == 'prim':
                    chk.prim(c)
                    continue
                nseg += c['shape']['segwit']
                if c['shape'].get('src') == 'mainnet':
                    chk.tx(c, mainnet[c['shape']['gid']])
                else:
                    chk.tx(c)
    if any(v['key'].startswith('model:') for v in ctx.violations):
        return
    # vacuity guards for the `IsTx => ...` / `~IsTx => ...` invariants and the segwit branches: every family is inhabited
    if min(by_fam.values()) == 0 or by_fam['given'] != len(given):
        raise MachineryError(f'vacuous enumeration: cases per family {by_fam}, given {len(given)}')
    if nseg == 0 or nseg == ncases - by_fam['prim']:
        raise MachineryError('vacuous enumeration: segwit / legacy cases missing')
    want_in, want_out = {'spend', 'p2pkh', 'coinbase', 'opaque'}, set(OUT_TEMPLATE) | {'opaque'}
    if chk.kinds_in != want_in or chk.kinds_out != want_out:
        raise MachineryError(f'script kinds not all exercised: {chk.kinds_in} {chk.kinds_out}')
    ctx.cov['traces_validated_against_impl'] = ncases
    ctx.cov['exhaustive'] = True
    ctx.cov['rule'] = (
        'every TLC state of TxWire.tla is one case. prim: compact size / uint16/32/64 of limb values 0..3, 250..258, 65533..65538, '
        '2^31+-1, 2^32-1, 2^32, 2^32+1, 2^48, 2^63-1, 2^63, 2^64-1. values: every combination of {0,1,2^31-1,2^31,2^32-1} for '
        'version x locktime x outpoint index x sequence with amounts {0,1,2^32-1,2^32,2^63-1,2^63,2^64-1}. counts: COUNTS x COUNTS '
        'inputs x outputs, legacy and segwit, script kinds cycling by position. scriptlen: for every script kind every payload at '
        'each push-data prefix boundary and every payload length (solved for in TLA+) that puts the script length on 252..254 / '
        '65535..65537. witness: all pairs of 12 stacks (0..300 items, item lengths 0..65536). given: seeded random shapes and the '
        'real transactions of the upstream test module (a sample, not exhaustive; all other families are enumerated completely). '
        'Transactions are built in steps with size/id reads in between. Distinct = distinct TLC states x {built, parsed legacy, parsed segwit}; '
        'non-trivial = all but primitive values below 253.')
    ctx.leg('A', invariants=INVS, cases_per_family=by_fam, segwit_cases=nseg)
    ctx.leg('B', constants={k: sorted(v) if isinstance(v, set) else v for k, v in consts.items()}, random_shapes=nrand,
            tlc_processes=len(jobs),
            mainnet_transactions=chk.n['mainnet'], mainnet_ids_recorded_upstream=chk.n['mainnet_ids'],
            mainnet_segwit=sum(1 for m in mainnet.values() if m['tx'].is_segwit_flag),
            primitive_cases=chk.n['prim'], built_through_constructors=chk.n['built'],
            parsed_legacy=chk.n['parsed_legacy'], parsed_segwit=chk.n['parsed_segwit'],
            input_kinds=sorted(chk.kinds_in), output_kinds=sorted(chk.kinds_out), purchase_bytes=purchase)
    ctx.assumptions += [
        'hashlib SHA-256 is correct (the txid is the driver\'s double SHA-256 of the layout TLC computed for the serialisation without witness)',
        'payload bytes are opaque: script/claim/witness contents are seeded random bytes (claims/supports/purchases are real schema '
        'objects of the exact byte length the case asks for); TLC decides counts, prefixes, field order and widths',
        'the library cannot build segwit transactions; segwit cases are rendered from the specified layout and parsed by Transaction(raw)',
        'claim/support payloads of 2 or 3 bytes do not exist as schema objects and are not enumerated',
    ]
