"""Helpers for constructing real lbry-sdk objects under DetLoop (always imported after PYTHONPATH is set by ./check)."""
import logging
import os

logging.disable(logging.CRITICAL)   # product code logs expected failures loudly; the checks judge state, not logs

import lbry.wallet  # noqa: E402,F401  (must come before lbry.conf: circular import otherwise)
from lbry.conf import Config  # noqa: E402

from .detloop import DetLoop  # noqa: E402


def new_loop():
    return DetLoop()


def make_config(tmp, **kw):
    d = dict(data_dir=tmp, wallet_dir=tmp, download_dir=tmp)
    d.update(kw)
    return Config(**d)


def fake_hash(i, salt=0):
    """96 hex chars, valid as a blob hash name"""
    import hashlib
    return hashlib.sha384(f'{salt}:{i}'.encode()).hexdigest()


class StorageEnv:
    """real SQLiteStorage + BlobManager over a temp dir, driven by a DetLoop (FIFO job completion)"""

    def __init__(self, tmp, loop=None, clock=None, **conf):
        from lbry.extras.daemon.storage import SQLiteStorage
        from lbry.blob.blob_manager import BlobManager
        self.tmp = tmp
        self.loop = loop or DetLoop()
        self.blob_dir = os.path.join(tmp, 'blobfiles')
        os.makedirs(self.blob_dir, exist_ok=True)
        self.config = make_config(tmp, **conf)
        with self.loop:
            self.storage = SQLiteStorage(self.config, os.path.join(tmp, 'lbrynet.sqlite'), loop=self.loop,
                                         time_getter=clock or self.loop.time)
            self.blob_manager = BlobManager(self.loop, self.blob_dir, self.storage, self.config)
        self.loop.run(self.storage.open())

    def run(self, coro, **kw):
        return self.loop.run(coro, **kw)

    def close(self):
        try:
            self.loop.run(self.storage.close())
        except Exception:  # pylint: disable=broad-except
            pass

    def rows(self, sql, *args):
        return self.loop.run(self.storage.db.execute_fetchall(sql, args))
