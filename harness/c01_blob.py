"""C01 -- blob integrity under concurrent writers.
Leg A: BlobWrite.tla exhaustively (writers x declared lengths x chunkings x callback interleavings; safety + liveness).
Leg C: seeded random schedules on real BlobFile/HashBlobWriter under DetLoop; TLC validates the recorded observations
       against BlobWriteTrace.tla (property clauses on every real state; completion clause at quiescence)."""
import hashlib
import os
import shutil

from . import tlc
from .common import MachineryError, watchdog

SAFETY = ['Integrity', 'NoBadFile', 'OnlyRightLength', 'OnceOnly', 'QuiescentComplete']
LIVE = ['VerifiedStable', 'Eventually', 'AllClosedEventually']
WITNESSES = ['W_Verified', 'W_TwoDelivered', 'W_LoserCancelled', 'W_ExcLen', 'W_ExcHash']
TINVS = ['TIntegrity', 'TNoBadFile', 'TOnlyDelivered', 'TOnceOnly', 'TVerifiedStable', 'TComplete', 'TNoCollateral']
WMAX = 8


def leg_a(ctx):
    runs = [
        # (label, constants, invariants, properties)
        ('W3L2-live', dict(W=3, L=2, DECLS={1, 2, 3}, MAXN=3, BARE=False, CLOSEDEL=False, LATE=True), SAFETY, LIVE),
        ('W2L3-live', dict(W=2, L=3, DECLS={2, 3, 4}, MAXN=4, BARE=False, CLOSEDEL=False, LATE=True), SAFETY, LIVE),
        ('W2L2-bare-closedel', dict(W=2, L=2, DECLS={1, 2, 3}, MAXN=3, BARE=True, CLOSEDEL=True, LATE=False), SAFETY[:4], ['VerifiedStable']),
    ]
    if ctx.thorough:
        runs += [
            ('W3L3-live', dict(W=3, L=3, DECLS={2, 3, 4}, MAXN=4, BARE=False, CLOSEDEL=False, LATE=True), SAFETY, LIVE),
            ('W3L2-bare-closedel', dict(W=3, L=2, DECLS={2, 3}, MAXN=3, BARE=True, CLOSEDEL=True, LATE=False), SAFETY[:4], ['VerifiedStable']),
        ]
    for label, consts, invs, props in runs:
        res = tlc.run('BlobWrite', tlc.make_cfg(constants=consts, invariants=invs, properties=props), ctx,
                      timeout=3400, label=f'BlobWrite-{label}')
        ctx.add_tlc(res, f'BlobWrite exhaustive {label} {consts}')
        if res.violated:
            ctx.violation('model:' + res.violated[0], f'model property {res.violated[0]} violated ({label})', res.error_trace[:6000])
            return
        tlc.require_coverage(res, ['GetWriterGuarded', 'Write', 'RunHead', 'ExecDone'], f'BlobWrite-{label}')
    small = dict(W=2, L=2, DECLS={1, 2, 3}, MAXN=3, BARE=False, CLOSEDEL=False, LATE=True)
    for w in WITNESSES:
        r = tlc.run('BlobWrite', tlc.make_cfg(constants=small, invariants=[w]), ctx, coverage=False, timeout=600, label=w, workers=4)
        if w not in r.violated:
            raise MachineryError(f'reachability witness {w} not reached')
    # control of the liveness checking itself: without fairness (the event loop never runs a queued callback) the same
    # properties must be refuted
    r = tlc.run('BlobWrite', tlc.make_cfg(spec='SpecUnfair', constants=small, properties=LIVE), ctx, coverage=False, timeout=600,
                label='unfair', workers=4)
    if '<temporal>' not in r.violated:
        raise MachineryError('liveness control failed: without fairness the liveness properties should be refuted')
    ctx.leg('A', runs=[r[0] for r in runs], safety=SAFETY, liveness=LIVE, witnesses_reached=WITNESSES,
            liveness_control='SpecUnfair refutes ' + ', '.join(v for v in r.violated if v != '<temporal>'))


# --------------------------------------------------------------------------------------------- real blob driver

UNIT_SIZES = [1, 2, 15, 16, 17, 1000, 4096, 65537, 349525]


class Scenario:
    def __init__(self, ctx, k, rng, plain=False):
        from lbry.blob.blob_file import BlobFile
        self.plain = plain          # Leg B: no close()/delete(), writers opened the callers' way only
        from .detloop import DetLoop
        self.rng = rng
        self.dir = ctx.mkdir(f'c01-{k}')
        self.loop = DetLoop()
        self.L = rng.choice([1, 2, 2, 3, 3, 4])
        self.U = rng.choice(UNIT_SIZES if self.L * max(UNIT_SIZES) <= 2 * 1024 * 1024 else UNIT_SIZES[:-1])
        if self.L * self.U > 2 * 1024 * 1024:
            self.U = 65537
        if k % 40 == 7:                     # exactly 2 MiB, the largest blob
            self.L, self.U = 2, 1024 * 1024
        self.content = bytes(rng.getrandbits(8) for _ in range(min(self.L * self.U, 4096)))
        self.content = (self.content * (self.L * self.U // len(self.content) + 1))[:self.L * self.U]
        self.hash = hashlib.sha384(self.content).hexdigest()
        r = rng.random()
        self.decl = self.L if r < 0.8 else rng.choice([max(1, self.L - 1), self.L + 1])
        self.completed = 0
        # a third of the blobs are created without a length (requested by hash); it is announced through set_length() later
        self.late = rng.random() < 0.33 or k % 40 == 7
        with self.loop:
            self.blob = BlobFile(self.loop, self.hash, None if self.late else self.decl * self.U, self._completed, self.dir)
        self.writers = {}
        self.key = {}
        self.hung = set()
        self.allow_hangup = rng.random() < 0.35
        self.nwriters = rng.choice([1, 2, 2, 3, 3])
        self.plans = {w: self._plan(w) for w in range(1, self.nwriters + 1)}
        self.evs = []

    def _completed(self, blob):
        self.completed += 1

    def _plan(self, w):
        """a list of (n_units, good?) chunks: correct, corrupted at a position, truncated, over-long, unrelated"""
        rng, L = self.rng, self.L
        kind = rng.choice(['correct', 'correct', 'corrupt', 'truncated', 'overlong', 'unrelated'])
        units = [True] * L
        if kind == 'corrupt':
            units[rng.randrange(L)] = False
        elif kind == 'truncated':
            units = units[:rng.randrange(0, L)]
        elif kind == 'overlong':
            units = units + [False]
        elif kind == 'unrelated':
            units = [False] * rng.choice([1, L, L + 1])
        chunks, i = [], 0
        while i < len(units):
            n = rng.randint(1, len(units) - i)
            # a chunk is homogeneous in the model: split at kind changes
            j = i + 1
            while j < i + n and units[j] == units[i]:
                j += 1
            chunks.append((i, j - i, units[i]))
            i = j
        return {'kind': kind, 'chunks': chunks}

    def unit_bytes(self, pos, good):
        if pos < self.L:
            b = bytearray(self.content[pos * self.U:(pos + 1) * self.U])
        else:
            b = bytearray(os.urandom(self.U))
            good = True     # arbitrary bytes beyond the content are "bad" by position already
        if not good:
            b[self.rng.randrange(len(b))] ^= 0x01
        return bytes(b)

    def obs(self):
        path = os.path.join(self.dir, self.hash)
        if os.path.isfile(path):
            with open(path, 'rb') as f:
                file = 'good' if f.read() == self.content else 'bad'
        else:
            file = 'none'
        closed = [True] * WMAX
        pending = [False] * WMAX
        for w, wr in self.writers.items():
            closed[w - 1] = bool(wr.closed())
            pending[w - 1] = not wr.finished.done()
        return {'verified': bool(self.blob.get_is_verified()), 'file': file, 'completed': self.completed,
                'closed': closed, 'pending': pending}

    def log(self, event, **kw):
        e = {'event': event}
        e.update(kw)
        e['obs'] = self.obs()
        self.evs.append(e)

    def open_writer(self, w, guarded, same=0):
        """same > 0: the peer of writer `same` asks again (same address and port) while that attempt may still be pending"""
        ok = False
        if not guarded or self.blob.is_writeable():
            try:
                with self.loop:
                    self.writers[w] = self.blob.get_blob_writer(f'1.2.3.{self.key.get(same, w)}', 3333)
                ok = True
            except OSError:
                ok = False
        self.key[w] = self.key.get(same, w)
        if not ok:
            self.plans[w]['chunks'] = []
        self.log('Open', w=w, ok=ok, guarded=guarded, same=same)

    def write(self, w):
        plan = self.plans[w]
        if not plan['chunks']:
            return False
        pos, n, good = plan['chunks'].pop(0)
        wr = self.writers[w]
        openb, pendb = not wr.closed(), not wr.finished.done()
        data = b''.join(self.unit_bytes(pos + i, good) for i in range(n))
        try:
            with self.loop, watchdog(30):
                wr.write(data)
        except Exception:  # pylint: disable=broad-except
            # OSError on a closed handle; InvalidStateError when close() cancelled the future and the handle is still
            # open -- a refused write either way (exceptions out of the receiving protocol are C10's subject)
            pass
        self.log('Write', w=w, n=n, good=good, openb=openb, pendb=pendb)
        return True

    def run(self):
        rng = self.rng
        unopened = list(range(1, self.nwriters + 1))
        rng.shuffle(unopened)
        chaos = rng.random() < 0.12 and not self.plain
        budget = 400
        announce_at = rng.randrange(0, 6) if self.late else None
        while budget > 0:
            budget -= 1
            if announce_at is not None:
                if announce_at == 0:
                    self.blob.set_length(self.decl * self.U)
                    self.log('SetLength', len=self.decl)
                    announce_at = None
                else:
                    announce_at -= 1
            acts = []
            if unopened:
                acts += ['open'] * 3
            live = [w for w in self.writers if self.plans[w]['chunks']]
            if live:
                acts += ['write'] * 4
            if self.loop.ready_count():
                acts += ['step'] * 4
            if self.loop.pending_jobs:
                acts += ['job'] * 2
            if chaos and rng.random() < 0.1:
                acts += ['close', 'delete']
            if self.writers and len(self.plans) < WMAX and not self.plain and rng.random() < 0.12:
                acts += ['reopen']
            hungup = [w for w, wr in self.writers.items() if not self.plans[w]['chunks'] and not wr.closed() and w not in self.hung]
            # (at most one hang-up per schedule, in a third of the schedules, and only while the blob is incomplete: otherwise the
            # driver itself would close every writer that the blob ought to have shut down)
            if hungup and not self.plain and not self.hung and self.allow_hangup and not self.blob.get_is_verified():
                acts += ['closew'] * 2
            if not acts:
                break
            a = rng.choice(acts)
            if a == 'open':
                self.open_writer(unopened.pop(), guarded=self.plain or rng.random() < 0.9)
            elif a == 'write':
                self.write(rng.choice(live))
            elif a == 'closew':
                # the peer sent all it had and its connection ends: the protocol closes its writer's handle
                w = rng.choice(hungup)
                self.hung.add(w)
                with self.loop:
                    self.writers[w].close_handle()
                self.log('CloseW', w=w)
            elif a == 'reopen':
                # a peer asks again either while its attempt is still open (a reconnect racing the old connection) or after the
                # callbacks of its finished attempt have run (the entry is gone from blob.writers): never in between -- a
                # connection's next request comes after the callbacks of its previous one (see the assumptions)
                cands = [w for w in sorted(self.writers)
                         if not self.writers[w].closed() or (f'1.2.3.{self.key[w]}', 3333) not in self.blob.writers]
                if not cands:
                    continue
                old = rng.choice(cands)
                w2 = max(self.plans) + 1
                self.plans[w2] = self._plan(w2)
                self.open_writer(w2, guarded=True, same=old)
            elif a == 'step':
                self.loop.step()
                self.log('Step')
            elif a == 'job':
                with watchdog(30):
                    self.loop.complete_job(rng.randrange(len(self.loop.pending_jobs)))
                self.log('Job')
            elif a == 'close':
                with self.loop:
                    self.blob.close()
                self.log('Close')
            elif a == 'delete':
                with self.loop:
                    self.blob.delete()
                self.log('Delete')
        self.loop.drain(limit=10_000)
        self.log('Quiesce')
        if self.loop.exceptions:
            self.escaped = [str(c.get('exception') or c.get('message')) for c in self.loop.exceptions]
        else:
            self.escaped = []
        return {'L': self.L, 'decl': 0 if self.late else self.decl, 'ev': self.evs}

    def cleanup(self):
        try:
            with self.loop:
                self.blob.close()
        except Exception:  # pylint: disable=broad-except
            pass
        shutil.rmtree(self.dir, ignore_errors=True)


def leg_c(ctx):
    n = 6000 if ctx.thorough else 700
    traces, meta = [], []
    for k in range(n):
        sc = Scenario(ctx, k, ctx.rng)
        try:
            tr = sc.run()
        finally:
            sc.cleanup()
        traces.append(tr)
        meta.append({'unit_bytes': sc.U, 'writers': {w: p['kind'] for w, p in sc.plans.items()}, 'escaped': sc.escaped})
        key = (sc.L, sc.decl, sc.U, tuple(e['event'] + str(e.get('w', '')) for e in tr['ev']))
        ctx.count(key, nontrivial=sc.nwriters >= 2)
        if k < 3:
            ctx.sample({'L': sc.L, 'decl': sc.decl, 'unit_bytes': sc.U, 'plans': meta[-1]['writers'],
                        'events': [{kk: vv for kk, vv in e.items() if kk != 'obs'} | {'verified': e['obs']['verified'], 'file': e['obs']['file']}
                                   for e in tr['ev']][:40]})
    cfg = tlc.make_cfg(spec='TSpec', invariants=TINVS, constraint='Reached', postcondition='Report')
    verdicts = tlc.validate_traces('BlobWriteTrace', cfg, traces, ctx, label='BlobWriteTrace', chunk=1500, timeout=1800)
    for v in verdicts:
        tr = traces[v['tid']]
        if v['invariant']:
            k = v.get('inv_event')
            ctx.violation('clause-' + v['invariant'], f"clause {v['invariant']} violated on a real blob after event {k} "
                          f"({tr['ev'][k]['event'] if k is not None and 0 <= k < len(tr['ev']) else '?'}); writers {meta[v['tid']]['writers']}",
                          {'meta': meta[v['tid']], 'trace': tr})
        elif not v['accepted']:
            raise MachineryError(f'trace {v["tid"]} not consumed (format problem) at {v["matched"]}')
    ctx.cov['traces_validated_against_impl'] += len(traces)
    nver = sum(1 for t in traces if t['ev'][-1]['obs']['verified'])
    nesc = sum(1 for m in meta if m['escaped'])
    ctx.leg('C', schedules=len(traces), ended_verified=nver, with_exception_in_loop_handler=nesc,
            events=sum(len(t['ev']) for t in traces))


def leg_b(ctx):
    """exact conformance of the algorithm of BlobWrite.tla with the real objects (spec drift, never a violation)"""
    n = 1500 if ctx.thorough else 200
    groups = {}
    for k in range(n):
        sc = Scenario(ctx, 100000 + k, ctx.rng, plain=True)
        try:
            tr = sc.run()
        finally:
            sc.cleanup()
        groups.setdefault(sc.L, []).append(tr)
        ctx.count(('replay', sc.L, sc.U, tuple(e['event'] + str(e.get('w', '')) for e in tr['ev'])), nontrivial=sc.nwriters >= 2)
    drift = total = 0
    for L, traces in sorted(groups.items()):
        cfg = tlc.make_cfg(spec='RSpec', constants=dict(W=3, L=L, DECLS=set(), MAXN=L + 1, BARE=True, CLOSEDEL=False, LATE=True),
                           constraint=['Reached', 'Note'], postcondition='Report')
        verdicts = tlc.validate_traces('BlobWriteReplay', cfg, traces, ctx, label=f'BlobWriteReplay-L{L}', chunk=1500, timeout=1800)
        bad = [v for v in verdicts if not v['accepted']]
        if bad:
            raise MachineryError(f'replay trace not consumed at {bad[0]["matched"]} (L={L})')
        drift += sum(1 for v in verdicts if v.get('drift'))
        total += len(traces)
    ctx.cov['traces_validated_against_impl'] += total
    ctx.leg('B', replayed_schedules=total, spec_drift=drift)
    if drift:
        print(f'NOTE: {drift} of {total} replayed schedules diverged from the algorithm of BlobWrite.tla (spec drift; the property is judged by Leg C)')


# --------------------------------------------------------------------------------------------- in-memory blobs (BlobBuffer)

BTINVS = ['TBufIntegrity', 'TReadGood', 'TNeverBadBytes', 'TBufComplete', 'TBufOnce']


class BufScenario(Scenario):
    """the same writers and data plans on a BlobBuffer, in rounds that each end with the one-shot read"""

    def __init__(self, ctx, k, rng):
        from lbry.blob.blob_file import BlobBuffer
        from .detloop import DetLoop
        self.plain = True
        self.rng = rng
        self.dir = ctx.mkdir(f'c01b-{k}')
        self.loop = DetLoop()
        self.L = rng.choice([1, 2, 2, 3])
        self.U = rng.choice([1, 16, 17, 1000, 65537])
        self.content = bytes(rng.getrandbits(8) for _ in range(min(self.L * self.U, 4096)))
        self.content = (self.content * (self.L * self.U // len(self.content) + 1))[:self.L * self.U]
        self.hash = hashlib.sha384(self.content).hexdigest()
        self.decl = self.L if rng.random() < 0.85 else rng.choice([max(1, self.L - 1), self.L + 1])
        self.completed = 0
        self.late = False
        with self.loop:
            self.blob = BlobBuffer(self.loop, self.hash, self.decl * self.U, self._completed, self.dir)
        self.writers, self.plans, self.evs = {}, {}, []
        self.rounds = rng.choice([1, 2, 2, 3])

    def obs(self):
        closed, pending = [True] * WMAX, [False] * WMAX
        for w, wr in self.writers.items():
            closed[w - 1] = bool(wr.closed())
            pending[w - 1] = not wr.finished.done()
        return {'verified': bool(self.blob.get_is_verified()), 'completed': self.completed, 'closed': closed, 'pending': pending}

    def read(self):
        try:
            with self.loop, watchdog(30), self.blob.reader_context() as reader:
                data = reader.read()
            result = 'good' if data == self.content else 'bad'
        except OSError:
            result = 'refused'
        except Exception:  # pylint: disable=broad-except
            result = 'raises'
        self.log('Read', result=result)

    def run(self):
        rng = self.rng
        slot = 0
        for _ in range(self.rounds):
            new = []
            for _ in range(rng.choice([1, 1, 2])):
                if slot < WMAX:
                    slot += 1
                    self.plans[slot] = self._plan(slot)
                    if rng.random() < 0.6:          # most rounds contain a correct copy, so that the next round starts from a read blob
                        self.plans[slot] = {'kind': 'correct', 'chunks': [(0, self.L, True)] if rng.random() < 0.5 else [(i, 1, True) for i in range(self.L)]}
                    new.append(slot)
            budget = 200
            while budget > 0:
                budget -= 1
                acts = []
                if new:
                    acts += ['open'] * 3
                live = [w for w in self.writers if self.plans[w]['chunks']]
                if live:
                    acts += ['write'] * 4
                if self.loop.ready_count():
                    acts += ['step'] * 4
                if not acts:
                    break
                a = rng.choice(acts)
                if a == 'open':
                    w = new.pop()
                    ok = False
                    guarded = rng.random() < 0.85          # the rest ask for a writer without the callers' check (bare API)
                    if not guarded or (not self.blob.get_is_verified() and self.blob.is_writeable()):     # the callers' guard (client.download_blob)
                        try:
                            with self.loop:
                                self.writers[w] = self.blob.get_blob_writer(f'1.2.3.{w}', 3333)
                            ok = True
                        except OSError:
                            ok = False
                    if not ok:
                        self.plans[w]['chunks'] = []
                    self.log('Open', w=w, ok=ok, guarded=guarded)
                elif a == 'write':
                    self.write(rng.choice(live))
                else:
                    self.loop.step()
                    self.log('Step')
            self.loop.drain(limit=10_000)
            self.log('Quiesce')
            if self.blob.get_is_verified() and slot < WMAX and rng.random() < 0.3:
                # a late peer that did not notice the blob is complete: asks for a writer without the callers' check and delivers
                # another complete correct copy -- nothing may change, nothing may be announced again
                slot += 1
                self.plans[slot] = {'kind': 'correct', 'chunks': [(0, self.L, True)]}
                ok = False
                try:
                    with self.loop:
                        self.writers[slot] = self.blob.get_blob_writer(f'1.2.3.{slot}', 3333)
                    ok = True
                except OSError:
                    self.plans[slot]['chunks'] = []
                self.log('Open', w=slot, ok=ok, guarded=False)
                if ok:
                    self.write(slot)
                self.loop.drain(limit=10_000)
                self.log('Quiesce')
            self.read()
            self.loop.drain(limit=10_000)
        self.escaped = [str(c.get('exception') or c.get('message')) for c in self.loop.exceptions]
        return {'L': self.L, 'decl': self.decl, 'ev': self.evs}


def leg_buffer(ctx):
    n = 1500 if ctx.thorough else 250
    traces, meta = [], []
    for k in range(n):
        sc = BufScenario(ctx, 200000 + k, ctx.rng)
        try:
            tr = sc.run()
        finally:
            sc.cleanup()
        traces.append(tr)
        meta.append({'unit_bytes': sc.U, 'rounds': sc.rounds, 'writers': {w: p['kind'] for w, p in sc.plans.items()}})
        ctx.count(('buffer', sc.L, sc.decl, sc.U, tuple(e['event'] + str(e.get('w', '')) + str(e.get('result', '')) for e in tr['ev'])), nontrivial=sc.rounds >= 2)
    cfg = tlc.make_cfg(spec='TSpec', invariants=BTINVS, constraint='Reached', postcondition='Report')
    verdicts = tlc.validate_traces('BlobBufferTrace', cfg, traces, ctx, label='BlobBufferTrace', chunk=1500, timeout=1800)
    for v in verdicts:
        tr = traces[v['tid']]
        if v['invariant']:
            k = v.get('inv_event')
            ctx.violation('clause-' + v['invariant'], f"clause {v['invariant']} violated on a real in-memory blob after event {k} "
                          f"({tr['ev'][k]['event'] if k is not None and 0 <= k < len(tr['ev']) else '?'}); {meta[v['tid']]}",
                          {'meta': meta[v['tid']], 'trace': tr})
        elif not v['accepted']:
            raise MachineryError(f'buffer trace {v["tid"]} not consumed (format problem) at {v["matched"]}')
    ctx.cov['traces_validated_against_impl'] += len(traces)
    reads = [e['result'] for t in traces for e in t['ev'] if e['event'] == 'Read']
    ctx.leg('C-buffer', schedules=len(traces), reads=len(reads), reads_good=reads.count('good'), reads_refused=reads.count('refused'),
            second_round_good=sum(1 for t in traces if [e['result'] for e in t['ev'] if e['event'] == 'Read'][1:].count('good')))
    if reads.count('good') < len(traces) // 4:
        raise MachineryError('vacuous buffer leg: hardly any read returned the content')


def run(ctx):
    leg_a(ctx)
    leg_b(ctx)
    leg_c(ctx)
    leg_buffer(ctx)
    ctx.cov['rule'] = ('Leg A: all states of BlobWrite.tla in the listed configurations. Leg C: one seeded schedule per case: blob of '
                       '1-4 units x unit size 1 B..1 MiB (incl. exactly 2 MiB), declared length right/short/long, 1-3 writers each '
                       'sending correct / corrupted / truncated / over-long / unrelated data in random chunkings, interleaved with '
                       'single loop callbacks and executor completions (12% of schedules also call close()/delete()); the same on in-memory '
                       'BlobBuffer objects in rounds that end with the one-shot read (BlobBufferTrace.tla); distinct = '
                       'distinct (sizes, event sequence); non-trivial = at least two writers.')
    ctx.assumptions += ['SHA-384 collision resistance (abstracted as: digest equal iff exactly the right units)',
                        "a connection's next chunk is delivered after the callbacks of its previous chunk (asyncio transports)"]
