"""G10 (growth): the wallet's JSON-RPC session layer -- framing, request/response matching, batches.

Specification: specs/JsonRpc.tla (framer + connection + session as one state machine; the places where the code
as found differs from the statement are switches), specs/JsonRpcTrace.tla (judge of recorded real sessions).

Leg A  TLC, exhaustive: the bare framer under every chunking of every stream of 3 lines; the session per
       catalogue of peer lines (responses, requests, malformed input, response batches, request batches, a mix under
       symbol-level chunking), reference switches: every clause holds; switches as found: the same clauses hold except
       exactly the recorded ones; witnesses for every antecedent; negative controls (responses matched by arrival
       order, pending not failed on loss, framer not dropping the over-long data); liveness under fairness.
Leg B  TLC emits every stream x chunking of the bare-framer model with the messages / refusals computed in TLA+;
       each is fed to a real NewlineFramer (1 cell = 1 byte and 1 cell = S bytes) and compared.
Leg C  a real RPCSession subclass (handlers through the real handler_invocation) on a FakeTransport under DetLoop;
       the driver is the peer and the callers: scripted and random sessions over the whole catalogue, byte-level
       chunkings, cuts at every step, virtual-time timeouts; everything observable is recorded before every
       stimulus and the recording is replayed through the specification's actions by JsonRpcTrace (refinement),
       with all clauses as invariants.
"""
import asyncio
import json
import os
from concurrent.futures import ThreadPoolExecutor

from . import tlc
from .common import MachineryError, watchdog
from .detloop import DetLoop, FakeTransport

MAXSIZE = 400          # framer.max_size of the sessions under test (bytes)
MAXERR = 3             # session.max_errors of the sessions under test
NCALL = 3
CODES = {-32700: 'PARSE', -32600: 'INVREQ', -32601: 'NOMETH', -32602: 'BADARGS', -32603: 'INTERNAL', 7: 'APP'}
SECRET = 'secret-text-of-the-exception'

AS_FOUND = dict(SORTDIES=True, UNSERDIES=True, BATCHLOSS=True, BATCHGUARD=False)
REFERENCE = dict(SORTDIES=False, UNSERDIES=False, BATCHLOSS=False, BATCHGUARD=True)
CONTROLS_OFF = dict(BYORDER=False, NOFAIL=False, NORESET=False)

STATE_INVS = ['OneMessagePerLine', 'OverlongRefused', 'BufferBounded', 'AtMostOneResult', 'RightCaller', 'BatchMatched',
              'PendingConsistent', 'OneResponsePerRequest', 'BatchAnswered', 'NotificationsSilent', 'StandardErrorCodes']
FOUND_INVS = ['NeverRaisesOut', 'LossFailsAllPending', 'LossFailsAsConnectionError']     # broken as found (recorded findings)
ACTION_PROPS = ['UnknownIdDropped', 'NothingAfterLoss', 'TimeoutOnlyThatRequest', 'ClosedStaysClosed']

KEYS = {
    'sort': 'response-batch-with-unorderable-ids-kills-receive-task',
    'unser': 'unserialisable-handler-result-kills-receive-task',
    'batchloss': 'batch-pending-at-connection-loss-returns-exception-as-results',
    'batchafter': 'batch-sent-after-connection-loss-pends-forever',
}

NOTES = [
    'D1 the size limit is on the newline-free data the framer has buffered, not on the line: an over-long line whose newline arrives '
    'in the same chunk as its overflow is delivered (clause restated as BufferBounded + OverlongRefused; OverlongAlwaysRefused is the literal clause, broken)',
    'D2 through RPCSession a MemoryError from the framer closes the connection (no re-synchronisation; the bare framer does resynchronise)',
    'D3 a response for an unknown id (also a duplicate, a response to a batch member alone, a partial batch) changes nothing for any caller but counts one error; max_errors of them close the session',
    'D4 a parse error (bad JSON, bad UTF-8, empty line) is answered with -32700 id null and closes the session (max_errors := 0)',
    'D5 a clean loss (exc None) fails the pending requests with asyncio.TimeoutError, a loss with an exception with that exception',
    'D6 there is no sent_request_timeout in this fork: the timeout is the caller\'s wait_for; the entry stays in the pending map until the '
    'response or the loss, a late response is consumed silently (no error counted)',
    'D7 requests are handled strictly one at a time (the receive task awaits each handler task): a slow handler holds up every later message, including responses to our own requests',
    'D8 a BatchRequest holding only notifications raises AttributeError after sending (event is None); send_notifications is the API for that',
    'D9 an invalid entry in a batch that otherwise holds only notifications gets no error part (nothing is sent); a response batch with one ill-formed part is dropped as a whole (one error counted), the batch stays pending',
    'D10 the id counter is shared by all connections of the process (class attribute); ids are compared with Python equality',
]


# ------------------------------------------------------------------------------------------------ product imports

def _imports():
    import lbry.wallet  # noqa: F401  (before lbry.conf)
    from lbry.wallet.rpc import session as rs, jsonrpc as rj, framing as rf
    return rs, rj, rf


def calibrate_ids():
    """next value of the process-wide id counter, learnt through the public API of a throw-away connection"""
    rs, rj, rf = _imports()
    msg, _ = rj.JSONRPCConnection(rj.JSONRPCv2).send_request(rj.Request('calibrate', []))
    return json.loads(msg)['id'] + 1


# ------------------------------------------------------------------------------------------------ peer lines -> bytes

def L(k, id=-1, h='', items=()):
    return {'k': k, 'id': id, 'h': h, 'len': 0, 'items': [dict(t=t, id=i, h=hh) for t, i, hh in items]}


def _rid(i, base):
    if i == -1:
        return None
    return base + i if i < 50 else i          # 0..49: our own ids (offset by the process-wide counter); >= 50: the peer's / unknown


def line_bytes(n, ln, base, variant=0):
    """the bytes (without newline) of the n-th line the peer sends"""
    k, i, h = ln['k'], ln['id'], ln['h']
    v2 = {'jsonrpc': '2.0'}
    err = {'code': 1000 + n, 'message': f'e{n}'}
    if k == 'resp':
        o = dict(v2, result=n, id=_rid(i, base))
    elif k == 'errresp':
        o = dict(v2, error=err, id=_rid(i, base))
    elif k == 'badresp':
        o = [dict(v2, result=n, error=err, id=_rid(i, base)), dict(v2, id=_rid(i, base)), dict(v2, error='str', id=_rid(i, base))][variant % 3]
    elif k == 'req':
        o = dict(v2, method=h, params=[n], id=i)
    elif k == 'notif':
        o = dict(v2, method=h, params=[n])
    elif k == 'garbage':
        if ln['len'] == 0 and ln.get('empty'):
            return b''
        return [b'{"jsonrpc": "2.0", "method": ', b'\xff\xfe{"jsonrpc": "2.0"}', b'nonsense', b'{"a": 1}}'][variant % 4]
    elif k == 'nonobj':
        return [b'5', b'"text"', b'null', b'true'][variant % 4]
    elif k == 'emptybatch':
        return b'[]'
    elif k == 'badreq':
        if i == -1:
            o = [{'method': 'ok', 'params': [n]}, dict(v2, method='ok', params=[n], id=[1])][variant % 2]
        else:
            o = [{'jsonrpc': '1.5', 'method': 'ok', 'params': [n], 'id': i}, {'method': 'ok', 'params': [n], 'id': i}][variant % 2]
    elif k == 'plain':
        return b'{"pad": "' + b'x' * (ln['len'] - 9)
    elif k == 'respbatch':
        o = []
        for j, it in enumerate(ln['items']):
            rid = _rid(it['id'], base)
            if h == 'mixed' and j == len(ln['items']) - 1:
                rid = ['a', None][variant % 2]
            o.append({'ok': dict(v2, result=n, id=rid), 'err': dict(v2, error=err, id=rid),
                      'bad': dict(v2, result=n, error=err, id=rid)}[it['t']])
    elif k == 'reqbatch':
        o = []
        for it in ln['items']:
            if it['t'] == 'req':
                o.append(dict(v2, method=it['h'], params=[n], id=it['id']))
            elif it['t'] == 'notif':
                o.append(dict(v2, method=it['h'], params=[n]))
            elif it['id'] == -1:
                o.append(7)
            else:
                o.append({'jsonrpc': '1.5', 'method': 'ok', 'id': it['id']})
    else:
        raise MachineryError(f'line kind {k}')
    return json.dumps(o).encode()


# ------------------------------------------------------------------------------------------------ the world

class World:
    """one real session under test, its fake transport, its callers, its recorder"""

    def __init__(self, lines, variant=0, session_cls=None):
        rs, rj, rf = _imports()
        self.rj = rj
        self.loop = DetLoop()
        self.base = calibrate_ids()
        world = self

        class Server(rs.RPCSession):
            max_errors = MAXERR

            async def handle_request(self, request):
                n = request.args[0] if isinstance(request.args, list) and request.args else -1
                world.inv.append({'h': request.method, 'v': n})
                handler = getattr(self, 'on_' + request.method, None)
                return await rj.handler_invocation(handler, request)()

            async def on_ok(self, n):
                return n

            async def on_slow(self, n):
                world.blocked = True
                try:
                    await world.gate.wait()
                finally:
                    world.blocked = False
                world.gate.clear()
                return n

            async def on_rpcerr(self, n):
                raise rj.RPCError(7, f'boom{n}')

            async def on_exc(self, n):
                raise ValueError(SECRET)

            async def on_unser(self, n):
                return {n, 'set'}

            async def on_badargs(self):
                return 0

        with self.loop:
            asyncio.set_event_loop(self.loop)
            self.gate = asyncio.Event()
            self.session = (session_cls or Server)()
            self.session.framer.max_size = MAXSIZE
            self.transport = FakeTransport(self.loop, self.session)
            self.session.connection_made(self.transport)
        self.inv = []
        self.blocked = False
        self.tasks = {}
        self.outcome = {}
        self.lines = []
        for n, ln in enumerate(lines, 1):
            ln = dict(ln)
            b = line_bytes(n, ln, self.base, variant) if ln['k'] != 'plain' else None
            if ln['k'] == 'plain':
                ln['len'] = ln['len'] or MAXSIZE + 1 + 37 * variant
                b = line_bytes(n, ln, self.base, variant)
            ln['len'] = len(b)
            ln.pop('empty', None)
            if len(b) > MAXSIZE and ln['k'] != 'plain':
                raise MachineryError('a catalogue line outgrew max_size')
            self.lines.append((ln, b))
        self.stream = b''.join(b + b'\n' for _, b in self.lines)
        # byte -> (line, position) ; position 0 = the newline
        self.where = []
        for n, (_, b) in enumerate(self.lines, 1):
            self.where += [(n, p) for p in range(1, len(b) + 1)] + [(n, 0)]
        self.fed = 0
        self.deadlines = 0

    # ---- stimuli
    def feed(self, nbytes):
        chunk = self.stream[self.fed:self.fed + nbytes]
        segs = []
        for n, p in self.where[self.fed:self.fed + nbytes]:
            if p == 0:
                segs.append({'n': n, 'a': 0, 'b': 0})
            elif segs and segs[-1]['n'] == n and segs[-1]['a'] != 0 and segs[-1]['b'] == p - 1:
                segs[-1]['b'] = p
            else:
                segs.append({'n': n, 'a': p, 'b': p})
        self.fed += len(chunk)
        with self.loop:
            self.session.data_received(chunk)
        return segs

    def _caller(self, c, coro_fn, timeout):
        async def run():
            try:
                res = await asyncio.wait_for(coro_fn(), timeout)
                self.outcome[c] = res
            except BaseException as e:    # pylint: disable=broad-except
                self.outcome[c] = self.classify(e)
                if isinstance(e, asyncio.CancelledError):
                    raise
        self.tasks[c] = self.loop.spawn(run())

    def classify(self, e):
        rj = self.rj
        if isinstance(e, rj.RPCError):
            return {'how': 'rpcerror', 'ln': e.code - 1000, 'parts': [], 'msg': e.message}
        if isinstance(e, rj.ProtocolError):
            return {'how': 'protoerr', 'ln': 0, 'parts': []}
        if isinstance(e, asyncio.TimeoutError):
            if isinstance(e.__cause__, asyncio.CancelledError) or isinstance(e.__context__, asyncio.CancelledError):
                return {'how': 'timeout', 'ln': 0, 'parts': []}
            if e.args and 'recently dropped' in str(e.args[0]):
                return {'how': 'refused', 'ln': 0, 'parts': []}
            return {'how': 'lost_timeout', 'ln': 0, 'parts': []}
        if isinstance(e, ConnectionError):
            return {'how': 'lost_reset', 'ln': 0, 'parts': []}
        if isinstance(e, AttributeError):
            return {'how': 'attrerr', 'ln': 0, 'parts': []}
        if isinstance(e, TypeError):
            return {'how': 'typeerror', 'ln': 0, 'parts': []}
        return {'how': 'other:' + type(e).__name__, 'ln': 0, 'parts': []}

    def _deadline(self, times_out):
        if not times_out:
            return None
        self.deadlines += 1
        return 100.0 * self.deadlines - self.loop.time()

    def send_request(self, c, times_out=False):
        async def call():
            return {'how': 'result', 'ln': await self.session.send_request('peer_method', [c]), 'parts': []}
        self._caller(c, call, self._deadline(times_out))

    def send_batch(self, c, items, re, times_out=False):
        rs, rj, _ = _imports()

        def parts_of(results):
            ps, ln = [], 0
            for r in results:
                if isinstance(r, rj.RPCError):
                    ps.append('err')
                    ln = ln or r.code - 1000
                elif isinstance(r, Exception):
                    ps.append('bad')
                else:
                    ps.append('ok')
                    ln = r
            return ps, ln

        async def call():
            try:
                async with self.session.send_batch(raise_errors=re) as b:
                    for it in items:
                        (b.add_request if it == 'r' else b.add_notification)('peer_method', [c])
            except rs.BatchError as e:
                ps, ln = parts_of(e.request.results)
                return {'how': 'batcherror', 'ln': ln, 'parts': ps}
            if isinstance(b.results, Exception):
                return {'how': 'batch_exc_results', 'ln': 0, 'parts': []}
            ps, ln = parts_of(b.results)
            return {'how': 'batch', 'ln': ln, 'parts': ps}
        self._caller(c, call, self._deadline(times_out))

    def send_notification(self):
        self.loop.spawn(self.session.send_notification('peer_note', [0]))

    def open_gate(self):
        with self.loop:
            self.gate.set()

    def cut(self, exc):
        with self.loop:
            self.transport.closing = True
            if not self.transport.lost_called:
                self.transport.lost_called = True
                self.session.connection_lost(ConnectionResetError('reset by peer') if exc == 'reset' else None)

    def timeout(self):
        """virtual time moves to the next deadline (only callers' wait_for timers exist)"""
        self.loop.advance()

    def settle(self):
        with watchdog(20):
            self.loop.drain(timers=False, limit=20000)

    # ---- observation (public API / what the driver holds; _pm_task is the one private read, see assumptions)
    def written(self):
        recs = []
        data = b''.join(self.transport.out)
        if data and not data.endswith(b'\n'):
            recs.append({'t': 'unterminated', 'code': '', 'id': -1, 'v': -1, 'parts': []})
        for raw in data.split(b'\n')[:-1] if data else []:
            recs.append(self.parse_out(json.loads(raw.decode())))
        return recs

    def _part(self, o):
        def mid(i, own):
            if i is None:
                return -1
            if not isinstance(i, int) or isinstance(i, bool):
                return -2
            return i - self.base if own else i
        if not isinstance(o, dict):
            return {'t': 'junk', 'code': '', 'id': -1, 'v': -1}
        if 'method' in o:
            c = o.get('params', [-1])[0]
            if 'id' in o:
                return {'t': 'request', 'code': '', 'id': mid(o['id'], True), 'v': c}
            return {'t': 'notification', 'code': '', 'id': -1, 'v': -1}
        if 'error' in o and 'result' not in o:
            e = o['error']
            code = CODES.get(e.get('code'), f"OTHER{e.get('code')}")
            if SECRET in str(e.get('message')) or (code == 'INTERNAL' and e.get('message') != 'internal server error'):
                code = 'LEAK'
            if o.get('jsonrpc') != '2.0':
                code = 'NOVERSION'
            return {'t': 'error', 'code': code, 'id': mid(o.get('id'), False), 'v': -1}
        if 'result' in o and 'error' not in o and o.get('jsonrpc') == '2.0':
            r = o['result']
            return {'t': 'result', 'code': '', 'id': mid(o.get('id'), False), 'v': r if isinstance(r, int) else -2}
        return {'t': 'junk', 'code': '', 'id': -1, 'v': -1}

    def parse_out(self, o):
        if isinstance(o, list):
            parts = [self._part(x) for x in o]
            if parts and parts[0]['t'] in ('request', 'notification'):
                c = o[0].get('params', [-1])[0]
                return {'t': 'reqbatch', 'code': '', 'id': -1, 'v': c, 'parts': parts}
            vs = [p['v'] for p in parts if p['t'] == 'result']
            return {'t': 'batch', 'code': '', 'id': -1, 'v': vs[0] if vs else -1, 'parts': parts}
        return dict(self._part(o), parts=[])

    def observe(self):
        call = []
        out = self.written()
        sent = {}
        for r in out:
            if r['t'] == 'request':
                sent.setdefault(r['v'], []).append(r['id'])
            elif r['t'] == 'reqbatch':
                sent.setdefault(r['v'], []).extend(p['id'] for p in r['parts'] if p['t'] == 'request')
        for c in range(1, NCALL + 1):
            t = self.tasks.get(c)
            if t is None:
                call.append({'st': 'idle', 'how': '', 'ids': [], 'ln': 0, 'parts': []})
            elif not t.done():
                call.append({'st': 'wait', 'how': '', 'ids': self._ids(c, sent), 'ln': 0, 'parts': []})
            else:
                o = self.outcome.get(c) or {'how': 'vanished', 'ln': 0, 'parts': []}
                ids = self._ids(c, sent) if o['how'] not in ('refused', 'attrerr') else []
                call.append({'st': 'done', 'how': o['how'], 'ids': ids, 'ln': o['ln'], 'parts': o['parts']})
        pm = self.session._pm_task
        dead = bool(pm.done() and not pm.cancelled() and pm.exception() is not None)
        return {'out': out, 'call': call, 'inv': list(self.inv), 'errors': min(self.session.errors, MAXERR + 1),
                'closing': bool(self.session.is_closing()), 'npend': len(self.session.connection.pending_requests()),
                'dead': dead, 'blocked': self.blocked}

    def _ids(self, c, sent):
        """the ids of caller c's request(s), read off the transport (a batch sent while closing is not written: none)"""
        return sent.get(c, [])


# ------------------------------------------------------------------------------------------------ scenarios (Leg C)

def run_scenario(lines, ops, variant=0):
    """ops: ('feed', nbytes|'line'|'all', nd) ('req', c, times_out) ('batch', c, items, re, times_out) ('notif',)
    ('gate', nd) ('cut', exc, nd) ('timeout',).  Returns the trace for JsonRpcTrace."""
    w = World(lines, variant)
    ev = []
    hold = False
    flagged = []         # callers started with a deadline, in deadline order

    def add(e, nd=False, **kw):
        nonlocal hold
        ev.append(dict(e=e, nd=bool(nd), o=obs, **kw))
        hold = bool(nd)

    def release():
        # a stimulus that needs the loop (a caller's task, a timer) cannot follow an undrained one directly
        nonlocal hold
        if hold:
            ev.append({'e': 'sync', 'nd': False, 'o': ev[-1]['o']})
            hold = False

    for op in ops:
        kind = op[0]
        if kind not in ('feed', 'cut', 'gate'):
            release()
        if not hold:
            w.settle()
        obs = w.observe() if not hold else ev[-1]['o']
        if kind == 'feed':
            left = len(w.stream) - w.fed
            if left == 0:
                continue
            nb = op[1]
            if nb == 'line':
                nb = w.stream.index(b'\n', w.fed) - w.fed + 1
            elif nb == 'all':
                nb = left
            nb = max(1, min(nb, left))
            segs_holder = w.feed(nb)
            add('feed', op[2], chunk=segs_holder)
        elif kind == 'req':
            c = op[1]
            if c in w.tasks:
                continue
            w.send_request(c, op[2])
            if op[2]:
                flagged.append(c)
            add('req', c=c)
        elif kind == 'batch':
            c = op[1]
            if c in w.tasks:
                continue
            w.send_batch(c, op[2], op[3], op[4])
            if op[4]:
                flagged.append(c)
            add('batch', c=c, items=list(op[2]), re=bool(op[3]))
        elif kind == 'notif':
            w.send_notification()
            add('notif')
        elif kind == 'gate':
            if not w.blocked or w.transport.lost_called or w.gate.is_set():
                continue
            w.open_gate()
            add('gate', op[1])
        elif kind == 'cut':
            if w.transport.lost_called:
                continue
            w.cut(op[1])
            add('cut', op[2], exc=op[1])
        elif kind == 'timeout':
            while flagged and w.tasks[flagged[0]].done():
                flagged.pop(0)
            if not flagged:
                continue
            c = flagged.pop(0)
            w.timeout()
            add('timeout', c=c)
        else:
            raise MachineryError(f'op {op}')
    release()
    w.settle()
    obs = w.observe()
    ev.append({'e': 'end', 'o': obs})
    for t in w.tasks.values():       # leave nothing running
        t.cancel()
    with w.loop:
        w.gate.set()
    try:
        w.loop.drain(timers=False, limit=20000)
    except Exception:   # pylint: disable=broad-except
        pass
    return {'lines': [ln for ln, _ in w.lines], 'ev': ev, 'final': obs}


def catalogue():
    """every peer line of JsonRpc.tla's catalogues (kept in step with the specification by the Leg A emission check)"""
    hs = ['ok', 'rpcerr', 'exc', 'nometh', 'badargs', 'slow', 'unser']
    cat = [L(k, i) for k in ('resp', 'errresp', 'badresp') for i in (0, 1, 2, 999999)] + [L('errresp', -1)]
    cat += [L('req', 50, h) for h in hs] + [L('notif', -1, h) for h in ('ok', 'exc', 'slow', 'nometh')]
    cat += [L('garbage'), dict(L('garbage'), empty=True), L('nonobj'), L('emptybatch'), L('badreq', 51), L('badreq', -1), dict(L('plain'))]
    cat += [L('respbatch', items=[('ok', 0, ''), ('err', 1, '')]), L('respbatch', items=[('err', 1, ''), ('ok', 0, '')]),
            L('respbatch', items=[('ok', 0, '')]), L('respbatch', items=[('ok', 0, ''), ('ok', 0, '')]),
            L('respbatch', items=[('ok', 0, ''), ('bad', 1, '')]), L('respbatch', items=[('bad', 2, ''), ('ok', 0, '')]),
            L('respbatch', h='mixed', items=[('ok', 0, ''), ('ok', 1, '')]),
            L('respbatch', items=[('ok', 0, ''), ('ok', 2, ''), ('err', 1, '')]), L('respbatch', items=[('ok', 1, ''), ('ok', 2, '')])]
    cat += [L('reqbatch', items=[('req', 60, 'ok'), ('req', 61, 'rpcerr')]), L('reqbatch', items=[('req', 60, 'ok'), ('notif', -1, 'ok')]),
            L('reqbatch', items=[('bad', 62, ''), ('req', 60, 'exc')]), L('reqbatch', items=[('bad', 62, ''), ('bad', -1, '')]),
            L('reqbatch', items=[('notif', -1, 'ok'), ('bad', 62, '')]), L('reqbatch', items=[('req', 60, 'slow'), ('req', 61, 'ok')]),
            L('reqbatch', items=[('req', 60, 'unser'), ('req', 61, 'ok')]), L('reqbatch', items=[('notif', -1, 'exc')]),
            L('reqbatch', items=[('req', 60, 'nometh'), ('req', 61, 'badargs'), ('req', 62, 'ok')])]
    return cat


SHAPES = [(('r', 'r'), False), (('r', 'n', 'r'), True), (('n',), False), (('r',), False), (('r', 'r'), True)]


def random_scenario(rng, cat, nlines, nops):
    lines = [dict(rng.choice(cat)) for _ in range(nlines)]
    # bias: responses are only interesting when requests are out, so callers tend to go first
    ops = []
    callers = list(range(1, NCALL + 1))
    rng.shuffle(callers)
    for _ in range(nops):
        r = rng.random()
        if r < 0.34:
            mode = rng.random()
            ops.append(('feed', 'line' if mode < 0.45 else 'all' if mode < 0.5 else rng.choice([1, 2, 3, 7, 20, 45, 90, 150, 399, 400, 401, 450]),
                        rng.random() < 0.2))
        elif r < 0.58 and callers:
            c = callers.pop()
            if rng.random() < 0.6:
                ops.append(('req', c, rng.random() < 0.25))
            else:
                items, re = rng.choice(SHAPES)
                ops.append(('batch', c, items, re, rng.random() < 0.2))
        elif r < 0.63:
            ops.append(('notif',))
        elif r < 0.75:
            ops.append(('gate', rng.random() < 0.2))
        elif r < 0.83:
            ops.append(('timeout',))
        elif r < 0.89:
            ops.append(('cut', rng.choice(['none', 'reset']), rng.random() < 0.3))
        else:
            ops.append(('feed', 'line', False))
    return lines, ops


def scripted_scenarios(cat):
    """every catalogue line in the contexts that matter: with the matching requests out (single + batch), fed whole,
    in two halves and byte by byte at the end, then a second well-formed request line to show the session alive or not;
    every line followed by a cut; the loss / timeout / after-loss cases of every caller kind"""
    out = []
    probe = L('req', 70, 'ok')
    for ln in cat:
        pre = [('req', 1, False), ('req', 2, False), ('batch', 3, ('r', 'r'), False, False)] if ln['k'] in ('resp', 'errresp', 'badresp') else \
              [('batch', 1, ('r', 'r'), False, False), ('req', 2, False), ('batch', 3, ('r', 'r'), True, False)] if ln['k'] == 'respbatch' else []
        for feeds in ([('feed', 'line', False)], [('feed', 9, False), ('feed', 'line', False)], [('feed', 'all', False)],
                      [('feed', 5, True), ('feed', 1, False), ('feed', 'line', True), ('feed', 'line', False)]):
            out.append(([ln, probe], pre + feeds + [('gate', False), ('feed', 'line', False), ('gate', False)]))
        out.append(([ln, ln, probe], pre + [('feed', 'all', False), ('gate', False), ('gate', False)]))
        out.append(([ln, probe], pre + [('feed', 'line', True), ('cut', 'none', False), ('feed', 'line', False)]))
        out.append(([ln, probe], pre + [('feed', 'line', False), ('cut', 'reset', False), ('feed', 'line', False), ('req', 2, False)]))
    for exc in ('none', 'reset'):
        for nd in (False, True):
            out.append(([L('resp', 0), L('resp', 1)], [('req', 1, False), ('req', 2, False), ('batch', 3, ('r', 'n', 'r'), False, False),
                                                        ('feed', 'line', nd), ('cut', exc, False), ('feed', 'line', False)]))
            out.append(([L('resp', 0)], [('batch', 1, ('r', 'r'), True, False), ('cut', exc, nd), ('req', 2, False), ('batch', 3, ('r',), False, False), ('notif',)]))
    # timeouts: only the request concerned; the late response is swallowed; out-of-order answers
    out.append(([L('resp', 1), L('resp', 0), L('resp', 2)], [('req', 1, True), ('req', 2, False), ('req', 3, True), ('timeout',), ('feed', 'line', False),
                                                             ('feed', 'line', False), ('timeout',), ('feed', 'line', False)]))
    out.append(([L('resp', 2), L('resp', 1), L('resp', 0), L('resp', 0)], [('req', 1, False), ('req', 2, False), ('req', 3, False), ('feed', 'line', False),
                                                                          ('feed', 'line', False), ('feed', 'all', False)]))
    out.append(([L('respbatch', items=[('ok', 1, ''), ('ok', 0, '')])], [('batch', 1, ('r', 'r'), False, True), ('timeout',), ('feed', 'line', False)]))
    # max_errors: three unknown ids close the session; errors of handlers count too
    out.append(([L('resp', 999999), L('resp', 999998), L('errresp', 999997), L('resp', 0)], [('req', 1, False), ('feed', 'line', False), ('feed', 'line', False), ('feed', 'all', False)]))
    out.append(([L('req', 50, 'rpcerr'), L('req', 51, 'exc'), L('req', 52, 'nometh'), L('req', 53, 'ok')], [('req', 1, False), ('feed', 'all', False)]))
    out.append(([L('reqbatch', items=[('req', 60, 'rpcerr'), ('req', 61, 'exc'), ('req', 62, 'nometh'), ('req', 63, 'ok')]), L('req', 53, 'ok')], [('feed', 'all', False)]))
    # slow handler: everything behind it waits (responses to our own requests too); a cut cancels it
    out.append(([L('req', 50, 'slow'), L('resp', 0), L('req', 51, 'ok')], [('req', 1, False), ('feed', 'all', False), ('notif',), ('gate', False)]))
    out.append(([L('req', 50, 'slow'), L('resp', 0)], [('req', 1, False), ('feed', 'all', False), ('cut', 'none', False), ('gate', False)]))
    out.append(([L('reqbatch', items=[('req', 60, 'slow'), ('req', 61, 'ok')]), L('resp', 0)], [('req', 1, False), ('feed', 'all', False), ('cut', 'reset', True), ('gate', False)]))
    # over-long lines under chunkings that do and do not trip the limit
    for feeds in ([('feed', 'line', False)], [('feed', 400, False), ('feed', 'line', False)], [('feed', 401, False), ('feed', 'line', False)],
                  [('feed', 200, False), ('feed', 200, False), ('feed', 1, False), ('feed', 'line', False)],
                  [('feed', 100, True), ('feed', 301, True), ('feed', 'all', False)]):
        out.append(([L('req', 50, 'ok'), dict(L('plain')), probe], [('req', 1, False), ('feed', 'line', False)] + feeds + [('feed', 'all', False)]))
    return out


def trace_cfg(switches=None):
    consts = dict(MAXSIZE=MAXSIZE, MAXERR=MAXERR, NCALL=NCALL, MAXLINES=0, MAXCHUNK=0, CAT='all', BARE=False, ENVCALLS=True, EMIT=False)
    consts.update(switches or AS_FOUND)
    consts.update(CONTROLS_OFF)
    return tlc.make_cfg(spec='TSpec', constants=consts, invariants=STATE_INVS + FOUND_INVS, properties=ACTION_PROPS,
                        constraint='Reached', postcondition='Report')


def classify_trace(tr, inv):
    """key of a clause broken by a real session"""
    kinds = {(ln['k'], ln['h']) for ln in tr['lines']} | {(it['t'], it['h']) for ln in tr['lines'] for it in ln['items']}
    fin = tr['final']
    if inv == 'NeverRaisesOut':
        if ('respbatch', 'mixed') in kinds and not any(h == 'unser' for _, h in kinds):
            return KEYS['sort']
        if any(h == 'unser' for _, h in kinds) and ('respbatch', 'mixed') not in kinds:
            return KEYS['unser']
        return KEYS['sort'] + '|' + KEYS['unser'] if any(h == 'unser' for _, h in kinds) else 'receive-task-died'
    if inv == 'LossFailsAsConnectionError':
        return KEYS['batchloss']
    if inv == 'LossFailsAllPending':
        cut = next((i for i, e in enumerate(tr['ev']) if e['e'] == 'cut' or e['o']['closing']), None)
        late = [e for i, e in enumerate(tr['ev']) if e['e'] == 'batch' and cut is not None and i >= cut]
        stuck = [c for c, st in enumerate(fin['call'], 1) if st['st'] == 'wait']
        if late and all(any(e['c'] == c for e in late) for c in stuck):
            return KEYS['batchafter']
        return 'pending-request-survives-connection-loss'
    return f'clause-{inv}'


def judge(ctx, traces, label):
    verdicts = tlc.validate_traces('JsonRpcTrace', trace_cfg(), traces, ctx, label=label, chunk=400)
    bad = 0
    for v in verdicts:
        tr = traces[v['tid']]
        if v['invariant']:
            key = classify_trace(tr, v['invariant'])
            for k in key.split('|'):
                ctx.violation(k, f"clause {v['invariant']} broken by a real session (event {v.get('inv_event')})", _slim(tr))
            bad += 1
        elif not v['accepted']:
            ctx.violation('real-session-not-a-behaviour-of-the-specification',
                          f"the real session cannot be followed by JsonRpc.tla beyond event {v['matched']} of {v['len']}: "
                          f"{_describe(tr, v['matched'])}", _slim(tr))
            bad += 1
    ctx.cov['traces_validated_against_impl'] += len(traces)
    return verdicts, bad


def _slim(tr):
    return {'lines': tr['lines'], 'ops': [{k: v for k, v in e.items() if k != 'o'} for e in tr['ev']], 'final': tr['final']}


def _describe(tr, matched):
    ev = tr['ev']
    i = min(matched, len(ev) - 1)
    prev = ev[i - 1] if i > 0 else None
    return (f"after {({k: v for k, v in prev.items() if k != 'o'}) if prev else 'start'} the session showed "
            f"{json.dumps(ev[i]['o'])[:900]}")


def guided_scenario(rng, cat):
    """callers first decided, then the peer answers THEIR ids: permuted, duplicated, wrong, batch parts reordered"""
    k = rng.randint(1, NCALL)
    cops, ids, nxt = [], [], 0
    order = list(range(1, NCALL + 1))
    rng.shuffle(order)
    for c in order[:k]:
        to = rng.random() < 0.15
        if rng.random() < 0.6:
            cops.append(('req', c, to))
            ids.append((nxt,))
            nxt += 1
        else:
            items, re = rng.choice([s for s in SHAPES if 'r' in s[0]])
            cops.append(('batch', c, items, re, to))
            nr = sum(1 for x in items if x == 'r')
            ids.append(tuple(range(nxt, nxt + nr)) + ('b',))
            nxt += nr
    lines = []
    for t in ids:
        if t[-1] != 'b':
            lines.append(L(rng.choice(['resp', 'resp', 'errresp', 'badresp']), t[0]))
        else:
            its = [(rng.choice(['ok', 'ok', 'err']), i, '') for i in t[:-1]]
            rng.shuffle(its)
            r = rng.random()
            if r < 0.1:
                its = its[:-1] or its
            elif r < 0.2:
                its[0] = ('bad',) + its[0][1:]
            lines.append(L('respbatch', h='mixed' if rng.random() < 0.06 else '', items=its))
    if lines and rng.random() < 0.3:
        lines.append(dict(rng.choice(lines)))
    if rng.random() < 0.3:
        lines.append(L('resp', 999999))
    for _ in range(rng.choice([0, 0, 1, 2])):
        lines.append(dict(rng.choice(cat)))
    rng.shuffle(lines)
    lines = lines[:5]
    first = rng.randint(0, len(cops))
    ops = cops[:first]
    rest = cops[first:] + [('feed', 'line' if rng.random() < 0.6 else rng.choice([1, 5, 17, 40, 41, 42, 80, 130, 'all']), rng.random() < 0.2)
                           for _ in range(len(lines) + 3)]
    rest += [('gate', False)] * 2 + [('timeout',)] * rng.choice([0, 1, 2]) + [('notif',)] * rng.choice([0, 0, 1])
    if rng.random() < 0.3:
        rest.append(('cut', rng.choice(['none', 'reset']), rng.random() < 0.3))
    rng.shuffle(rest)
    return lines, ops + rest + [('feed', 'all', False), ('gate', False)]


def leg_c(ctx):
    cat = catalogue()
    scen = [(ls, ops, 's') for ls, ops in scripted_scenarios(cat)]
    n_guided, n_random = (6000, 3000) if ctx.thorough else (900, 500)
    for _ in range(n_guided):
        scen.append(guided_scenario(ctx.rng, cat) + ('g',))
    for _ in range(n_random):
        scen.append(random_scenario(ctx.rng, cat, ctx.rng.randint(1, 4), ctx.rng.randint(4, 14)) + ('r',))
    traces, seen = [], set()
    for i, (lines, ops, src) in enumerate(scen):
        with watchdog(30):
            tr = run_scenario(lines, ops, i)
        sig = json.dumps([tr['lines'], [{k: v for k, v in e.items() if k != 'o'} for e in tr['ev']]], sort_keys=True)
        if sig in seen:
            continue
        seen.add(sig)
        traces.append(tr)
        fin = tr['final']
        ctx.count(sig, nontrivial=len(tr['ev']) >= 4 and (len(fin['out']) > 0 or any(c['st'] != 'idle' for c in fin['call'])))
        if src == 's' and i % 60 == 7:
            ctx.sample({'lines': tr['lines'], 'events': [{k: v for k, v in e.items() if k != 'o'} for e in tr['ev']], 'final': fin})
    verdicts, bad = judge(ctx, traces, 'JsonRpcTrace')
    hows = {}
    for tr in traces:
        for c in tr['final']['call']:
            if c['st'] != 'idle':
                hows[c['how'] or 'pending'] = hows.get(c['how'] or 'pending', 0) + 1
    kinds = {}
    for tr in traces:
        for e in tr['ev']:
            kinds[e['e']] = kinds.get(e['e'], 0) + 1
    # vacuity guard: every outcome / stimulus the clauses talk about occurred in the real sessions
    need = {'result', 'rpcerror', 'protoerr', 'batch', 'batcherror', 'refused', 'lost_timeout', 'lost_reset', 'timeout', 'attrerr', 'pending'}
    if need - set(hows) and not ctx.violations:
        raise MachineryError(f'Leg C never produced caller outcomes {sorted(need - set(hows))}')
    codes = {p['code'] for tr in traces for r in tr['final']['out'] for p in [r] + r['parts'] if p['t'] == 'error'}
    if {'PARSE', 'INVREQ', 'NOMETH', 'BADARGS', 'INTERNAL', 'APP'} - codes and not ctx.violations:
        raise MachineryError(f'Leg C never produced error codes {sorted({"PARSE", "INVREQ", "NOMETH", "BADARGS", "INTERNAL", "APP"} - codes)}')
    ctx.leg('C', real_sessions=len(traces), judged_by='JsonRpcTrace.tla (replayed through the actions of JsonRpc.tla, all clauses as invariants)',
            rejected_or_clause_broken=bad, caller_outcomes=hows, stimuli=kinds, error_codes_seen=sorted(codes))
    return traces


# ------------------------------------------------------------------------------------------------ Leg A

def model_cfg(cat, *, ncall=1, maxlines=2, maxchunk=0, bare=False, switches=REFERENCE, controls=None, invariants=(), properties=(),
              spec='Spec', emit=False, constraint=None):
    consts = dict(MAXSIZE=2, MAXERR=2, NCALL=ncall, MAXLINES=maxlines, MAXCHUNK=maxchunk, CAT=cat, BARE=bare, ENVCALLS=not bare, EMIT=emit)
    consts.update(switches)
    consts.update(CONTROLS_OFF)
    consts.update(controls or {})
    return tlc.make_cfg(spec=spec, constants=consts, invariants=list(invariants), properties=list(properties), constraint=constraint)


FRAME_INVS = ['OneMessagePerLine', 'AllLinesDelivered', 'OverlongRefused', 'BufferBounded']
WITNESSES = {
    'frame': ['WRefused', 'WLongDelivered', 'WMsg'],
    'resp': ['WResult', 'WRpcError', 'WProtoErr', 'WUnknown', 'WLostTimeout', 'WLostReset', 'WRefusedCall', 'WTimeoutLate', 'WOutOfOrder',
             'WLostWhilePending', 'WErrorsClose'],
    'rbatch': ['WBatch', 'WBatchError'],
    'req': ['WReqAnswered', 'WNoMeth', 'WBadArgs', 'WInternal', 'WApp', 'WSlowBlocked'],
    'err': ['WParse', 'WInvReq', 'WParseClose'],
    'mix': ['WRefused', 'WLongDelivered'],
    'qbatch': ['WBatchOut'],
}


def leg_a_jobs(ctx):
    """(label, cfg, kwargs, expectation): expectation 'ok' or the set of names that must be reported violated"""
    th = ctx.thorough
    allinv = STATE_INVS + FOUND_INVS
    jobs = []
    jobs.append(('bare framer, every stream of 3 lines (lengths 0..max_size+2) under every chunking',
                 model_cfg('frame', bare=True, maxlines=3, maxchunk=15, invariants=FRAME_INVS), {}, 'ok'))
    for w in WITNESSES['frame']:
        jobs.append((f'witness {w} (bare framer)', model_cfg('frame', bare=True, maxlines=2, maxchunk=9, invariants=[w]), {}, {w}))
    jobs.append(('NEGATIVE CONTROL framer keeps the over-long data (NORESET)',
                 model_cfg('frame', bare=True, maxlines=2, maxchunk=9, controls={'NORESET': True}, invariants=['BufferBounded']), {}, {'BufferBounded'}))
    sizes = {'resp': dict(ncall=2, maxlines=2), 'req': dict(ncall=1, maxlines=3 if th else 2), 'err': dict(ncall=1, maxlines=3 if th else 2),
             'rbatch': dict(ncall=2 if th else 1, maxlines=2), 'qbatch': dict(ncall=1, maxlines=2),
             'mix': dict(ncall=1, maxlines=2, maxchunk=5 if th else 3)}
    runs = list(sizes.items()) + ([('resp', dict(ncall=1, maxlines=3)), ('all', dict(ncall=1, maxlines=2))] if th else [])
    for cat, kw in runs:
        jobs.append((f'session, catalogue {cat}, reference switches: every clause', model_cfg(cat, invariants=allinv, properties=ACTION_PROPS, **kw), {}, 'ok'))
        jobs.append((f'session, catalogue {cat}, as found: every clause but the recorded ones',
                     model_cfg(cat, switches=AS_FOUND, invariants=STATE_INVS, properties=ACTION_PROPS, **kw), {}, 'ok'))
    small = dict(ncall=1, maxlines=2)
    for inv in FOUND_INVS:
        jobs.append((f'as found, response batches: the recorded clause {inv} IS broken',
                     model_cfg('rbatch', switches=AS_FOUND, invariants=[inv], **small), {}, {inv}))
    jobs.append(('as found, requests: the unserialisable result kills the receive task',
                 model_cfg('req', switches=AS_FOUND, invariants=['NeverRaisesOut'], **small), {}, {'NeverRaisesOut'}))
    for cat in ('resp', 'rbatch', 'req', 'err', 'qbatch', 'mix'):
        for w in WITNESSES[cat]:
            jobs.append((f'witness {w} (catalogue {cat})', model_cfg(cat, invariants=[w], ncall=2 if cat in ('resp',) else 1, maxlines=2, maxchunk=3 if cat == 'mix' else 0), {}, {w}))
    jobs.append(('NEGATIVE CONTROL responses matched by arrival order (BYORDER)',
                 model_cfg('resp', ncall=2, maxlines=2, controls={'BYORDER': True}, invariants=['RightCaller']), {}, {'RightCaller'}))
    jobs.append(('NEGATIVE CONTROL pending requests not failed on loss (NOFAIL)',
                 model_cfg('resp', ncall=1, maxlines=1, controls={'NOFAIL': True}, invariants=['LossFailsAllPending']), {}, {'LossFailsAllPending'}))
    jobs.append(('liveness under fairness, reference: a request whose response arrived completes',
                 model_cfg('rbatch', spec='FairSpec', properties=['Completes'], **small), {}, 'ok'))
    jobs.append(('liveness under fairness, as found: broken by the dead receive task',
                 model_cfg('rbatch', spec='FairSpec', switches=AS_FOUND, properties=['Completes'], **small), {}, {'Completes'}))
    return jobs


def leg_a(ctx, pool):
    futs = []
    for label, cfg, kw, expect in leg_a_jobs(ctx):
        kw = dict(kw)
        futs.append((label, expect, pool.submit(tlc.run, 'JsonRpc', cfg, ctx, workers=3, coverage=False, timeout=300,
                                                 label='A%d' % len(futs), **kw)))
    return futs


def leg_a_collect(ctx, futs):
    runs = []
    for label, expect, f in futs:
        res = f.result()
        ctx.add_tlc(res, label)
        runs.append({'run': label, 'states': res.distinct, 'wall_s': round(res.wall, 1), 'expected': 'holds' if expect == 'ok' else sorted(expect)})
        got = set(res.violated) - {'<temporal>'}
        if expect == 'ok':
            if not res.ok:
                ctx.violation('model:' + ','.join(sorted(got) or ['?']), f'Leg A "{label}": the specification breaks {sorted(got)} (deadlock={res.deadlock})',
                              res.error_trace[:6000])
        else:
            if not expect <= got:
                raise MachineryError(f'Leg A "{label}": expected {sorted(expect)} to be reported violated, got {sorted(got)} (vacuous clause or dead control)')
    ctx.leg('A', runs=runs, clauses=STATE_INVS + FOUND_INVS + ACTION_PROPS + ['Completes (liveness)'], framer_clauses=FRAME_INVS,
            statement_clauses_broken_as_found=FOUND_INVS + ['Completes', 'OverlongAlwaysRefused (restated, D1)'], notes=NOTES)


# ------------------------------------------------------------------------------------------------ Leg B (bare framer)

def run_framer_case(case, scale, slack, eager):
    rs, rj, rf = _imports()
    lens, chunks = case['lens'], case['chunks']
    loop = DetLoop()
    with loop:
        asyncio.set_event_loop(loop)
        fr = rf.NewlineFramer(max_size=2 * scale + slack)
    content = [bytes([64 + n]) * (ln * scale) for n, ln in enumerate(lens, 1)]
    stream = b''.join(c + b'\n' for c in content)
    sym = []                       # symbol -> number of bytes
    for ln in lens:
        sym += [scale] * ln + [1]
    log = []

    async def consume():
        while True:
            try:
                m = await fr.receive_message()
                log.append(content.index(m) + 1 if m in content and (m or True) else 0)
            except MemoryError:
                log.append(-1)

    # identical contents (two lines of equal length) are told apart by position: use distinct letters per line, so index() is exact
    t = loop.spawn(consume())
    pos = si = 0
    for j in chunks:
        nb = sum(sym[si:si + j])
        si += j
        with loop:
            fr.received_bytes(stream[pos:pos + nb])
        pos += nb
        if eager:
            loop.drain(limit=10000)
    with watchdog(10):
        loop.drain(limit=10000)
    t.cancel()
    loop.drain(limit=1000)
    return log


def leg_b(ctx):
    th = ctx.thorough
    cfg = model_cfg('frame', bare=True, maxlines=3 if th else 2, maxchunk=4 if th else 9, emit=True, constraint='Emit', invariants=FRAME_INVS)
    res = tlc.run('JsonRpc', cfg, ctx, workers=1, coverage=False, timeout=900, label='B-emit')
    ctx.add_tlc(res, 'bare framer: every stream x chunking emitted with the messages / refusals computed in TLA+')
    if not res.ok:
        raise MachineryError(f'emission run failed: {res.violated}')
    cases = tlc.printed_json(res, 'CASE')
    if len(cases) < 1000:
        raise MachineryError(f'only {len(cases)} framer cases emitted')
    n = mism = refused = 0
    for ci, case in enumerate(cases):
        # empty lines all have the same (empty) content: the comparison is on positions, so number them by order of arrival
        for scale, slack, eager in ((1, 0, True), (3, 2, False), (7, 0, True)) if th and ci % 8 == 0 else ((1, 0, True),) if th else ((1, 0, True), (3, 2, False)):
            got = run_framer_case(case, scale, slack, eager)
            want = case['log']
            # messages are compared by content: lines of equal length have different letters, empty lines are all b''
            norm = lambda lg: [(-1 if x == -1 else case['lens'][x - 1] * 100 + (x if case['lens'][x - 1] else 0)) for x in lg]   # noqa: E731
            n += 1
            ctx.count((tuple(case['lens']), tuple(case['chunks']), scale, slack, eager), nontrivial=len(case['chunks']) >= 2)
            if norm(got) != norm(want):
                mism += 1
                key = 'framer:overlong' if any(ln > 2 for ln in case['lens']) else 'framer:line-not-one-message'
                ctx.violation(key, f"NewlineFramer(max_size={2 * scale + slack}) on lines of {[x * scale for x in case['lens']]} bytes in chunks of "
                                   f"{case['chunks']} symbols gave {got}, specified {want} (n = n-th line, -1 = MemoryError)", dict(case, scale=scale, got=got))
        refused += -1 in case['log']
    ctx.sample({'framer_case': cases[len(cases) // 2]})
    ctx.leg('B', framer_cases=len(cases), real_runs=n, with_refusal=refused, mismatches=mism)


# ------------------------------------------------------------------------------------------------ run

def run(ctx):
    pool = ThreadPoolExecutor(max_workers=6)
    futs = leg_a(ctx, pool) if not os.environ.get('G10_SKIP_A') else []      # (development: mutant runs only need the binding legs)
    leg_b(ctx)
    leg_c(ctx)
    leg_a_collect(ctx, futs)
    pool.shutdown()
    ctx.cov['rule'] = ('Leg A: every state of JsonRpc.tla per catalogue of peer lines (2-3 lines, 1-2 callers, all stimuli incl. cuts and timeouts at every '
                       'step), bare framer under every chunking. Leg B: every (stream, chunking) TLC emits x byte scales, on the real NewlineFramer. '
                       'Leg C: scripted (every catalogue line x 7 contexts), guided (peer answers the callers\' ids permuted / duplicated / wrong) and random '
                       'real sessions, each judged by TLC. Distinct = distinct (lines, stimuli) / (stream, chunking, scale); non-trivial = at least 4 events '
                       'with something written or a caller involved / at least 2 chunks.')
    ctx.assumptions += [
        'the transport never pauses writing (pause_writing / _limited_wait not exercised); FakeTransport.close() schedules connection_lost(None) like a real transport',
        'observation is through the public API (what callers get, bytes on the transport parsed by the driver\'s own splitter + json.loads, handler '
        'invocations, session.errors, is_closing(), connection.pending_requests()); the one private read is session._pm_task (done with an exception?) '
        'to tell a dead receive task from a blocked one',
        'JSON-RPC 2.0 sessions (the default JSONRPCv2 connection, the only one lbry uses); v1 / Loose / AutoDetect are not bound',
        'handlers are dispatched with the real handler_invocation; ids of our requests are learnt from the wire (process-wide counter, calibrated through a throw-away connection)',
        'timeouts are the caller\'s asyncio.wait_for in virtual time (D6)',
    ]
    ctx.cov['notes'] = NOTES
