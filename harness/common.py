"""Shared plumbing for every check: context, violations / known findings, evidence, scratch space.

Exit codes (DESIGN 3.6): 0 = property held on everything explored (KNOWN-FINDING lines allowed),
1 = violation (a `VIOLATION property=<id> replay=<path>` line was printed), 2 = machinery failure.
"""
import atexit
import json
import os
import random
import shutil
import signal
import sys
import tempfile
import time
import traceback

VERIF = os.path.dirname(os.path.dirname(os.path.abspath(__file__)))
REPO = os.environ.get('VERIF_REPO', '/repo')
SPECS = os.path.join(VERIF, 'specs')
EVIDENCE = os.environ.get('VERIF_EVIDENCE_DIR') or os.path.join(VERIF, 'evidence')   # redirected by mutant runs only
REPLAYS = os.path.join(EVIDENCE, 'replays')
FINDINGS_FILE = os.path.join(VERIF, 'known_findings.json')


class MachineryError(Exception):
    """The check itself is broken (TLC missing, schema error, vacuous coverage...). Exit 2."""


class Hang(BaseException):
    """Raised into a synchronous call that exceeded its wall-clock watchdog."""


class watchdog:
    """`with watchdog(2.0): call()` raises Hang inside `call` if it does not return in time."""

    def __init__(self, seconds):
        self.seconds = seconds

    def _fire(self, *_):
        raise Hang(f'no return within {self.seconds}s')

    def __enter__(self):
        self.old = signal.signal(signal.SIGALRM, self._fire)
        signal.setitimer(signal.ITIMER_REAL, self.seconds)
        return self

    def __exit__(self, *exc):
        signal.setitimer(signal.ITIMER_REAL, 0)
        signal.signal(signal.SIGALRM, self.old)
        return False


def load_findings():
    if not os.path.exists(FINDINGS_FILE):
        return []
    with open(FINDINGS_FILE) as f:
        return json.load(f)['findings']


class Ctx:
    def __init__(self, prop, tier='quick', seed=None, level='model_checking', replay=None):
        self.prop = prop
        self.tier = tier
        self.seed = int(seed if seed is not None else os.environ.get('VERIF_SEED', '0') or 0)
        self.level = level
        self.replay = replay
        self.rng = random.Random(self.seed)
        self.t0 = time.time()
        self.tmp = tempfile.mkdtemp(prefix=f'verif-{prop}-')
        atexit.register(shutil.rmtree, self.tmp, ignore_errors=True)
        self.known = [f for f in load_findings() if f['property'] == prop and f['status'] == 'known']
        self.known_hit = {}
        self.violations = []
        self.cov = {
            'evaluations': 0, 'distinct_nontrivial': 0, 'rule': '', 'samples': [],
            'states': 0, 'transitions': 0, 'traces_validated_against_impl': 0,
            'tlc_runs': [], 'legs': {}, 'exhaustive': False,
        }
        self.assumptions = []
        self._distinct = set()
        self._nviol_files = 0

    # ---- scratch
    def mkdir(self, name):
        p = os.path.join(self.tmp, name)
        os.makedirs(p, exist_ok=True)
        return p

    @property
    def thorough(self):
        return self.tier == 'thorough'

    # ---- counting
    def count(self, case_key=None, nontrivial=True, n=1):
        """one evaluation against the implementation; case_key identifies a distinct case"""
        self.cov['evaluations'] += n
        if case_key is not None and nontrivial:
            self._distinct.add(case_key if isinstance(case_key, (str, int, tuple)) else json.dumps(case_key, sort_keys=True, default=str))

    def sample(self, obj, cap=6):
        if len(self.cov['samples']) < cap:
            self.cov['samples'].append(obj)

    def leg(self, name, **kw):
        d = self.cov['legs'].setdefault(name, {})
        for k, v in kw.items():
            if isinstance(v, (int, float)) and not isinstance(v, bool) and isinstance(d.get(k), (int, float)):
                d[k] += v
            else:
                d[k] = v

    def add_tlc(self, res, label):
        self.cov['states'] += res.distinct
        self.cov['transitions'] += res.generated
        self.cov['tlc_runs'].append({
            'label': label, 'distinct_states': res.distinct, 'states_generated': res.generated,
            'depth': res.depth, 'wall_s': round(res.wall, 2), 'mode': res.mode,
            'actions': res.coverage, 'cmd': res.cmd,
        })

    # ---- violations
    def violation(self, key, what, replay_obj=None):
        """key: the specific failing input / call site / history signature.
        Returns True if it is an unlisted violation."""
        for f in self.known:
            if f['key'] == key:
                if key not in self.known_hit:
                    self.known_hit[key] = 0
                    print(f"KNOWN-FINDING: property={self.prop} {f['description']}", flush=True)
                self.known_hit[key] += 1
                return False
        self._nviol_files += 1
        newkey = all(v['key'] != key for v in self.violations)
        if self._nviol_files <= 20 or (newkey and self._nviol_files <= 400):
            os.makedirs(REPLAYS, exist_ok=True)
            path = os.path.join(REPLAYS, f'{self.prop}-{self.tier}-{self._nviol_files}.json')
            with open(path, 'w') as f:
                json.dump({'property': self.prop, 'key': key, 'what': what, 'seed': self.seed,
                           'replay': replay_obj}, f, indent=1, default=_default)
            print(f'VIOLATION property={self.prop} replay={path}', flush=True)
            print(f'  key={key}: {what}', flush=True)
        self.violations.append({'key': key, 'what': what})
        return True

    # ---- finish
    def finish(self, explanation=None):
        cov = self.cov
        cov['distinct_nontrivial'] = len(self._distinct)
        cov['known_findings_hit'] = self.known_hit
        if explanation:
            cov['explanation'] = explanation
        ev = {
            'property_id': self.prop, 'tier': self.tier, 'seed': self.seed, 'level': self.level,
            'coverage': cov, 'assumptions': self.assumptions,
            'wall_s': round(time.time() - self.t0, 2), 'violations': len(self.violations),
        }
        os.makedirs(EVIDENCE, exist_ok=True)
        tmp = os.path.join(EVIDENCE, f'.{self.prop}.json.tmp')
        with open(tmp, 'w') as f:
            json.dump(ev, f, indent=1, default=_default)
        os.replace(tmp, os.path.join(EVIDENCE, f'{self.prop}.json'))
        vio = len(self.violations)
        if vio:
            import collections
            for k, n in collections.Counter(v['key'] for v in self.violations).most_common(40):
                print(f'  violations[{k}] = {n}', flush=True)
        print(f'{self.prop} [{self.tier}] evaluations={cov["evaluations"]} distinct={cov["distinct_nontrivial"]} '
              f'tlc_states={cov["states"]} traces={cov["traces_validated_against_impl"]} '
              f'violations={vio} known_hits={sum(self.known_hit.values())} wall={ev["wall_s"]}s', flush=True)
        return 1 if vio else 0


def _default(o):
    if isinstance(o, (bytes, bytearray)):
        return {'hex': bytes(o).hex()}
    if isinstance(o, (set, frozenset)):
        return sorted(o, key=repr)
    return repr(o)


def main(run, prop, level='model_checking'):
    import argparse
    ap = argparse.ArgumentParser()
    ap.add_argument('--tier', default=os.environ.get('VERIF_TIER', 'quick'), choices=['quick', 'thorough'])
    ap.add_argument('--replay')
    ap.add_argument('--seed', type=int)
    args = ap.parse_args(sys.argv[2:] if len(sys.argv) > 1 and sys.argv[1] == prop else sys.argv[1:])
    ctx = Ctx(prop, args.tier, args.seed, level, args.replay)
    try:
        run(ctx)
        rc = ctx.finish()
    except MachineryError as e:
        if ctx.violations:
            # violations were found before the machinery gave up: they stand (exit 1), the failure is reported next to them
            print(f'NOTE: the run ended early with a machinery failure after violations had been found: {str(e)[:300]}', flush=True)
            rc = ctx.finish()
        else:
            print(f'MACHINERY-FAILURE property={prop}: {e}', flush=True)
            rc = 2
    except Exception:
        traceback.print_exc()
        print(f'MACHINERY-FAILURE property={prop}: harness exception', flush=True)
        rc = 2
    sys.stdout.flush()
    sys.exit(rc)
