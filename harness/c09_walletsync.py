"""C09 -- wallet sync convergence.
Leg A: WalletSync.tla exhaustively (update_history await by await, two addresses, the fund / spend-to-other / re-spend
       chain added at arbitrary moments, every notification order and interleaving of up to six tasks) with a
       reachability witness for quiescence.
Leg C: seeded server chains of REAL raw transactions served by a fake network to a real Ledger / sqlite Database /
       Account under DetLoop; the driver picks the notification order and which pending network reply or database job
       completes next; every quiescent point is judged by TLC against WalletSyncTrace.tla (expected spendable set and
       balances computed in TLA+ from the logged chain)."""
import hashlib
import os
import shutil
from binascii import hexlify

from . import tlc
from .common import MachineryError, watchdog
from .detloop import DetLoop

INVS = ['HistoryConverged', 'UtxoConverged']
TINVS = ['NoSyncFailure', 'HistoryConverged', 'UtxoConverged', 'BalanceConverged', 'ClaimsApart', 'GapMaintained']
SEED = "carbon smart garage balance margin twelve chest sword toast envelope bottom stomach absent"


def leg_a(ctx):
    cfg = ('SPECIFICATION Spec\nCONSTANTS\n  ADDRS = {"a1", "a2"}\n  NTX = 3\n  TX <- Txs\n'
           'INVARIANT HistoryConverged\nINVARIANT UtxoConverged\nPROPERTY NeverLoseTx\nCHECK_DEADLOCK FALSE\n')
    res = tlc.run('MCWalletSync', cfg, ctx, timeout=1800, label='WalletSync-MC')
    ctx.add_tlc(res, 'WalletSync exhaustive: 2 addresses, chain fund a1 -> spend to a2+ext -> re-spend to a1, <= 6 tasks')
    if res.violated:
        ctx.violation('model:' + res.violated[0], f'model property {res.violated[0]} violated', res.error_trace[:6000])
        return
    tlc.require_coverage(res, ['ServerAdd', 'Spawn', 'Lock', 'Local', 'GetHist', 'Sync', 'Save', 'SetHist'], 'WalletSync')
    w = tlc.run('MCWalletSync', cfg.replace('INVARIANT HistoryConverged\nINVARIANT UtxoConverged\nPROPERTY NeverLoseTx\n', 'INVARIANT QuiescentUnreachable\n'),
                ctx, coverage=False, timeout=900, label='WalletSync-witness', workers=8)
    if 'QuiescentUnreachable' not in w.violated:
        raise MachineryError('quiescence is not reachable in the model: convergence invariants would hold vacuously')
    # gap maintenance under concurrency: WalletGap.tla, every gap-connected funded set, every interleaving
    gcfg = ('SPECIFICATION Spec\nCONSTANTS\n  GAP = {}\n  MAXN = 7\n  FINALGAP = {}\nINVARIANT FoundWithinGap\nINVARIANT GapMaintained\nCHECK_DEADLOCK FALSE\n')
    for gap in (2, 3):
        g = tlc.run('WalletGap', gcfg.format(gap, 'TRUE'), ctx, timeout=900, label=f'WalletGap-{gap}', workers=8)
        ctx.add_tlc(g, f'WalletGap exhaustive GAP={gap}, addresses 0..7, every gap-connected funded set')
        if g.violated:
            ctx.violation('model:gap:' + g.violated[0], f'gap model invariant {g.violated[0]} violated', g.error_trace[:6000])
            return
        tlc.require_coverage(g, ['Save', 'SetHist', 'GRead', 'GGen'], 'WalletGap')
    neg = tlc.run('WalletGap', gcfg.format(2, 'FALSE'), ctx, coverage=False, timeout=600, label='WalletGap-neg', workers=4)
    if not neg.violated:
        raise MachineryError('negative control failed: without the final ensure gap of every update the gap model should be refuted')
    for wname in ('W_Quiescent', 'W_Transient'):
        wr = tlc.run('WalletGap', gcfg.format(2, 'TRUE').replace('INVARIANT FoundWithinGap\nINVARIANT GapMaintained\n', f'INVARIANT {wname}\n'),
                     ctx, coverage=False, timeout=600, label=wname, workers=4)
        if wname not in wr.violated:
            raise MachineryError(f'reachability witness {wname} not reached')
    ctx.leg('A', invariants=INVS + ['NeverLoseTx', 'FoundWithinGap', 'GapMaintained'], witness='Quiescent reachable; transient used_times=0 observed by a concurrent ensure gap',
            negative_control='no final ensure gap refutes the gap model')


# ------------------------------------------------------------------------------------------------- fake server

class _Stream:
    def listen(self, *a, **k):
        pass


class Server:
    """the wallet server: an append-only list of transactions with heights; histories per address"""

    def __init__(self):
        self.txs = []           # dicts: tx (Transaction), height, touches (set of addresses)

    def add(self, tx, height, touches):
        self.txs.append({'tx': tx, 'height': height, 'touches': set(touches)})

    def history(self, address):
        items = [(i, t) for i, t in enumerate(self.txs) if address in t['touches']]
        conf = sorted([x for x in items if x[1]['height'] > 0], key=lambda x: (x[1]['height'], x[0]))
        mem = [x for x in items if x[1]['height'] <= 0]
        return [(t['tx'].id, t['height']) for _, t in conf + mem]

    def status(self, address):
        h = ''.join(f'{txid}:{height}:' for txid, height in self.history(address))
        return hashlib.sha256(h.encode()).hexdigest() if h else None


def make_chain_headers(server, enabled):
    """the wallet's validated header chain as far as SPV needs it: the real Headers class with its length and per-height
    lookup taken from the driver's chain - one transaction per block, so the block's Merkle root is the txid and the proof
    is the empty branch (header validation itself is C07's subject, proofs are C08's)"""
    from lbry.wallet import Headers

    class ChainHeaders(Headers):
        def __bool__(self):
            return True

        def __len__(self):
            if not enabled:
                return 0
            return max([t['height'] for t in server.txs] + [0]) + 1

        @property
        def height(self):
            return len(self) - 1

        async def get(self, height):
            for t in server.txs:
                if t['height'] == height:
                    return {'merkle_root': t['tx'].id.encode(), 'block_height': height, 'timestamp': 1_600_000_000 + height}
            return {'merkle_root': b'00' * 32, 'block_height': height, 'timestamp': 1_600_000_000 + height}
    return ChainHeaders(':memory:')


class FakeNet:
    is_connected = True
    client = None
    on_header = _Stream()
    on_status = _Stream()

    def __init__(self, loop, server):
        self.loop = loop
        self.server = server
        self.pending = []       # (future, thunk): replies the driver has not delivered yet
        self.subscribed = set()

    def _reply(self, thunk):
        fut = self.loop.create_future()
        self.pending.append((fut, thunk))
        return fut

    async def retriable_call(self, f, *a, **k):
        return await f(*a, **k)

    async def subscribe_address(self, address, *addresses):
        addrs = [address, *addresses]

        def thunk():
            self.subscribed.update(addrs)
            return [self.server.status(a) for a in addrs]
        return await self._reply(thunk)

    async def unsubscribe_address(self, address):
        self.subscribed.discard(address)

    async def get_history(self, address):
        return await self._reply(lambda: [{'tx_hash': txid, 'height': h} for txid, h in self.server.history(address)])

    async def get_transaction_batch(self, txids, restricted=True):
        def thunk():
            by_id = {t['tx'].id: t for t in self.server.txs}
            return {txid: (hexlify(by_id[txid]['tx'].raw).decode(), {'merkle': [], 'pos': 0, 'block_height': by_id[txid]['height']})
                    for txid in txids}
        return await self._reply(thunk)

    async def get_merkle(self, *a, **k):
        return await self._reply(lambda: {})

    def resolve(self, i):
        fut, thunk = self.pending.pop(i)
        if not fut.cancelled():
            fut.set_result(thunk())


# ------------------------------------------------------------------------------------------------- world

THIRD_PARTY = ['p2pkh', 'p2sh', 'claim-foreign', 'channel-foreign', 'support-foreign', 'purchase', 'op_return0', 'op_return1', 'op_return2',
               'multisig', 'witness0', 'witness1', 'empty', 'random', 'truncated-pushdata2', 'truncated-pushdata4']


class World:
    def __init__(self, ctx, k, rng, gap):
        import lbry.wallet  # noqa: F401
        from lbry.wallet import Ledger, Database, Headers, Account, Wallet
        self.rng = rng
        self.dir = ctx.mkdir(f'c09-{k}')
        self.loop = DetLoop()
        self.server = Server()
        self.net = FakeNet(self.loop, self.server)
        self.gap = gap
        # in most worlds the wallet holds the headers, so confirmed transactions verify (as on a real network)
        self.verifying = rng.random() < 0.7
        with self.loop:
            self.ledger = Ledger({'db': Database(os.path.join(self.dir, 'blockchain.db')), 'headers': make_chain_headers(self.server, self.verifying),
                                  'network': self.net})
        self._drain_all(lambda: self.loop.spawn(self.ledger.db.open()))
        self._drain_all(lambda: self.loop.spawn(self.ledger.headers.open()))
        with self.loop:
            self.account = Account.from_dict(self.ledger, Wallet(), {
                'seed': SEED, 'address_generator': {'name': 'deterministic-chain',
                                                    'receiving': {'gap': gap[0], 'maximum_uses_per_address': 1},
                                                    'change': {'gap': gap[1], 'maximum_uses_per_address': 1}}})
        self.failures = []
        orig = self.ledger.update_history

        async def observed(*a, **kw):
            try:
                return await orig(*a, **kw)
            except Exception as e:  # pylint: disable=broad-except
                self.failures.append(f'{type(e).__name__}: {e}')
                raise
        self.ledger.update_history = observed
        self.notifications = []       # (address, status) queued by the server, not yet delivered
        self.height = 10
        self.nfund = 0
        self.abstract = []            # per server tx: {'height', 'ins': [[t,k]], 'outs': [{'a','amt','kind'}]}
        self.paid_max = {0: -1, 1: -1}

    # -- plumbing
    def _drain_all(self, start):
        t = start()
        self.loop.drain(jobs=True, timers=False, limit=2_000_000, stop=t.done)
        return t.result()

    def address(self, chain, n):
        return self.account.address_managers[chain].get_public_key(n).address

    def addr_table(self):
        """driver's own numbering of wallet addresses: every (chain, n) up to what was paid + gap / what the wallet generated"""
        rows = self._query("select chain, n, address, used_times, history from pubkey_address join account_address using (address) order by chain, n")
        gen = {0: 0, 1: 0}
        for r in rows:
            gen[r['chain']] = max(gen[r['chain']], r['n'] + 1)
        table = []
        for chain in (0, 1):
            top = max(gen[chain], self.paid_max[chain] + 1)
            for n in range(top):
                table.append((chain, n, self.address(chain, n)))
        return table, rows

    def _query(self, sql):
        import sqlite3
        conn = sqlite3.connect(os.path.join(self.dir, 'blockchain.db'))
        conn.row_factory = sqlite3.Row
        try:
            return [dict(r) for r in conn.execute(sql)]
        finally:
            conn.close()

    # -- chain building
    def third_party(self, kind):
        from lbry.wallet.transaction import Output
        from lbry.wallet.script import OutputScript
        from lbry.schema.claim import Claim
        from lbry.schema.purchase import Purchase
        rng = self.rng
        h20 = bytes(rng.getrandbits(8) for _ in range(20))
        amt = rng.choice([0, 1, 1000, 123456])
        if kind == 'p2pkh':
            return Output.pay_pubkey_hash(amt, h20)
        if kind == 'p2sh':
            return Output.pay_script_hash(amt, h20)
        if kind == 'claim-foreign':
            return Output.pay_claim_name_pubkey_hash(amt, 'foreign', Claim(), h20)
        if kind == 'channel-foreign':
            # somebody else's channel, with whatever they chose to put where the public key belongs
            c = Claim()
            c.channel.title = 'theirs'
            c.channel.public_key_bytes = rng.choice([b'', bytes(rng.getrandbits(8) for _ in range(rng.choice([5, 32, 33, 88, 91]))),
                                                     b'\x30\x03\x02\x01\x01'])
            return Output.pay_claim_name_pubkey_hash(amt, '@foreign', c, h20)
        if kind == 'support-foreign':
            return Output.pay_support_pubkey_hash(amt, 'foreign', 'ab' * 20, h20)
        if kind == 'purchase':
            o = Output.add_purchase_data(Purchase('cd' * 20))
            o.amount = 0
            return o
        raw = {
            'op_return0': b'\x6a', 'op_return1': b'\x6a\x04abcd', 'op_return2': b'\x6a\x02ab\x02cd',
            'multisig': b'\x51\x21' + b'\x02' * 33 + b'\x21' + b'\x03' * 33 + b'\x52\xae',
            'witness0': b'\x00\x14' + h20, 'witness1': b'\x51\x20' + h20 + h20[:12],
            'truncated-pushdata2': b'\x4d\x01', 'truncated-pushdata4': b'\x4e\x01\x02',
            'empty': b'', 'random': bytes(rng.getrandbits(8) for _ in range(rng.randrange(1, 30))),
        }[kind]
        return Output(amt, OutputScript(raw))

    def wallet_output(self, chain, n, amount, kind):
        from lbry.wallet.transaction import Output
        from lbry.schema.claim import Claim
        addr = self.address(chain, n)
        ph = self.ledger.address_to_hash160(addr)
        self.paid_max[chain] = max(self.paid_max[chain], n)
        if kind == 'pay':
            return Output.pay_pubkey_hash(amount, ph), addr
        if kind == 'claim':
            from lbry.wallet.script import OutputScript
            v = self.rng.choice(['stream', 'stream', 'channel', 'undecodable', 'empty', 'update'])
            c = Claim()
            if v == 'channel':
                c.channel.title = 'c'
                c.channel.public_key_bytes = self.rng.choice([b'', b'\x02' + bytes(self.rng.getrandbits(8) for _ in range(32)),
                                                              bytes(self.rng.getrandbits(8) for _ in range(88))])
            else:
                c.stream.title = 'x'
            if v in ('stream', 'channel'):
                return Output.pay_claim_name_pubkey_hash(amount, 'mine', c, ph), addr
            if v == 'update':
                return Output.pay_update_claim_pubkey_hash(amount, 'mine', 'ab' * 20, c, ph), addr
            # value locked under a claim name whose payload is not a claim this release can decode: locked all the same
            payload = b'' if v == 'empty' else bytes(self.rng.getrandbits(8) | 0x80 for _ in range(self.rng.randrange(1, 40)))
            return Output(amount, OutputScript.pay_claim_name_pubkey_hash(b'mine', payload, ph)), addr
        return Output.pay_support_pubkey_hash(amount, 'mine', 'ef' * 20, ph), addr

    def pick_target(self):
        """an address index within the gap beyond the last used one of a chain (incl. exactly the last one allowed)"""
        rng = self.rng
        chain = 0 if rng.random() < 0.7 else 1
        used_max = self.paid_max[chain]
        top = used_max + self.gap[chain]            # last index the wallet must be watching
        r = rng.random()
        if r < 0.3:
            n = top
        elif r < 0.5 and used_max >= 0:
            n = rng.randrange(0, used_max + 1)
        else:
            n = rng.randrange(0, top + 1)
        return chain, max(0, n)

    def add_tx(self, spend_from=(), mempool=False):
        """one server transaction: spends the given wallet outputs (or an external one), pays wallet and third-party outputs"""
        from lbry.wallet.transaction import Transaction, Input, TXORef, TXRefImmutable, InputScript
        rng = self.rng
        tx = Transaction()
        ins_abs, touches = [], set()
        if spend_from:
            for (ti, k) in spend_from:
                src = self.server.txs[ti]['tx']
                tx.add_inputs([Input.spend(src.outputs[k])])
                ins_abs.append([ti + 1, k + 1])
                a = self.abstract[ti]['outs'][k].get('addr')
                if a:
                    touches.add(a)
        else:
            self.nfund += 1
            salt = hashlib.sha256(f'ext{self.nfund}:{rng.random()}'.encode()).digest()
            tx.add_inputs([Input(TXORef(TXRefImmutable.from_hash(salt, 5), 0), InputScript.redeem_pubkey_hash(b'\x30' * 71, b'\x02' * 33))])
            ins_abs.append([0, 1])
        pairs = []
        for _ in range(rng.choice([1, 1, 2, 3])):
            chain, n = self.pick_target()
            kind = rng.choice(['pay', 'pay', 'pay', 'pay', 'claim', 'support'])
            amount = rng.randrange(1000, 3_000_000)
            o, addr = self.wallet_output(chain, n, amount, kind)
            pairs.append((o, {'addr': addr, 'amt': amount, 'kind': kind}))
            touches.add(addr)
        for _ in range(rng.choice([0, 0, 1, 2])):
            o = self.third_party(rng.choice(THIRD_PARTY))
            pairs.insert(rng.randrange(0, len(pairs) + 1), (o, {'addr': None, 'amt': o.amount, 'kind': 'other'}))
        outs = [p[0] for p in pairs]
        final_abs = [p[1] for p in pairs]
        tx.add_outputs(outs)
        if mempool:
            height = 0
        else:
            self.height += rng.choice([1, 1, 2])
            height = self.height
        self.server.add(tx, height, touches)
        self.abstract.append({'height': height, 'ins': ins_abs, 'outs': final_abs})
        for a in touches:
            if a in self.net.subscribed:
                self.notifications.append(a)
        return len(self.server.txs) - 1

    def confirm_mempool(self):
        """mempool transactions are mined: same transactions, new heights (the server retracts nothing)"""
        changed = False
        for i, t in enumerate(self.server.txs):
            if t['height'] <= 0 and self.rng.random() < 0.7:
                self.height += 1
                t['height'] = self.height
                self.abstract[i]['height'] = self.height
                changed = True
                for a in t['touches']:
                    if a in self.net.subscribed:
                        self.notifications.append(a)
        return changed

    def unspent_wallet_outputs(self):
        spent = {(i[0] - 1, i[1] - 1) for t in self.abstract for i in t['ins'] if i[0] > 0}
        res = []
        for ti, t in enumerate(self.abstract):
            for k, o in enumerate(t['outs']):
                if o['addr'] and (ti, k) not in spent:
                    res.append((ti, k))
        return res

    # -- scheduling
    def run_to_quiescence(self, limit=400_000, adds=0):
        """`adds` server transactions are still to come: they arrive at seeded moments WHILE the wallet is syncing"""
        rng, loop = self.rng, self.loop
        held = {}           # id(future) -> scheduler decision at which a starved network reply is finally delivered
        for tick in range(limit):
            choices = []
            # starvation: now and then one pending reply is held back for a long time while everything else proceeds
            for fut, _ in self.net.pending:
                if id(fut) not in held:
                    held[id(fut)] = tick + (rng.randrange(50, 600) if rng.random() < 0.15 else 0)
            free = [i for i, (fut, _) in enumerate(self.net.pending) if held[id(fut)] <= tick]
            if adds:
                choices += ['add']
            if self.notifications:
                choices += ['notify'] * 2
            if free:
                choices += ['net'] * 3
            if loop.ready_count():
                choices += ['step'] * 6
            if loop.pending_jobs:
                choices += ['job'] * 3
            if not choices:
                if self.net.pending:        # only starved replies are left: deliver the first
                    held[id(self.net.pending[0][0])] = tick
                    continue
                # nothing queued, nothing pending, no notification left: every task is finished (or blocked for good, which
                # shows up as non-convergence) - no private attribute of the ledger is consulted
                return True
            c = rng.choice(choices)
            if c == 'add':
                adds -= 1
                unspent = self.unspent_wallet_outputs()
                if unspent and rng.random() < 0.45:
                    self.add_tx(spend_from=rng.sample(unspent, min(len(unspent), rng.choice([1, 1, 2]))), mempool=rng.random() < 0.3)
                else:
                    self.add_tx(mempool=rng.random() < 0.25)
                if rng.random() < 0.2:
                    self.confirm_mempool()
            elif c == 'notify':
                a = self.notifications.pop(rng.randrange(len(self.notifications)))
                with loop:
                    # the notification carries the status at the moment the server sent it... the server sends the CURRENT one
                    self.ledger.process_status_update((a, self.server.status(a)))
            elif c == 'net':
                with loop:
                    self.net.resolve(rng.choice(free))
            elif c == 'step':
                loop.step()
            else:
                with watchdog(60):
                    loop.complete_job(0)
        raise MachineryError('no quiescence within the step budget')

    def observe(self):
        table, rows = self.addr_table()
        num = {addr: i + 1 for i, (_, _, addr) in enumerate(table)}
        txnum = {t['tx'].id: i + 1 for i, t in enumerate(self.server.txs)}
        by_addr = {r['address']: r for r in rows}

        def parse(h):
            parts = (h or '').split(':')[:-1]
            return [[txnum.get(parts[i], 0), int(parts[i + 1])] for i in range(0, len(parts), 2)]
        server_hist = [[[txnum[txid], h] for txid, h in self.server.history(addr)] for (_, _, addr) in table]
        wallet_hist = [parse(by_addr[addr]['history']) if addr in by_addr else [] for (_, _, addr) in table]
        utxos = self._drain_all(lambda: self.loop.spawn(self.account.get_utxos()))
        balance = self._drain_all(lambda: self.loop.spawn(self.account.get_balance()))
        balance_c = self._drain_all(lambda: self.loop.spawn(self.account.get_balance(include_claims=True)))
        chains = []
        for chain in (0, 1):
            flags = [bool(r['used_times']) for r in rows if r['chain'] == chain]
            chains.append({'gap': self.gap[chain], 'used': flags})
        txs = [{'height': t['height'], 'ins': [i for i in t['ins'] if i[0] > 0],
                'outs': [{'a': num.get(o['addr'], 0) if o['addr'] else 0, 'amt': o['amt'], 'kind': o['kind']} for o in t['outs']]}
               for t in self.abstract]
        return {'txs': txs, 'server_hist': server_hist, 'wallet_hist': wallet_hist,
                'utxos': sorted([txnum.get(u.tx_ref.id, 0), u.position + 1] for u in utxos),
                'balance': int(balance), 'balance_with_claims': int(balance_c), 'chains': chains,
                'failed_tasks': len(self.failures), 'failures': self.failures[:3]}

    def close(self):
        try:
            self._drain_all(lambda: self.loop.spawn(self.ledger.db.close()))
        except Exception:  # pylint: disable=broad-except
            pass
        shutil.rmtree(self.dir, ignore_errors=True)


def one_world(ctx, k, rng):
    gap = rng.choice([(2, 1), (3, 2), (4, 2)])
    w = World(ctx, k, rng, gap)
    evs = []
    try:
        w.loop.spawn(w.ledger.subscribe_accounts())
        w.run_to_quiescence()
        stages = rng.choice([2, 3, 4])
        for _ in range(stages):
            w.run_to_quiescence(adds=rng.choice([1, 2, 3, 4, 6]))
            if rng.random() < 0.5 and w.confirm_mempool():
                w.run_to_quiescence()
            evs.append(w.observe())
        return {'ev': evs}
    finally:
        w.close()


def classify(ev, inv):
    if inv == 'NoSyncFailure':
        f = (ev.get('failures') or [''])[0]
        if 'No matching templates' in f:
            return 'update_history-raises-on-non-template-third-party-output'
        return 'update-task-failed:' + f.split(':')[0]
    return 'clause-' + inv


def leg_c(ctx):
    n = 1500 if ctx.thorough else 120
    traces = []
    for k in range(n):
        tr = one_world(ctx, k, ctx.rng)
        traces.append(tr)
        last = tr['ev'][-1]
        ctx.count(('world', k, len(last['txs'])), nontrivial=len(last['txs']) >= 3)
        if k < 2:
            ctx.sample({'quiescent_points': len(tr['ev']), 'final': {kk: vv for kk, vv in last.items() if kk != 'wallet_hist'}})
    c = tlc.make_cfg(spec='TSpec', invariants=TINVS, constraint='Reached', postcondition='Report')
    verdicts = tlc.validate_traces('WalletSyncTrace', c, traces, ctx, label='WalletSyncTrace', chunk=500, timeout=1800)
    for v in verdicts:
        if v['invariant']:
            tr = traces[v['tid']]
            k = (v.get('inv_event') or 0) + 1
            k = min(max(k, 0), len(tr['ev']) - 1)
            ev = tr['ev'][k]
            ctx.violation(classify(ev, v['invariant']), f"clause {v['invariant']} violated at quiescent point {k + 1}: failures={ev['failures']} "
                          f"utxos={ev['utxos']} balance={ev['balance']}", {'trace': tr, 'point': k})
    ctx.cov['traces_validated_against_impl'] += len(traces)
    ctx.leg('C', worlds=len(traces), quiescent_points=sum(len(t['ev']) for t in traces),
            transactions=sum(len(t['ev'][-1]['txs']) for t in traces))


def run(ctx):
    leg_a(ctx)
    leg_c(ctx)
    ctx.cov['rule'] = ('Leg A: all states of WalletSync.tla in the stated instance. Leg C: one seeded world per case: gap (2,1)/(3,2)/(4,2), 2-4 stages of 1-4 '
                       'real raw transactions (fund / spend 1-2 wallet outputs; 1-3 outputs to wallet addresses within the gap incl. exactly the last '
                       'watched index, kinds pay/claim/support; 0-2 third-party outputs of 13 script kinds; confirmed or mempool, mempool later mined), '
                       'notifications delivered in seeded order interleaved with single loop steps, pending network replies and database jobs; every '
                       'quiescent point judged. Distinct = one world; non-trivial = at least three transactions.')
    ctx.assumptions += ['the server is the driver\'s own: its per-address histories are the truth (confirmed by height, then mempool)',
                        'a notification carries the status current at delivery; at most a handful of transactions per address (<= 100)',
                        'amount sums below 2^31']
