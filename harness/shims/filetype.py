"""Import stub (the real package is not installed in this sandbox); no verified code path uses it."""
def guess(*a, **k):
    return None
