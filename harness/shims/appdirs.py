"""Import stub (the real package is not installed in this sandbox)."""
import os
def user_data_dir(*a, **k): return os.path.join(os.environ.get('TMPDIR', '/tmp'), 'verif-appdirs', 'data')
def user_config_dir(*a, **k): return os.path.join(os.environ.get('TMPDIR', '/tmp'), 'verif-appdirs', 'config')
def user_download_dir(*a, **k): return os.path.join(os.environ.get('TMPDIR', '/tmp'), 'verif-appdirs', 'dl')
