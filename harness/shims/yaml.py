"""Import stub (PyYAML is not installed in this sandbox); config files are never read by the checks."""
def safe_load(*a, **k): return {}
def safe_dump(*a, **k): return ''
def dump(*a, **k): return ''
def load(*a, **k): return {}
