class UPnP: pass
