"""Import stub."""
__version__ = '0'
