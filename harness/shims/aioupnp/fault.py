class UPnPError(Exception): pass
