"""Import stub."""
