"""C03 -- transaction funding.
Leg A: TxFund.tla (the balancing loop with declarative selection, scaled constants) exhaustively on two instances:
       Conservation, FeeLower, FeeUpper (and that a tighter bound FAILS), SingleChange, HonestRefusal.
Leg C: seeded real Transaction.create calls on a real ledger/sqlite/accounts; every outcome judged by TLC against
       TxFundTrace.tla (all clauses of the property on the real result)."""
import os
import shutil

from . import tlc
from .common import MachineryError, watchdog

INVS = ['Conservation', 'FeeLower', 'FeeUpper', 'FeeUpperPay', 'SingleChange', 'HonestRefusal']
TINVS = ['OutputsPreserved', 'InputsLegit', 'Conservation', 'FeeLower', 'FeeUpper', 'SingleChange', 'HonestRefusal',
         'NoOtherFailure', 'ReleasedOnFailure']
STRATS = [None, 'standard', 'sqlite', 'prefer_confirmed', 'only_confirmed', 'closest_match', 'branch_and_bound', 'random_draw']
COIN = 100_000_000
LIMIT = 2_000_000_000     # every sum must stay below 2^31 (TLC integers)


def model_cfg(inst, invs):
    return (f'SPECIFICATION Spec\nCONSTANTS\n  AMOUNTS <- Am{inst}\n  REQS <- Reqs{inst}\n  PRES <- Pres{inst}\n'
            + ''.join(f'INVARIANT {i}\n' for i in invs) + 'CHECK_DEADLOCK FALSE\n')


def leg_a(ctx):
    for inst in (1, 2):
        res = tlc.run('MCTxFund', model_cfg(inst, INVS), ctx, timeout=900, label=f'TxFund-inst{inst}', workers=8)
        ctx.add_tlc(res, f'TxFund exhaustive instance {inst} (MCTxFund.tla)')
        if res.violated:
            ctx.violation('model:' + res.violated[0], f'model invariant {res.violated[0]} violated', res.error_trace[:6000])
            return
        tlc.require_coverage(res, ['Step'], 'TxFund')
    # the bound is not vacuous: one change-output cost is NOT enough when nothing was requested
    r = tlc.run('MCTxFund', model_cfg(2, ['FeeUpperTooTight']), ctx, coverage=False, timeout=600, label='TxFund-tight', workers=4)
    if 'FeeUpperTooTight' not in r.violated:
        raise MachineryError('negative control failed: the tighter fee bound should be refuted by the model')
    for inst, w in ((1, 'W_Insufficient'), (2, 'W_NoOutputs'), (1, 'W_Change')):
        r = tlc.run('MCTxFund', model_cfg(inst, [w]), ctx, coverage=False, timeout=600, label=w, workers=4)
        if w not in r.violated:
            raise MachineryError(f'reachability witness {w} not reached')
    ctx.leg('A', instances=2, invariants=INVS, negative_control='FeeUpperTooTight refuted', witnesses=['W_Insufficient', 'W_NoOutputs', 'W_Change'])


# ----------------------------------------------------------------------------------------------- real calls

class Base:
    """wallet with two accounts and their addresses, prepared once"""

    def __init__(self, ctx):
        from .walletenv import WalletEnv, snapshot
        self.dir = ctx.mkdir('c03-base')
        env = WalletEnv(self.dir, nacc=2)
        self.snap = os.path.join(self.dir, 'snap.db')
        snapshot(env, self.snap)
        env.close()


def amount_classes(rng, rate):
    infee = 148 * rate
    return rng.choice([
        rng.choice([100, 546, 1000, infee - 1, infee, infee + 1, infee + 500, infee + 1001]),
        rng.randrange(infee + 1, infee + 6000),
        rng.randrange(10_000, 200_000),
        rng.randrange(200_000, 5_000_000),
        rng.randrange(1_000_000, 60_000_000),
        rng.choice([COIN // 100, COIN // 10, COIN, 3 * COIN // 2]),
        rng.choice([10 ** 4, 10 ** 6, 10 ** 8, 10 ** 2]),          # exactly on the edges of the sqlite chooser's amount windows
    ])


def make_request(rng, ledger, target_total, big=False):
    from lbry.wallet.transaction import Output
    from lbry.schema.claim import Claim
    from lbry.schema.purchase import Purchase
    n = rng.choice([0, 1, 1, 1, 2, 3]) if not big else rng.choice([120, 250])
    outs = []
    for i in range(n):
        amt = max(1, int(target_total / max(n, 1) * rng.uniform(0.6, 1.4))) if target_total > 0 else rng.choice([1, 1000, 50_000])
        kind = rng.choice(['pay', 'pay', 'pay', 'claim', 'support', 'purchase']) if not big else 'pay'
        h = bytes([rng.randrange(256)]) * 20
        if kind == 'pay':
            o = Output.pay_pubkey_hash(amt, h)
        elif kind == 'claim':
            c = Claim()
            c.stream.title = 't' * rng.choice([0, 5, 300])
            # (names outside ASCII too: the name fee is per BYTE of the name as it stands in the script)
            o = Output.pay_claim_name_pubkey_hash(amt, rng.choice(['a', 'name', 'n' * 40, '@chan', '\u00f1ame', '\u540d\u524d' * 6, '\U0001f600' * 5]), c, h)
        elif kind == 'support':
            o = Output.pay_support_pubkey_hash(amt, 'name', 'ab' * 20, h)
        else:
            o = Output.add_purchase_data(Purchase('cd' * 20))
            o.amount = 0
        outs.append(o)
    return outs


def one_case(ctx, base, k, rng):
    from .walletenv import WalletEnv
    from lbry.wallet.transaction import Transaction, Input, Output
    from lbry.error import InsufficientFundsError
    d = ctx.mkdir(f'c03-{k}')
    shutil.copyfile(base.snap, os.path.join(d, 'blockchain.db'))
    rate = rng.choice([50, 50, 50, 1, 200])
    strat = rng.choice(STRATS)
    env = WalletEnv(d, nacc=2, fee_per_byte=rate, strategy=strat)
    try:
        ledger = env.ledger
        ledger.fee_per_name_char = rng.choice([0, 0, 1, 40, 2_000, 200_000])      # below and above the size fee of a claim output
        shape = rng.random()
        big = shape > 0.97
        ncoins = rng.choice([0, 1, 2, 3, 4, 5, 6, 8, 10, 12]) if not big else rng.choice([80, 250])
        if not big and shape < 0.30:
            ncoins = 0          # directed modes below bring their own coins
        coins = []
        total = 0
        # coins in a few funding transactions with different confirmation states and owners
        groups = {}
        for i in range(ncoins):
            a = amount_classes(rng, rate) if not big else rng.randrange(148 * rate + 2000, 148 * rate + 400_000)
            if total + a > LIMIT // 2:
                break
            total += a
            groups.setdefault((rng.random() < 0.75, rng.random() < 0.8), []).append(a)
        cid = 0
        for (verified, acc0), amts in groups.items():
            acc = env.accounts[0 if acc0 else 1]
            tx, outs = env.fund(amts, acc=acc, verified=verified)
            for o in outs:
                cid += 1
                coins.append({'id': cid, 'txo': o, 'amount': o.amount, 'confirmed': bool(verified), 'acc': 0 if acc0 else 1})
        mode = 'general'
        if not big and shape < 0.08:
            # directed: one decent coin among many coins worth less than the fee to spend them
            mode = 'dusty'
            coins = []
            tx, outs = env.fund([rng.choice([2_000_000, 20_000_000])] + [rng.choice([100, 546, 1000, 148 * rate - 1])] * rng.choice([30, 120, 200]),
                                acc=env.accounts[0], verified=True)
            for o in outs:
                coins.append({'id': len(coins) + 1, 'txo': o, 'amount': o.amount, 'confirmed': True, 'acc': 0})
        elif not big and 0.16 <= shape < 0.22:
            # directed: coins exactly on the edges of the sqlite chooser's amount windows, payment walking across windows
            mode = 'window-edges'
            coins = []
            amts = [rng.choice([50_000, 700_000]), 10 ** 6, rng.choice([10 ** 8, 3 * 10 ** 6]), 10 ** 8]
            tx, outs = env.fund(amts, acc=env.accounts[0], verified=True)
            for o in outs:
                coins.append({'id': len(coins) + 1, 'txo': o, 'amount': o.amount, 'confirmed': True, 'acc': 0})
        elif not big and shape < 0.16:
            # directed: the caller's input misses the cost by 1..9 dewies while a large coin is available
            mode = 'tiny-deficit'
            coins = []
            tx, outs = env.fund([rng.choice([150_000, 3_000_000]), 5 * COIN // 10], acc=env.accounts[0], verified=True)
            for o in outs:
                coins.append({'id': len(coins) + 1, 'txo': o, 'amount': o.amount, 'confirmed': True, 'acc': 0})
        elif not big and 0.22 <= shape < 0.30:
            # directed: k near-equal coins, payment in the narrow band where j coins cover it nominally but not once
            # the cost of spending them is taken off (accumulating strategies must draw one coin more)
            mode = 'draw-band'
            coins = []
            amt = rng.choice([COIN, 5_000_000, 400_000])
            tx, outs = env.fund([amt + rng.choice([0, 0, 1, 7]) for _ in range(rng.choice([3, 4, 5, 6]))], acc=env.accounts[0], verified=True)
            for o in outs:
                coins.append({'id': len(coins) + 1, 'txo': o, 'amount': o.amount, 'confirmed': True, 'acc': 0})
        funding = [env.accounts[0]] if rng.random() < 0.7 or mode != 'general' else list(env.accounts)
        fset = {0} if len(funding) == 1 else {0, 1}
        # some coins reserved beforehand
        pre_res = [c for c in coins if rng.random() < 0.12 and mode == 'general']
        if pre_res:
            env.run(ledger.reserve_outputs([c['txo'] for c in pre_res]))
        for c in coins:
            c['reserved'] = c in pre_res
            c['funding'] = c['acc'] in fset
            est = Input.spend(c['txo'])
            c['eff'] = c['amount'] - est.size * rate
            c['est_in_size'] = est.size
        # pre-chosen inputs
        cand = [c for c in coins if not c['reserved'] and c['funding']]
        pre = rng.sample(cand, k=min(len(cand), rng.choice([0, 0, 0, 1, 2]))) if not big else []
        spendable_eff = sum(c['eff'] for c in coins if c['funding'] and not c['reserved'] and c['eff'] > 0)
        # target relative to what is available: far below, just below, at, just above, far above
        rel = rng.choice([0.05, 0.3, 0.7, 0.97, 0.999, 1.0, 1.001, 1.05, 2.0])
        target_total = int(spendable_eff * rel) + rng.choice([0, 0, -2801, -500, 1, 10, 2800, 12_000])
        target_total = max(0, min(target_total, LIMIT // 2))
        req = make_request(rng, ledger, target_total, big=big and rng.random() < 0.5)
        if mode == 'window-edges':
            pre = []
            strat = 'sqlite' if rng.random() < 0.7 else strat
            ledger.coin_selection_strategy = strat
            req = [Output.pay_pubkey_hash(rng.choice([10 ** 6 + 600_000, 10 ** 8 + 500_000, 2 * 10 ** 6]), b'\x09' * 20)]
        if mode == 'draw-band':
            pre = []
            if strat == 'sqlite':
                strat = rng.choice([None, 'standard', 'prefer_confirmed', 'random_draw'])
                ledger.coin_selection_strategy = strat
            j = rng.randrange(1, len(coins))
            nominal = sum(c['amount'] for c in coins[:j])
            x = rng.randrange(-2000, j * 148 * rate + 2000)
            req = [Output.pay_pubkey_hash(max(1, nominal - 88 * rate - x), b'\x09' * 20)]
        if mode == 'dusty':
            pre = []
            req = [Output.pay_pubkey_hash(coins[0]['eff'] // 2, b'\x09' * 20)]
        elif mode == 'tiny-deficit':
            pre = [coins[0]]
            delta = rng.randrange(1, 10)
            req = [Output.pay_pubkey_hash(coins[0]['eff'] - 10 * rate - 34 * rate + delta, b'\x09' * 20)]
        req_info = [{'amount': o.amount, 'fee': o.get_fee(ledger)} for o in req]
        probe = Transaction().add_inputs([Input.spend(c['txo']) for c in pre]).add_outputs(list(req))
        base0 = probe.get_base_fee(ledger)
        from lbry.wallet.constants import NULL_HASH32, DUST
        selcoc = Output.pay_pubkey_hash(COIN, NULL_HASH32).get_fee(ledger)
        rec = {'rate': rate, 'base0': base0, 'coc': 10 * rate + selcoc, 'selcoc': selcoc, 'dust': DUST,
               'strategy': strat or 'standard', 'mode': mode, 'pre': [c['id'] for c in pre], 'req': req_info,
               'coins': [{k2: c[k2] for k2 in ('id', 'amount', 'eff', 'confirmed', 'reserved', 'funding')} for c in coins],
               'ins': [], 'outs': [], 'minfee_signed': 0, 'minfee_est': 0, 'res_after': [], 'ev': []}
        by_txoid = {c['txo'].id: c for c in coins}
        change_acc = funding[0]
        inputs = [Input.spend(c['txo']) for c in pre]
        try:
            with watchdog(120):
                tx = env.run(Transaction.create(inputs, list(req), funding, change_acc), limit=3_000_000)
            rec['result'] = 'ok'
        except InsufficientFundsError:
            rec['result'] = 'insufficient'
        except Exception as e:  # pylint: disable=broad-except
            rec['result'] = 'other'
            rec['exc'] = f'{type(e).__name__}: {e}'
        if rec['result'] == 'ok':
            change_addrs = set(env.addresses(change_acc, 'change'))
            unknown = 0
            for txi in tx.inputs:
                c = by_txoid.get(txi.txo_ref.id)
                if c is None:
                    unknown -= 1
                    rec['ins'].append(unknown)
                else:
                    rec['ins'].append(c['id'])
            out_sizes = 0
            minfee_outs = 0
            for i, o in enumerate(tx.outputs):
                same = i < len(req) and o.script.source == req[i].script.source
                addr = None
                if 'pubkey_hash' in o.script.values:
                    addr = ledger.hash160_to_address(o.script.values['pubkey_hash'])
                rec['outs'].append({'amount': o.amount, 'same': bool(same), 'change': addr in change_addrs and o.script.is_pay_pubkey_hash})
                name_fee = len(o.script.values['claim_name']) * ledger.fee_per_name_char if o.script.is_claim_name else 0
                out_sizes += o.size
                minfee_outs += max(name_fee, o.size * rate)
            size_signed = len(tx.raw)
            act_in = sum(txi.size for txi in tx.inputs)
            est_in = sum(by_txoid[txi.txo_ref.id]['est_in_size'] if txi.txo_ref.id in by_txoid else txi.size for txi in tx.inputs)
            rec['minfee_signed'] = (size_signed - out_sizes) * rate + minfee_outs
            rec['minfee_est'] = (size_signed - act_in + est_in - out_sizes) * rate + minfee_outs
            rec['size'] = size_signed
        reserved_now = set(env.reserved_ids())
        rec['res_after'] = sorted(c['id'] for c in coins if c['txo'].id in reserved_now)
        return rec
    finally:
        env.close()
        shutil.rmtree(d, ignore_errors=True)


def classify(rec, inv):
    if inv == 'NoOtherFailure':
        exc = rec.get('exc', '')
        if 'shuffle' in exc:
            return 'random_draw-shuffle-TypeError'
        return 'other-failure:' + exc.split(':')[0]
    if inv == 'HonestRefusal':
        if rec.get('mode') == 'tiny-deficit' and rec['strategy'] == 'sqlite':
            return 'refusal-sqlite-deficit-below-10'
        if any(c['eff'] <= 0 and c['funding'] and not c['reserved'] for c in rec['coins']):
            return 'refusal-with-dust-coins:' + ('sqlite' if rec['strategy'] == 'sqlite' else 'selector')
        if rec['strategy'] == 'sqlite':
            return 'refusal-sqlite'
        return 'refusal-' + rec['strategy']
    return 'clause-' + inv + ':' + rec['strategy']


def leg_c(ctx, base):
    n = 6000 if ctx.thorough else 500
    recs = []
    outcomes = {}
    for k in range(n):
        rec = one_case(ctx, base, k, ctx.rng)
        recs.append(rec)
        outcomes[rec['result']] = outcomes.get(rec['result'], 0) + 1
        ctx.count((rec['strategy'], rec['rate'], tuple(c['amount'] for c in rec['coins']), tuple(o['amount'] for o in rec['req']), tuple(rec['pre'])),
                  nontrivial=len(rec['coins']) >= 2)
        if k < 4:
            ctx.sample({kk: vv for kk, vv in rec.items() if kk != 'ev'})
    c = tlc.make_cfg(spec='TSpec', invariants=TINVS, constraint='Reached', postcondition='Report')
    verdicts = tlc.validate_traces('TxFundTrace', c, recs, ctx, label='TxFundTrace', chunk=1000, timeout=1800, deque=False)
    for v in verdicts:
        if v['invariant']:
            rec = recs[v['tid']]
            ctx.violation(classify(rec, v['invariant']),
                          f"clause {v['invariant']} violated by a real Transaction.create: strategy={rec['strategy']} result={rec['result']} "
                          f"{rec.get('exc', '')} coins={[c['amount'] for c in rec['coins']][:12]} req={[o['amount'] for o in rec['req']][:6]}", rec)
    ctx.cov['traces_validated_against_impl'] += len(recs)
    ctx.leg('C', calls=len(recs), outcomes=outcomes)


def run(ctx):
    leg_a(ctx)
    base = Base(ctx)
    leg_c(ctx, base)
    ctx.cov['rule'] = ('Leg A: all states of TxFund.tla on two instances. Leg C: one real Transaction.create per case: 0-12 (sometimes 80/250) coins '
                       'with amounts around the input fee, dust and up to 1.5 LBC, mixed confirmation, two accounts, some reserved beforehand, '
                       '0-3 (sometimes 120/250) requested outputs (payments, claims with and without name fee, supports, purchases), 0-2 '
                       'pre-chosen inputs, fee rates 1/50/200, every strategy, totals placed far below / just below / at / just above / far '
                       'above what is spendable; distinct = distinct (strategy, rate, coins, request); non-trivial = at least two coins.')
    ctx.assumptions += ['all sums below 2^31 dewies (TLC integers); the 64-bit range belongs to C05',
                        'a refusal is judged with a tolerance of one change-output cost (several strategies aim at deficit + cost of change)',
                        'branch_and_bound as the only strategy is judged on coin sets of at most 12']
